package tensor

// C01 - coordinate addressing is exact and bounds-checked.

func init() {
	vHarnesses["vhC01At"] = vhC01At
	vHarnesses["vhC01SetAt"] = vhC01SetAt
	vHarnesses["vhC01Strides"] = vhC01Strides
}

func vhC01At() {
	vDispatch(vCfgStr("dtype"), vBodies{b: vC01At[bool], i: vC01At[int], i8: vC01At[int8], i16: vC01At[int16], i32: vC01At[int32], i64: vC01At[int64],
		u: vC01At[uint], u8: vC01At[uint8], u16: vC01At[uint16], u32: vC01At[uint32], u64: vC01At[uint64], uptr: vC01At[uintptr],
		f32: vC01At[float32], f64: vC01At[float64], c64: vC01At[complex64], c128: vC01At[complex128], str: vC01At[string]})
}

func vhC01SetAt() {
	vDispatch(vCfgStr("dtype"), vBodies{b: vC01SetAt[bool], i: vC01SetAt[int], i8: vC01SetAt[int8], i16: vC01SetAt[int16], i32: vC01SetAt[int32], i64: vC01SetAt[int64],
		u: vC01SetAt[uint], u8: vC01SetAt[uint8], u16: vC01SetAt[uint16], u32: vC01SetAt[uint32], u64: vC01SetAt[uint64], uptr: vC01SetAt[uintptr],
		f32: vC01SetAt[float32], f64: vC01SetAt[float64], c64: vC01SetAt[complex64], c128: vC01SetAt[complex128], str: vC01SetAt[string]})
}

// vC01Mk builds the tensor under test and returns it together with the expected
// logical content in row-major order of the tensor's (final) shape.
//
//	variant: row   = New(WithShape, WithBacking(b))               At(c) == b[rowRank(c)]
//	         fraw  = New(WithShape, WithBacking(b), AsFortran(nil)) At(c) == b[colRank(c)]
//	         fconv = New(WithShape, AsFortran(b))                  At(c) == b[rowRank(c)]
//	layout:  C (as built), T (default lazy transpose), S (unit-step interior slice on axis 0), TS (slice of the transpose)
func vC01Mk[T vScalar]() (t *Dense, want []T, shape []int, ok bool) {
	pshape := vCfgInts("shape")
	n := vProd(pshape)
	b := vNondetSlice[T]("e", n)
	// logical row-major content of the parent
	logical := make([]T, n)
	switch vCfgStr("variant") {
	case "row":
		t = New(WithShape(pshape...), WithBacking(b))
		copy(logical, b)
	case "fraw":
		t = New(WithShape(pshape...), WithBacking(b), AsFortran(nil))
		vForCoords(pshape, func(c []int) { logical[vRowRank(pshape, c)] = b[vColRank(pshape, c)] })
	case "fraw2": // the same tensor with the construction options in another order (the shape is set on a column-major AP)
		t = New(WithBacking(b), AsFortran(nil), WithShape(pshape...))
		vForCoords(pshape, func(c []int) { logical[vRowRank(pshape, c)] = b[vColRank(pshape, c)] })
	case "fraw3":
		t = New(AsFortran(nil), WithShape(pshape...), WithBacking(b))
		vForCoords(pshape, func(c []int) { logical[vRowRank(pshape, c)] = b[vColRank(pshape, c)] })
	case "fconv":
		orig := make([]T, n)
		copy(orig, b)
		t = New(WithShape(pshape...), AsFortran(b))
		copy(logical, orig)
	}
	shape = vCopyInts(pshape)
	want = logical
	lay := vCfgStr("layout")
	if lay == "T" || lay == "TS" {
		var terr error
		tp := vCatch(func() { terr = t.T() })
		// known finding: column-major (n,1)/(1,n) tensors carry one stride; AP.T indexes strides[1]
		vAssertKF(!tp, "T-no-panic", "KF-C03-colvecT", vCfgStr("variant") != "row" && len(shape) == 2 && (shape[0] == 1 || shape[1] == 1))
		if tp || terr != nil {
			return
		}
		nshape := vReverseInts(shape)
		nw := make([]T, n)
		vForCoords(nshape, func(c []int) { nw[vRowRank(nshape, c)] = want[vRowRank(shape, vReverseInts(c))] })
		shape, want = nshape, nw
	}
	if lay == "PP" {
		// two successive lazy transposes by the same axis rotation (not each other's inverse for rank >= 3)
		r := len(shape)
		p := make([]int, r)
		for i := range p {
			p[i] = (i + 1) % r
		}
		for k := 0; k < 2; k++ {
			if err := t.T(p...); err != nil {
				panic("T failed")
			}
			want, shape = vPermApply(want, shape, p)
		}
	}
	if lay == "S" || lay == "TS" {
		// interior window [1:dim) on axis 0 (requires dim0 >= 2)
		v, err := t.Slice(rs{1, shape[0], 1})
		if err != nil {
			panic("Slice failed")
		}
		nshape := vCopyInts(shape)
		nshape[0] = shape[0] - 1
		nw := make([]T, vProd(nshape))
		vForCoords(nshape, func(c []int) {
			pc := vCopyInts(c)
			pc[0] = c[0] + 1
			nw[vRowRank(nshape, c)] = want[vRowRank(shape, pc)]
		})
		// a slice that leaves one entry on axis 0 drops that axis
		if nshape[0] == 1 && len(nshape) > 1 {
			nshape = nshape[1:]
		}
		// a slice that leaves exactly one element yields a scalar-shaped view (coordinates: none)
		if vProd(nshape) == 1 {
			nshape = []int{}
		}
		shape, want = nshape, nw
		t = v.(*Dense)
	}
	ok = true
	return
}

func vC01At[T vScalar]() {
	t, want, shape, ok := vC01Mk[T]()
	arity := len(shape) + vCfgInt("arity_delta")
	if !ok || arity < 0 {
		vReach("C01.At")
		return
	}
	c := vNondetSlice[int]("c", arity)
	var got interface{}
	var err error
	panicked := vCatch(func() { got, err = t.At(c...) })
	vReach("C01.At")
	kfNeg := vAnyNeg(c)
	vAssertKF(!panicked, "no-panic", "KF-C01-neg", kfNeg)
	if panicked {
		return
	}
	if arity != len(shape) {
		vAssert(err != nil, "reject-arity")
		return
	}
	inb := vInBox(shape, c)
	if err != nil {
		vAssert(!inb, "accept")
		return
	}
	vAssertKF(inb, "reject", "KF-C01-neg", kfNeg)
	x, isT := got.(T)
	vAssert(isT, "dtype")
	if !isT {
		return
	}
	vForCoords(shape, func(d []int) {
		vAssert(vImplies(vEqCoord(c, d), vSameBits(x, want[vRowRank(shape, d)])), "read")
	})
}

func vC01SetAt[T vScalar]() {
	t, want, shape, ok := vC01Mk[T]()
	arity := len(shape) + vCfgInt("arity_delta")
	if !ok || arity < 0 {
		vReach("C01.SetAt")
		return
	}
	c := vNondetSlice[int]("c", arity)
	v := vNondet[T]("v")
	var err error
	panicked := vCatch(func() { err = t.SetAt(v, c...) })
	vReach("C01.SetAt")
	kfNeg := vAnyNeg(c)
	vAssertKF(!panicked, "no-panic", "KF-C01-neg", kfNeg)
	if panicked {
		return
	}
	inb := false
	if arity == len(shape) {
		inb = vInBox(shape, c)
	}
	if err != nil {
		vAssert(!inb, "accept")
	} else {
		vAssertKF(inb, "reject", "KF-C01-neg", kfNeg)
	}
	// frame: every element is its old value, except the addressed one after a successful in-box write
	vForCoords(shape, func(d []int) {
		got, e2 := t.At(d...)
		vAssert(e2 == nil, "readback")
		if e2 != nil {
			return
		}
		x := got.(T)
		old := want[vRowRank(shape, d)]
		hit := false
		if arity == len(shape) {
			hit = vAnd(vAnd(err == nil, inb), vEqCoord(c, d))
		}
		vAssertKF(vImplies(hit, vSameBits(x, v)), "write-one", "KF-C01-neg", kfNeg)
		vAssertKF(vImplies(!hit, vSameBits(x, old)), "frame", "KF-C01-neg", kfNeg)
	})
}

// vhC01Strides: stride computation and Ltoi with symbolic dims (all shapes of the rank in the box).
func vhC01Strides() {
	rank := vCfgInt("rank")
	col := vCfgStr("order") == "col"
	maxd := vCfgInt("maxdim")
	dims := vNondetSlice[int]("d", rank)
	for i := range dims {
		vAssume(dims[i] >= 1)
		vAssume(dims[i] <= maxd)
	}
	shape := Shape(vCopyInts(dims))
	var strides []int
	if col {
		strides = shape.CalcStridesColMajor()
	} else {
		strides = shape.CalcStrides()
	}
	c := vNondetSlice[int]("c", rank)
	for i := range c {
		vAssume(c[i] >= 0)
	}
	at, err := Ltoi(shape, strides, c...)
	vReach("C01.Strides")
	inb := vInBox(dims, c)
	if err != nil {
		vAssert(!inb, "accept")
		return
	}
	vAssert(inb, "reject")
	want := vRowRank(dims, c)
	if col {
		want = vColRank(dims, c)
	}
	vAssert(at == want, "rank-eq")
	// size
	vAssert(shape.TotalSize() == vProd(dims), "size")
}
