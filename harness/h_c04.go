package tensor

// C04 - views alias their source, copies never do, and writes stay inside the view.

func init() {
	vHarnesses["vhC04Frame"] = vhC04Frame
	vHarnesses["vhC04Alias"] = vhC04Alias
	vHarnesses["vhC04Copy"] = vhC04Copy
}

type vNum interface {
	~int | ~int8 | ~int16 | ~int32 | ~int64 | ~uint | ~uint8 | ~uint16 | ~uint32 | ~uint64 | ~float32 | ~float64 | ~complex64 | ~complex128
}

func vhC04Frame() {
	kind := vCfgStr("write")
	if kind == "neg" || kind == "add" || kind == "addscalar" || kind == "sub" || kind == "mul" {
		vDispatch(vCfgStr("dtype"), vBodies{i: vC04FrameNum[int], i8: vC04FrameNum[int8], i16: vC04FrameNum[int16], i32: vC04FrameNum[int32], i64: vC04FrameNum[int64], u8: vC04FrameNum[uint8], u16: vC04FrameNum[uint16],
			f32: vC04FrameNum[float32], f64: vC04FrameNum[float64], c128: vC04FrameNum[complex128]})
		return
	}
	vDispatch(vCfgStr("dtype"), vBodies{b: vC04Frame[bool], i: vC04Frame[int], i8: vC04Frame[int8], i16: vC04Frame[int16], i32: vC04Frame[int32], u16: vC04Frame[uint16], f32: vC04Frame[float32], f64: vC04Frame[float64],
		c64: vC04Frame[complex64], c128: vC04Frame[complex128], str: vC04Frame[string]})
}

// vC04View builds parent + view. Returns the parent's backing (aliasing its storage), the view, and for every view
// coordinate (row-major order of the view's shape) the parent's row-major rank it denotes.
func vC04View[T vScalar]() (b []T, parent *Dense, view *Dense, vshape []int, ranks []int, ok bool) {
	pshape := vCfgInts("shape")
	n := vProd(pshape)
	b = vNondetSlice[T]("e", n)
	if vCfgStr("base") == "F" {
		parent = New(WithShape(pshape...), WithBacking(b), AsFortran(nil))
	} else {
		parent = New(WithShape(pshape...), WithBacking(b))
	}
	colmajor := vCfgStr("base") == "F"
	prank := func(c []int) int {
		if colmajor {
			return vColRank(pshape, c)
		}
		return vRowRank(pshape, c)
	}
	vC04OneElemWindow = false
	recipe := vCfgStr("view") // slice | T | Tslice
	cur := parent
	curShape := vCopyInts(pshape)
	// curMap[k] = parent storage rank of cur's k-th logical element
	curMap := make([]int, n)
	vForCoords(pshape, func(c []int) { curMap[vRowRank(pshape, c)] = prank(c) })
	if recipe == "T" || recipe == "Tslice" {
		if len(pshape) < 2 {
			return
		}
		if err := cur.T(); err != nil {
			return
		}
		ns := vReverseInts(curShape)
		nm := make([]int, n)
		os, om := curShape, curMap
		vForCoords(ns, func(c []int) { nm[vRowRank(ns, c)] = om[vRowRank(os, vReverseInts(c))] })
		curShape, curMap = ns, nm
	}
	if recipe == "slice" || recipe == "Tslice" {
		axis := vCfgInt("axis")
		dim := curShape[axis]
		s := vSplit(vNondet[int]("s"), 0, dim-1)
		e := vSplit(vNondet[int]("e"), s+1, dim)
		st := vSplit(vNondet[int]("st"), 1, 3)
		// stay outside the open slicing findings (leading-axis floor): C02 owns those
		cnt := (e - s + st - 1) / st
		vC04OneElemWindow = cnt == 1 && e-s > 1
		if axis == 0 && st > 1 && (e-s)%st != 0 {
			return
		}
		sls := make([]Slice, axis+1)
		sls[axis] = S(s, e, st)
		v, err := cur.Slice(sls...)
		if err != nil {
			return
		}
		view = v.(*Dense)
		ns := vCopyInts(curShape)
		ns[axis] = cnt
		nm := make([]int, vProd(ns))
		os, om := curShape, curMap
		vForCoords(ns, func(c []int) {
			pc := vCopyInts(c)
			pc[axis] = s + c[axis]*st
			nm[vRowRank(ns, c)] = om[vRowRank(os, pc)]
		})
		// AP.S drops a sliced axis left with one entry (and makes a one-element window a scalar)
		vs := []int(view.Shape())
		if vProd(vs) != vProd(ns) {
			vAssert(false, "view-size")
			return
		}
		curShape, curMap = vCopyInts(vs), nm
	} else {
		view = cur
	}
	vshape = curShape
	ranks = curMap
	ok = true
	return
}

// vC04OneElemWindow is the region of KF-C04-window1: a stepped range that selects a single entry keeps the skipped
// cells in its storage window, and the resulting scalar-shaped view is processed as raw storage.
var vC04OneElemWindow bool

func vC04Check[T vScalar](b, old []T, ranks []int, expect func(k int) T) {
	inImage := make([]bool, len(b))
	for k, r := range ranks {
		inImage[r] = true
		vAssertKF(vSameBits(b[r], expect(k)), "inside", "KF-C04-window1", vC04OneElemWindow)
	}
	for r := range b {
		if !inImage[r] {
			vAssertKF(vSameBits(b[r], old[r]), "frame", "KF-C04-window1", vC04OneElemWindow)
		}
	}
}

func vC04Frame[T vScalar]() {
	b, _, view, vshape, ranks, ok := vC04View[T]()
	vReach("C04.Frame")
	if !ok {
		return
	}
	old := make([]T, len(b))
	copy(old, b)
	var zero T
	switch vCfgStr("write") {
	case "memset":
		v := vNondet[T]("v")
		err := view.Memset(v)
		vAssert(err == nil, "memset-ok")
		vC04Check(b, old, ranks, func(k int) T { return v })
	case "zero":
		view.Zero()
		vC04Check(b, old, ranks, func(k int) T { return zero })
	case "setat":
		vals := vNondetSlice[T]("w", len(ranks))
		if len(vshape) == 0 {
			vAssert(view.SetAt(vals[0]) == nil, "setat-ok")
		} else {
			vForCoords(vshape, func(c []int) {
				vAssert(view.SetAt(vals[vRowRank(vshape, c)], c...) == nil, "setat-ok")
			})
		}
		vC04Check(b, old, ranks, func(k int) T { return vals[k] })
	case "copy":
		src, sw := vMkOperand[T]("x", vshape, vCfgStr("srclayout"))
		err := Copy(view, src)
		vAssert(err == nil, "copy-ok")
		if err == nil {
			vC04Check(b, old, ranks, func(k int) T { return sw[k] })
		}
	}
}

func vC04FrameNum[T vNum]() {
	b, _, view, vshape, ranks, ok := vC04View[T]()
	vReach("C04.Frame")
	if !ok {
		return
	}
	old := make([]T, len(b))
	copy(old, b)
	switch vCfgStr("write") {
	case "neg":
		r, err := Neg(view, UseUnsafe())
		vAssert(err == nil, "neg-ok")
		if err == nil {
			vAssert(r == Tensor(view), "neg-returns-view")
			vC04Check(b, old, ranks, func(k int) T { return -old[ranks[k]] })
		}
	case "add":
		x, xw := vMkOperand[T]("x", vshape, vCfgStr("srclayout"))
		_, err := Add(view, x, UseUnsafe())
		vAssert(err == nil, "add-ok")
		if err == nil {
			vC04Check(b, old, ranks, func(k int) T { return old[ranks[k]] + xw[k] })
		}
	case "sub", "mul": // (every generated iterator kernel writes through its own index variables)
		kind := vCfgStr("write")
		x, xw := vMkOperand[T]("x", vshape, vCfgStr("srclayout"))
		var err error
		if kind == "sub" {
			_, err = Sub(view, x, UseUnsafe())
		} else {
			_, err = Mul(view, x, UseUnsafe())
		}
		vAssert(err == nil, kind+"-ok")
		if err == nil {
			if kind == "sub" {
				vC04Check(b, old, ranks, func(k int) T { return old[ranks[k]] - xw[k] })
			} else {
				vC04Check(b, old, ranks, func(k int) T { return old[ranks[k]] * xw[k] })
			}
		}
	case "addscalar":
		s := vNondet[T]("s")
		_, err := Add(view, s, UseUnsafe())
		vAssert(err == nil, "addscalar-ok")
		if err == nil {
			vC04Check(b, old, ranks, func(k int) T { return old[ranks[k]] + s })
		}
	}
}

// vhC04Alias: a write through the view is read through the parent at the mapped coordinate, and vice versa.
func vhC04Alias() {
	vDispatch(vCfgStr("dtype"), vBodies{i: vC04Alias[int], f64: vC04Alias[float64], i8: vC04Alias[int8], c128: vC04Alias[complex128], str: vC04Alias[string]})
}

func vC04Alias[T vScalar]() {
	b, parent, view, vshape, ranks, ok := vC04View[T]()
	vReach("C04.Alias")
	if !ok {
		return
	}
	pshape := vCfgInts("shape")
	// write through the view at a symbolic coordinate, read the parent's storage
	c := vNondetSlice[int]("c", len(vshape))
	for i := range c {
		vAssume(c[i] >= 0)
		vAssume(c[i] < vshape[i])
	}
	v := vNondet[T]("v")
	old := make([]T, len(b))
	copy(old, b)
	err := view.SetAt(v, c...)
	vAssert(err == nil, "view-setat-ok")
	if err != nil {
		return
	}
	k := vRowRank(vshape, c)
	for r := range b {
		hit := false
		for kk, rr := range ranks {
			if rr == r {
				hit = vOr(hit, k == kk)
			}
		}
		vAssert(vImplies(hit, vSameBits(b[r], v)), "alias-wr")
		vAssert(vImplies(!hit, vSameBits(b[r], old[r])), "alias-frame")
	}
	// write through the parent at a symbolic coordinate, read through the view
	pc := vNondetSlice[int]("pc", len(pshape))
	for i := range pc {
		vAssume(pc[i] >= 0)
		vAssume(pc[i] < pshape[i])
	}
	v2 := vNondet[T]("v2")
	if vCfgStr("view") == "T" || vCfgStr("view") == "Tslice" {
		return // the parent object itself carries the lazy transpose: there is no untransposed handle to write through
	}
	err = parent.SetAt(v2, pc...)
	vAssert(err == nil, "parent-setat-ok")
	if err != nil {
		return
	}
	pr := vRowRank(pshape, pc)
	if vCfgStr("base") == "F" {
		pr = vColRank(pshape, pc)
	}
	if len(vshape) == 0 {
		x, e2 := view.At()
		vAssert(e2 == nil, "view-at-ok")
		if e2 == nil {
			vAssert(vImplies(pr == ranks[0], vSameBits(x.(T), v2)), "alias-rw")
		}
		return
	}
	vForCoords(vshape, func(d []int) {
		x, e2 := view.At(d...)
		vAssert(e2 == nil, "view-at-ok")
		if e2 == nil {
			vAssert(vImplies(pr == ranks[vRowRank(vshape, d)], vSameBits(x.(T), v2)), "alias-rw")
		}
	})
}

// vhC04Copy: copies are logically equal to their source and share no storage with it.
func vhC04Copy() {
	vDispatch(vCfgStr("dtype"), vBodies{b: vC04Copy[bool], i: vC04Copy[int], f64: vC04Copy[float64], i8: vC04Copy[int8], i16: vC04Copy[int16], i32: vC04Copy[int32], i64: vC04Copy[int64], u: vC04Copy[uint], u8: vC04Copy[uint8], u16: vC04Copy[uint16], u32: vC04Copy[uint32], u64: vC04Copy[uint64],
		f32: vC04Copy[float32], c128: vC04Copy[complex128], str: vC04Copy[string]})
}

func vC04Copy[T vScalar]() {
	shape := vCfgInts("shape")
	src, want := vMkOperand[T]("e", shape, vCfgStr("layout"))
	if vCfgInt("lazyT") == 1 && len(shape) >= 2 {
		if err := src.T(); err != nil {
			return
		}
		ns := vReverseInts(shape)
		nw := make([]T, len(want))
		vForCoords(ns, func(c []int) { nw[vRowRank(ns, c)] = want[vRowRank(shape, vReverseInts(c))] })
		shape, want = ns, nw
	}
	vReach("C04.Copy")
	srcWant, srcShape := want, vCopyInts(shape)
	kfColX := vCfgStr("op") == "apitranspose" && src.DataOrder().IsColMajor()
	kfID := "KF-C03-colmajorX"
	// known finding (thorough tier): transposing a STEP-sliced (1,n) row-vector view forces the strides to (1,1) (AP.T's
	// vector branch; pinned by TestDense_Transpose), so the transposed view / copy reads neighbouring storage cells
	op0 := vCfgStr("op")
	cs := vCfgInts("shape")
	if vCfgStr("layout") == "SS" && len(cs) == 2 && (cs[0] == 1 || cs[1] == 1) && (vCfgInt("lazyT") == 1 || op0 == "safet" || op0 == "apitranspose") {
		kfColX, kfID = true, "KF-C03-stridedvecT"
	}
	var cp *Dense
	switch vCfgStr("op") {
	case "tomat64":
		vC04ToMat[T](src, want, shape, kfID, kfColX && kfID == "KF-C03-stridedvecT")
		return
	case "clone":
		cp = src.Clone().(*Dense)
	case "materialize":
		cp = src.Materialize().(*Dense)
		if cp == src {
			// not a view: Materialize returns the tensor itself (documented); nothing to compare
			return
		}
	case "copy":
		cp = New(Of(src.Dtype()), WithShape(shape...))
		err := Copy(cp, src)
		vAssert(err == nil, "copy-ok")
		if err != nil {
			return
		}
	case "safet", "apitranspose":
		if len(shape) < 2 {
			return
		}
		var err error
		if vCfgStr("op") == "safet" {
			cp, err = src.SafeT()
		} else {
			var rt Tensor
			rt, err = Transpose(src)
			if err == nil {
				cp = rt.(*Dense)
			}
		}
		vAssert(err == nil, "safet-ok")
		if err != nil {
			return
		}
		// the copy is the reversed-axes transpose; the source keeps its content
		vCheckAll(src, want, shape, "source-unchanged", kfID, kfColX && kfID == "KF-C03-stridedvecT")
		ns := vReverseInts(shape)
		nw := make([]T, len(want))
		vForCoords(ns, func(c []int) { nw[vRowRank(ns, c)] = want[vRowRank(shape, vReverseInts(c))] })
		shape, want = ns, nw
	case "copyto":
		// CopyTo documents that it ignores the destination's metadata: give it the source's data order
		if src.DataOrder().IsColMajor() {
			cp = New(Of(src.Dtype()), WithShape(shape...), AsFortran(nil))
		} else {
			cp = New(Of(src.Dtype()), WithShape(shape...))
		}
		err := src.CopyTo(cp)
		if err != nil {
			return // CopyTo may refuse views
		}
	}
	vAssert(cp.Dtype() == src.Dtype(), "dtype")
	vCheckAll(cp, want, shape, "equal", kfID, kfColX)
	// a compact copy's flags and strides tell the same story (a copy flagged column-major over row-major strides computes
	// wrongly as soon as it meets a genuine column-major tensor)
	if !cp.RequiresIterator() && len(shape) >= 2 && vProd(shape) > 1 && vCfgStr("op") != "safet" && vCfgStr("op") != "apitranspose" {
		var ws []int
		if cp.DataOrder().IsColMajor() {
			ws = Shape(shape).CalcStridesColMajor()
		} else {
			ws = Shape(shape).CalcStrides()
		}
		// (the stride of an axis of length one addresses nothing and may be anything)
		cs2 := cp.Strides()
		okS := len(ws) == len(cs2)
		if okS {
			for i := range ws {
				if shape[i] > 1 && ws[i] != cs2[i] {
					okS = false
				}
			}
		}
		vAssertKF(okS, "copy-strides-match-data-order", kfID, kfColX)
	}
	vAssert(!vSameBacking(cp.Data(), src.Data()), "no-shared-backing")
	// independence: a symbolic write through the copy leaves the source unchanged, and vice versa
	if len(shape) == 0 {
		return
	}
	c := vNondetSlice[int]("c", len(shape))
	for i := range c {
		vAssume(c[i] >= 0)
		vAssume(c[i] < shape[i])
	}
	v := vNondet[T]("v")
	if cp.SetAt(v, c...) == nil {
		vCheckAll(src, srcWant, srcShape, "independent-src", kfID, kfColX && kfID == "KF-C03-stridedvecT")
	}
}

// vElemF64 is Go's conversion of a real numeric element to float64 (ok=false for the other element types).
func vElemF64(x interface{}) (float64, bool) {
	switch v := x.(type) {
	case int:
		return float64(v), true
	case int8:
		return float64(v), true
	case int16:
		return float64(v), true
	case int32:
		return float64(v), true
	case int64:
		return float64(v), true
	case uint8:
		return float64(v), true
	case uint16:
		return float64(v), true
	case uint32:
		return float64(v), true
	case uint:
		return float64(v), true
	case uint64:
		return float64(v), true
	case float32:
		return float64(v), true
	case float64:
		return v, true
	}
	return 0, false
}

// vC04ToMat: ToMat64 (a copying conversion in safe mode) delivers the logical matrix, converted element by element, and
// shares no storage with the tensor.
func vC04ToMat[T vScalar](src *Dense, want []T, shape []int, kf string, region bool) {
	m, err := ToMat64(src)
	if len(shape) != 2 {
		vAssert(err != nil, "tomat-refuses-non-matrix")
		return
	}
	if _, numeric := vElemF64(want[0]); !numeric {
		return // conversion of bool / complex / string elements is outside the statement
	}
	vAssert(err == nil, "tomat-ok")
	if err != nil {
		return
	}
	r, c := m.Dims()
	vAssert(r == shape[0] && c == shape[1], "tomat-dims")
	if r != shape[0] || c != shape[1] {
		return
	}
	for i := 0; i < r; i++ {
		for j := 0; j < c; j++ {
			w, _ := vElemF64(want[i*c+j])
			vAssertKF(vSameBits(m.At(i, j), w), "tomat-equal", kf, region)
		}
	}
	vAssert(!vSameBacking(m.RawMatrix().Data, src.Data()), "no-shared-backing")
	vCheckAll(src, want, shape, "source-unchanged", kf, region)
}
