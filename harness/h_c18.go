package tensor

// C18 - concurrent use of distinct or read-only tensors is race-free and deterministic.
//
// Decided by reduction (see DESIGN.md): the harness builds the shared operands, calls vShareBarrier (everything reachable
// from them and from package globals at that point is "shared"), then runs ONE read-only operation of the menu as one
// goroutine would. The executor's memory-event log raises an obligation at every store into a shared operand
// ("shared-operand-not-written") and at every store into library-global state outside a mutex
// ("global-state-written-only-under-mutex"), with every element symbolic and over every feasible path; reads of global state
// outside a mutex are collected and compared across the menu with the locations written under a mutex. Natively the same
// harness is replayed as two goroutines over the same operands under the race detector.

func init() {
	vHarnesses["vhC18Op"] = vhC18Op
}

// vShareBarrier is intercepted by the executor; natively it does nothing.
func vShareBarrier(shared ...interface{}) {}

func vC18Shapes(op string) (sa, sb []int) {
	switch op {
	case "MatMul", "Dot-mm", "TensorMul":
		return []int{2, 3}, []int{3, 2}
	case "MatVecMul", "Dot-mv":
		return []int{2, 3}, []int{3}
	case "Dot-vm":
		return []int{2}, []int{2, 3}
	case "Inner", "Dot-vv":
		return []int{3}, []int{3}
	case "Outer", "Outer-reuseF":
		return []int{2}, []int{3}
	case "Concat-rowvec":
		return []int{1, 3}, []int{1, 3}
	}
	return []int{2, 3}, []int{2, 3}
}

// vC18Run is the per-goroutine program: one read-only operation over the shared operands.
func vC18Run(op string, a, b *Dense) (interface{}, error) {
	switch op {
	case "At":
		return a.At(1, 2)
	case "Slice":
		return a.Slice(S(0, 1), nil)
	case "SliceAt":
		v, err := a.Slice(nil, S(1, 3))
		if err != nil {
			return nil, err
		}
		return v.(*Dense).At(1, 1)
	case "Iterate":
		it := a.Iterator()
		s := 0
		for i, err := it.Next(); err == nil; i, err = it.Next() {
			s += i
		}
		return s, nil
	case "Add":
		return a.Add(b)
	case "AddScalar":
		return a.AddScalar(2.0, true)
	// every generated tensor-scalar method has its own body (scalar header borrowed from and returned to a pool)
	case "SubScalar":
		return a.SubScalar(2.0, true)
	case "SubScalar-left":
		return a.SubScalar(2.0, false)
	case "MulScalar":
		return a.MulScalar(2.0, true)
	case "DivScalar":
		return a.DivScalar(2.0, true)
	case "DivScalar-left":
		return a.DivScalar(2.0, false)
	case "PowScalar":
		return a.PowScalar(2.0, true)
	case "ModScalar":
		return a.ModScalar(2.0, true)
	case "GtScalar":
		return a.GtScalar(2.0, true)
	case "LteScalar-left":
		return a.LteScalar(2.0, false)
	case "ElEqScalar":
		return a.ElEqScalar(2.0, true, AsSameType())
	case "Mul":
		return Mul(a, b)
	case "Gt":
		return a.Gt(b)
	case "ElEq":
		return a.ElEq(b, AsSameType())
	case "Neg":
		return Neg(a)
	case "Sqrt":
		return Sqrt(a)
	case "Sum":
		return a.Sum()
	case "Sum0":
		return a.Sum(0)
	case "Max1":
		return a.Max(1)
	case "Argmax":
		return a.Argmax(1)
	case "ArgminAll":
		return a.Argmin(AllAxes)
	case "MatMul":
		return a.MatMul(b)
	case "MatVecMul":
		return a.MatVecMul(b)
	case "Inner":
		return a.Inner(b)
	case "Outer":
		return a.Outer(b)
	case "Dot-mm", "Dot-mv", "Dot-vm", "Dot-vv":
		return Dot(a, b)
	case "TensorMul":
		return a.TensorMul(b, []int{1}, []int{0})
	case "Norm-unordered":
		return a.Norm(UnorderedNorm())
	case "Norm-fro":
		return a.Norm(FrobeniusNorm())
	case "Norm2-axis":
		return a.Norm(Norm(2), 1)
	case "Norm1":
		return a.Norm(Norm(1))
	case "Outer-reuseF":
		r := New(Of(Float64), WithShape(2, 3), AsFortran(nil))
		return a.Outer(b, WithReuse(r))
	case "Concat-rowvec":
		return a.Concat(0, b)
	// operations on private tensors (clones made by the goroutine itself) in every option mode: they may use the pools
	case "Priv-AddReuse":
		pa, pb := a.Clone().(*Dense), b.Clone().(*Dense)
		r := New(Of(Float64), WithShape(2, 3))
		return pa.Add(pb, WithReuse(r))
	case "Priv-AddReuseReshape":
		pa, pb := a.Clone().(*Dense), b.Clone().(*Dense)
		r := New(Of(Float64), WithShape(3, 2))
		return pa.Add(pb, WithReuse(r))
	case "Priv-AddIncr":
		pa, pb := a.Clone().(*Dense), b.Clone().(*Dense)
		r := New(Of(Float64), WithShape(2, 3))
		return pa.Add(pb, WithIncr(r))
	case "Priv-AddUnsafe":
		pa, pb := a.Clone().(*Dense), b.Clone().(*Dense)
		return pa.Add(pb, UseUnsafe())
	case "Priv-ScalarReuse":
		pa := a.Clone().(*Dense)
		r := New(Of(Float64), WithShape(3, 2))
		return pa.MulScalar(2.0, true, WithReuse(r))
	case "Priv-GtReuse":
		pa, pb := a.Clone().(*Dense), b.Clone().(*Dense)
		r := New(Of(Bool), WithShape(6))
		return pa.Gt(pb, WithReuse(r))
	case "Priv-T-UT":
		pa := a.Clone().(*Dense)
		if err := pa.T(); err != nil {
			return nil, err
		}
		pa.UT()
		return pa, nil
	case "Priv-Transpose":
		pa := a.Clone().(*Dense)
		if err := pa.T(); err != nil {
			return nil, err
		}
		return pa, pa.Transpose()
	case "Priv-Reshape":
		pa := a.Materialize().(*Dense)
		if pa == a {
			pa = a.Clone().(*Dense)
		}
		return pa, pa.Reshape(3, 2)
	case "Priv-SetAt":
		pa := a.Clone().(*Dense)
		return pa, pa.SetAt(1.5, 0, 1)
	case "Priv-SliceZero":
		pa := a.Clone().(*Dense)
		v, err := pa.Slice(S(0, 1))
		if err != nil {
			return nil, err
		}
		v.(*Dense).Zero()
		return pa, nil
	case "Priv-ReturnTensor":
		pa := a.Clone().(*Dense)
		ReturnTensor(pa)
		return nil, nil
	case "Clone":
		return a.Clone(), nil
	case "Materialize":
		return a.Materialize(), nil
	case "SafeT":
		return a.SafeT()
	case "Transpose-api":
		return Transpose(a)
	case "T-api":
		return T(a)
	case "Concat":
		return a.Concat(0, b)
	case "Stack":
		return a.Stack(0, b)
	case "Repeat":
		return a.Repeat(0, 2)
	case "Reshape-clone":
		c := a.Clone().(*Dense)
		return c, c.Reshape(3, 2)
	case "Apply":
		return a.Apply(func(x float64) float64 { return x + 1 })
	case "Eq":
		return a.Eq(b), nil
	case "CopyTo":
		d := New(Of(Float64), WithShape(a.Shape()...))
		return d, a.CopyTo(d)
	case "Copy-api":
		d := New(Of(Float64), WithShape(a.Shape()...))
		return d, Copy(d, a)
	}
	panic("vhC18Op: unknown op " + op)
}

// vC18Operands builds the shared operands of the instance (also used by the native race replay).
func vC18Operands() (*Dense, *Dense) {
	sa, sb := vC18Shapes(vCfgStr("op"))
	a, _ := vMkOperand[float64]("a", sa, vCfgStr("la"))
	b, _ := vMkOperand[float64]("b", sb, vCfgStr("lb"))
	return a, b
}

func vhC18Op() {
	op := vCfgStr("op")
	sa, sb := vC18Shapes(op)
	a, aw := vMkOperand[float64]("a", sa, vCfgStr("la"))
	b, bw := vMkOperand[float64]("b", sb, vCfgStr("lb"))
	ash, ast := vCopyInts(a.Shape()), vCopyInts(a.Strides())
	bsh, bst := vCopyInts(b.Shape()), vCopyInts(b.Strides())
	vShareBarrier(a, b)
	var err error
	pan := vCatch(func() { _, err = vC18Run(op, a, b) })
	_ = err
	vReach("C18.Op")
	// (a column-major destination with row-major operands ends in gonum's bad-leading-dimension panic: C16's finding)
	vAssertKF(!pan, "no-panic", "KF-C16-matmul-mixed", op == "Outer-reuseF")
	// whatever happened in between, the shared operands end as they started (metadata and every element)
	// known finding: Outer into a column-major destination reshapes its operands in place and leaves them so when the
	// product then fails
	vAssertKF(vIntsEq(a.Shape(), ash) && vIntsEq(a.Strides(), ast), "shared-a-metadata-unchanged", "KF-C18-outer-colmajor", op == "Outer-reuseF")
	// known finding: Dot(vector, matrix) transposes the matrix in place and undoes it with UT(), which also undoes a lazy
	// transposition the caller had pending
	vAssertKF2(vIntsEq(b.Shape(), bsh) && vIntsEq(b.Strides(), bst), "shared-b-metadata-unchanged", "KF-C18-outer-colmajor", op == "Outer-reuseF", "KF-C18-dot-vm", op == "Dot-vm" && vCfgStr("lb") == "T")
	if op == "Outer-reuseF" {
		return // (operands left reshaped: their elements cannot be addressed with the original coordinates)
	}
	if vIntsEq(a.Shape(), ash) && vIntsEq(a.Strides(), ast) {
		ga := vSnapshot[float64](a)
		for k := range aw {
			vAssert(vSameBits(ga[k], aw[k]), "shared-a-elements-unchanged")
		}
	}
	if vIntsEq(b.Shape(), bsh) && vIntsEq(b.Strides(), bst) {
		gb := vSnapshot[float64](b)
		for k := range bw {
			vAssert(vSameBits(gb[k], bw[k]), "shared-b-elements-unchanged")
		}
	}
}

