package tensor

// C11 - elementwise comparisons are coordinate-wise with the documented result type.

func init() {
	vHarnesses["vhC11Cmp"] = vhC11Cmp
}

func vhC11Cmp() {
	vDispatch(vCfgStr("dtype"), vBodies{b: vC11Cmp[bool], i: vC11Cmp[int], i8: vC11Cmp[int8], i16: vC11Cmp[int16], i32: vC11Cmp[int32], i64: vC11Cmp[int64],
		u: vC11Cmp[uint], u8: vC11Cmp[uint8], u16: vC11Cmp[uint16], u32: vC11Cmp[uint32], u64: vC11Cmp[uint64], uptr: vC11Cmp[uintptr],
		f32: vC11Cmp[float32], f64: vC11Cmp[float64], c64: vC11Cmp[complex64], c128: vC11Cmp[complex128], str: vC11Cmp[string]})
}

func vC11Cmp[T vScalar]() {
	op := vCfgStr("op")
	form := vCfgStr("form")
	shape := vCfgInts("shape")
	api := vCfgStr("api")
	dt := vCfgStr("dtype")
	variant := vCfgStr("variant") // bool | same | unsafe | reuse-bool | reuse-same
	a, aw := vMkOperand[T]("a", shape, vCfgStr("la"))
	var b *Dense
	var bw []T
	var s T
	if form == "TT" {
		b, bw = vMkOperand[T]("b", shape, vCfgStr("lb"))
	} else {
		s = vNondet[T]("s")
	}
	var opts []FuncOpt
	var dBool *Dense
	var dSame *Dense
	switch variant {
	case "same":
		opts = append(opts, AsSameType())
	case "unsafe":
		opts = append(opts, UseUnsafe())
	case "reuse-bool":
		dBool, _ = vMkOperand[bool]("d", shape, vCfgStr("ld"))
		opts = append(opts, WithReuse(dBool))
	case "reuse-same":
		dSame, _ = vMkOperand[T]("d", shape, vCfgStr("ld"))
		opts = append(opts, WithReuse(dSame), AsSameType())
	}
	var res Tensor
	var err error
	var pan bool
	switch form {
	case "TT":
		pan = vCatch(func() { res, err = vCallCmp(op, api, a, b, opts...) })
	case "TS":
		pan = vCatch(func() { res, err = vCallCmp(op, api, a, s, opts...) })
	case "ST":
		pan = vCatch(func() { res, err = vCallCmp(op, api, s, a, opts...) })
	}
	vReach("C11.Cmp")
	xy := func(k int) (T, T) {
		switch form {
		case "TT":
			return aw[k], bw[k]
		case "TS":
			return aw[k], s
		}
		return s, aw[k]
	}
	if !vCmpSupports(op, dt) {
		vAssert(!pan, "refuse-no-panic")
		if !pan {
			vAssert(err != nil, "refuse")
		}
		return
	}
	sameOut := variant == "same" || variant == "unsafe" || variant == "reuse-same"
	if sameOut && dt == "string" {
		return // there is no 1/0 of a string: same-type output of string comparisons is not defined by the statement
	}
	if sameOut && dt == "bool" {
		if pan || err != nil {
			return // refusing same-type output for bool operands is acceptable
		}
	}
	vAssert(!pan, "no-panic")
	if pan {
		return
	}
	if (variant == "reuse-bool" || variant == "reuse-same") && err != nil {
		d := dBool
		if d == nil {
			d = dSame
		}
		if d.RequiresIterator() {
			return // a non-contiguous view destination may be refused
		}
	}
	vAssert(err == nil, "no-error")
	if err != nil {
		return
	}
	rd, ok := res.(*Dense)
	vAssert(ok, "result-dense")
	if !ok || rd == nil {
		return
	}
	switch variant {
	case "bool":
		vAssert(rd != a && (b == nil || rd != b), "safe-returns-fresh")
	case "same":
		vAssert(rd != a && (b == nil || rd != b), "safe-returns-fresh")
	case "unsafe":
		vAssert(rd == a, "unsafe-returns-first-tensor")
	case "reuse-bool":
		vAssert(rd == dBool, "returns-destination")
	case "reuse-same":
		vAssert(rd == dSame, "returns-destination")
	}
	n := len(aw)
	// known finding (C16, thorough tier): comparing two column-major tensors into a fresh or reuse destination fills a
	// row-major result in the operands' storage order (unsafe mode, which writes into the operand, is correct)
	nonUnit := 0
	for _, dsz := range shape {
		if dsz > 1 {
			nonUnit++
		}
	}
	kfCmpF := form == "TT" && vCfgStr("la") == "F" && vCfgStr("lb") == "F" && variant != "unsafe" && nonUnit >= 2
	if sameOut {
		vAssert(rd.Dtype() == a.Dtype(), "result-dtype-same")
		if rd.Dtype() != a.Dtype() {
			return
		}
		got := vSnapshot[T](rd)
		// known finding: scalar-on-the-left + unsafe on a one-element tensor writes the result into the scalar's buffer
		kf1 := variant == "unsafe" && form == "ST" && n == 1
		for k := 0; k < n; k++ {
			x, y := xy(k)
			vAssertKF2(vSameBits(got[k], vOneZero[T](vCmpTruth(op, x, y))), "truth-same-type", "KF-C07-unsafe-cmp1", kf1, "KF-C16-cmp-colmajor", kfCmpF)
		}
	} else {
		vAssert(rd.Dtype() == Bool, "result-dtype-bool")
		if rd.Dtype() != Bool {
			return
		}
		got := vSnapshot[bool](rd)
		for k := 0; k < n; k++ {
			x, y := xy(k)
			vAssertKF(got[k] == vCmpTruth(op, x, y), "truth", "KF-C16-cmp-colmajor", kfCmpF)
		}
	}
	if rd != a {
		as := vSnapshot[T](a)
		for k := range aw {
			vAssert(vSameBits(as[k], aw[k]), "operand-a-unchanged")
		}
	}
	if form == "TT" && rd != b {
		bs := vSnapshot[T](b)
		for k := range bw {
			vAssert(vSameBits(bs[k], bw[k]), "operand-b-unchanged")
		}
	}
}
