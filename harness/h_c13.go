package tensor

// C13 - shape algebra agrees with execution.

func init() {
	vHarnesses["vhC13Slice"] = vhC13Slice
	vHarnesses["vhC13Repeat"] = vhC13Repeat
	vHarnesses["vhC13Concat"] = vhC13Concat
	vHarnesses["vhC13T"] = vhC13T
	vHarnesses["vhC13Reshape"] = vhC13Reshape
	vHarnesses["vhC13ReshapeSym"] = vhC13ReshapeSym
	vHarnesses["vhC13Meta"] = vhC13Meta
}

func vShapeEq(a, b []int) bool {
	if len(a) != len(b) {
		return false
	}
	ok := true
	for i := range a {
		ok = vAnd(ok, a[i] == b[i])
	}
	return ok
}

// vhC13Slice: Shape.S predicts exactly the shape Dense.Slice produces and fails exactly when it fails.
func vhC13Slice() {
	pshape := vCfgInts("shape")
	kinds := vCfgStr("kinds")
	box := vCfgInt("box")
	t, _ := vMkOperand[int]("e", pshape, vCfgStr("base"))
	slices := make([]Slice, len(kinds))
	kfS := false     // region of KF-C13-shapeS: stepped range on a non-leading axis with a remainder
	kfEmpty := false // empty ranges (C02's finding) make both sides misbehave differently
	kfScalar := false
	for i := 0; i < len(kinds); i++ {
		dim := pshape[i]
		switch kinds[i] {
		case 'i':
			slices[i] = S(vNondet[int]("idx" + vItoa(i)))
		case 'r':
			s := vNondet[int]("s" + vItoa(i))
			e := vNondet[int]("e" + vItoa(i))
			st := vNondet[int]("st" + vItoa(i))
			vAssume(st >= 0)
			vAssume(s >= -box)
			vAssume(s <= dim+box)
			vAssume(e >= -box)
			vAssume(e <= dim+box)
			vAssume(st <= dim+box)
			slices[i] = S(s, e, st)
			ec := vIte(e > dim, dim, e)
			stp := vIte(st == 0, 1, st)
			kfEmpty = vOr(kfEmpty, s == e)
			if i > 0 {
				kfS = vOr(kfS, vAnd(st > 1, (ec-s)%stp != 0))
			}
		}
	}
	// a result holding one element is a scalar for Slice but keeps unsliced unit axes in Shape.S
	_ = kfScalar
	calc, cerr := Shape(vCopyInts(pshape)).S(slices...)
	var view View
	var derr error
	pan := vCatch(func() { view, derr = t.Slice(slices...) })
	vReach("C13.Slice")
	if pan {
		vAssertKF(false, "exec-no-panic", "KF-C02-empty", kfEmpty)
		return
	}
	vAssert((cerr != nil) == (derr != nil), "err-iff-err")
	if cerr != nil || derr != nil {
		return
	}
	got := []int(view.Shape())
	vAssertKF2(vShapeEq([]int(calc), got), "calc-eq-exec", "KF-C13-shapeS", kfS, "KF-C13-scalar", vProd(got) == 1)
}

// vhC13Repeat: Shape.Repeat vs Repeat (symbolic counts and axis, incl. invalid).
func vhC13Repeat() {
	shape := vCfgInts("shape")
	nrep := vCfgInt("nrep")
	t, _ := vMkOperand[int]("e", shape, "C")
	axis := vSplit(vNondet[int]("axis"), -1, len(shape)+1)
	reps := make([]int, nrep)
	for i := range reps {
		reps[i] = vSplit(vNondet[int]("r"+vItoa(i)), 0, 2)
	}
	calc, _, _, cerr := Shape(vCopyInts(shape)).Repeat(axis, vCopyInts(reps)...)
	var res Tensor
	var derr error
	pan := vCatch(func() { res, derr = t.Repeat(axis, vCopyInts(reps)...) })
	vReach("C13.Repeat")
	tot := 0
	for _, r := range reps {
		tot += r
	}
	// known finding: a scalar repeated zero times (an empty result) panics in execution while Shape.Repeat answers (1,0)/(0)
	vAssertKF(!pan, "exec-no-panic", "KF-C13-repeat-empty-scalar", len(shape) == 0 && (tot == 0 || (axis == 1 && tot == 1)))
	if pan {
		return
	}
	vAssert((cerr != nil) == (derr != nil), "err-iff-err")
	if cerr != nil || derr != nil {
		return
	}
	vAssert(vShapeEq([]int(calc), []int(res.Shape())), "calc-eq-exec")
	// ... and both equal the arithmetic definition (numpy.repeat): execution takes its result shape from the calculator, so
	// agreement alone would not notice a calculator that is wrong
	if len(shape) >= 1 && axis >= 0 && axis < len(shape) {
		want := vCopyInts(shape)
		if nrep == 1 {
			want[axis] = shape[axis] * reps[0]
		} else {
			want[axis] = tot
		}
		if tot > 0 || nrep == 1 {
			vAssert(vShapeEq(want, []int(res.Shape())), "repeat-shape-definition")
		}
	}
}

// vhC13Concat: Shape.Concat vs Concat with symbolic operand dims (solver-enumerated) and symbolic axis.
func vhC13Concat() {
	rank := vCfgInt("rank")
	maxd := vCfgInt("maxdim")
	sa := make([]int, rank)
	sb := make([]int, rank)
	for i := 0; i < rank; i++ {
		sa[i] = vSplit(vNondet[int]("a"+vItoa(i)), 1, maxd)
		sb[i] = vSplit(vNondet[int]("b"+vItoa(i)), 1, maxd)
	}
	axis := vSplit(vNondet[int]("axis"), -1, rank+1)
	a, _ := vMkOperand[int]("x", sa, "C")
	b, _ := vMkOperand[int]("y", sb, "C")
	calc, cerr := Shape(vCopyInts(sa)).Concat(axis, Shape(vCopyInts(sb)))
	var res *Dense
	var derr error
	pan := vCatch(func() { res, derr = a.Concat(axis, b) })
	vReach("C13.Concat")
	kfRow := axis == 0 && rank == 2 && (sa[0] == 1 || sb[0] == 1)
	vAssertKF(!pan, "exec-no-panic", "KF-C10-concat-rowvec", kfRow)
	if pan {
		return
	}
	vAssertKF((cerr != nil) == (derr != nil), "err-iff-err", "KF-C10-concat-rowvec", kfRow)
	if cerr != nil || derr != nil {
		return
	}
	vAssertKF(vShapeEq([]int(calc), []int(res.Shape())), "calc-eq-exec", "KF-C10-concat-rowvec", kfRow)
}

// vhC13T: AP.T vs Dense.T with symbolic axes.
func vhC13T() {
	shape := vCfgInts("shape")
	rank := len(shape)
	t, _ := vMkOperand[int]("e", shape, vCfgStr("base"))
	sp := vSymAxes("p", rank)
	ap := t.Info().Clone()
	var calcAP AP
	var cerr error
	cp := vCatch(func() { calcAP, _, cerr = ap.T(vCopyInts(sp)...) })
	var derr error
	dp := vCatch(func() { derr = t.T(sp...) })
	p := vConcAxes(sp)
	vReach("C13.T")
	if !vIsPerm(p, rank) {
		return // invalid axes are outside the statement
	}
	vAssert(!cp && !dp, "no-panic")
	if cp || dp {
		return
	}
	// a no-op permutation is reported through a NoOpError by AP.T and swallowed by Dense.T
	if cerr != nil {
		if _, ok := cerr.(NoOpError); ok {
			cerr = nil
			calcAP = ap
		}
	}
	vAssert((cerr != nil) == (derr != nil), "err-iff-err")
	if cerr != nil || derr != nil {
		return
	}
	vAssert(vShapeEq([]int(calcAP.Shape()), []int(t.Shape())), "calc-eq-exec")
	want := make([]int, rank)
	for i := range p {
		want[i] = shape[p[i]]
	}
	vAssert(vShapeEq(want, []int(t.Shape())), "permuted-shape")
	if vCfgInt("twice") != 1 {
		return
	}
	// a second lazy transpose composes with the pending one: the shape is the permutation applied twice
	sq := vSymAxes("q", rank)
	var calc2 AP
	var cerr2, derr2 error
	cp2 := vCatch(func() { calc2, _, cerr2 = calcAP.T(vCopyInts(sq)...) })
	dp2 := vCatch(func() { derr2 = t.T(sq...) })
	q := vConcAxes(sq)
	if !vIsPerm(q, rank) {
		return
	}
	vAssert(!cp2 && !dp2, "no-panic-2")
	if cp2 || dp2 {
		return
	}
	if cerr2 != nil {
		if _, ok := cerr2.(NoOpError); ok {
			cerr2 = nil
			calc2 = calcAP
		}
	}
	vAssert((cerr2 != nil) == (derr2 != nil), "err-iff-err-2")
	if cerr2 != nil || derr2 != nil {
		return
	}
	want2 := make([]int, rank)
	for i := range q {
		want2[i] = want[q[i]]
	}
	vAssert(vShapeEq([]int(calc2.Shape()), []int(t.Shape())), "calc-eq-exec-2")
	vAssert(vShapeEq(want2, []int(t.Shape())), "permuted-twice-shape")
}

// vhC13Reshape: reshape to a factorisation of the size after a layout recipe.
func vhC13Reshape() {
	shape := vCfgInts("shape")
	to := vCfgInts("to")
	lay := vCfgStr("layout")
	t, want := vMkOperand[int]("e", shape, lay)
	if pre := vCfgStr("pre"); pre != "" {
		t, want, shape = vC02Pre(t, want, vCopyInts(shape), pre)
	}
	if vCfgInt("lazyT") == 1 && len(shape) >= 2 {
		if err := t.T(); err != nil {
			return
		}
		ns := vReverseInts(shape)
		nw := make([]int, len(want))
		vForCoords(ns, func(c []int) { nw[vRowRank(ns, c)] = want[vRowRank(shape, vReverseInts(c))] })
		shape, want = ns, nw
	}
	var err error
	pan := vCatch(func() { err = t.Reshape(vCopyInts(to)...) })
	vReach("C13.Reshape")
	vAssert(!pan, "no-panic")
	if pan {
		return
	}
	if vProd(to) != vProd(shape) {
		vAssert(err != nil, "reshape-size")
		return
	}
	if err != nil {
		// only a non-contiguous view may be refused outright
		vAssert(t.IsView() || lay == "S" || lay == "SS" || vCfgStr("pre") != "", "refusal-only-for-views")
		return
	}
	vAssert(vShapeEq(to, []int(t.Shape())), "reshape-shape")
	if !vShapeEq(to, []int(t.Shape())) {
		return
	}
	// the flat element sequence in the tensor's own data order is preserved
	colmajor := t.DataOrder().IsColMajor()
	// sequence before: data order of the source
	n := len(want)
	seq := make([]int, n)
	vForCoords(shape, func(c []int) {
		k := vRowRank(shape, c)
		if colmajor {
			k = vColRank(shape, c)
		}
		seq[k] = want[vRowRank(shape, c)]
	})
	nw := make([]int, n)
	vForCoords(to, func(c []int) {
		k := vRowRank(to, c)
		if colmajor {
			k = vColRank(to, c)
		}
		nw[vRowRank(to, c)] = seq[k]
	})
	preT := false
	for _, c := range vCfgStr("pre") {
		if c == 'T' {
			preT = true
		}
	}
	kfX := colmajor && (vCfgInt("lazyT") == 1 || preT)
	vCheckAll(t, nw, to, "reshape-seq", "KF-C03-colmajorX", kfX)
	vAssert(t.Size() == vProd(to), "size")
	// the reshaped tensor is a first-class tensor: a following lazy transpose presents its reversal
	if vCfgInt("thenT") == 1 && len(to) >= 2 {
		if err := t.T(); err == nil {
			rs := vReverseInts(to)
			rw := make([]int, n)
			vForCoords(rs, func(c []int) { rw[vRowRank(rs, c)] = nw[vRowRank(to, vReverseInts(c))] })
			vCheckAll(t, rw, rs, "reshape-then-T", "KF-C03-colmajorX", kfX)
		}
	}
}

// vhC13ReshapeSym: Reshape with symbolic dims: a product different from the size is refused.
func vhC13ReshapeSym() {
	shape := vCfgInts("shape")
	nd := vCfgInt("ndims")
	t, want := vMkOperand[int]("e", shape, "C")
	d := vNondetSlice[int]("d", nd)
	for i := range d {
		vAssume(d[i] >= 1)
		vAssume(d[i] <= 12)
	}
	prod := 1
	for i := range d {
		prod *= d[i]
	}
	var err error
	pan := vCatch(func() { err = t.Reshape(vCopyInts(d)...) })
	vReach("C13.ReshapeSym")
	vAssert(!pan, "no-panic")
	if pan {
		return
	}
	vAssert((err == nil) == (prod == vProd(shape)), "reshape-size")
	if err != nil {
		// elements and shape untouched after a refused reshape
		vCheckAll(t, want, shape, "refused-unchanged", "", false)
	}
}

// vhC13Meta: every tensor reports size = prod(shape), and its shape and strides address only distinct in-bounds positions.
func vhC13Meta() {
	shape := vCfgInts("shape")
	t, _ := vMkOperand[int]("e", shape, vCfgStr("layout"))
	switch vCfgStr("post") {
	case "T":
		t.T()
	case "TX":
		t.T()
		t.Transpose()
	case "clone":
		t = t.Clone().(*Dense)
	case "mat":
		t = t.Materialize().(*Dense)
	case "slice0":
		if len(shape) > 0 && shape[0] >= 2 {
			v, err := t.Slice(S(1, shape[0]))
			if err == nil {
				t = v.(*Dense)
			}
		}
	}
	sh := []int(t.Shape())
	st := t.Strides()
	vReach("C13.Meta")
	vAssert(t.Size() == vProd(sh), "size")
	if len(sh) == 0 {
		return
	}
	vAssert(len(st) == len(sh), "strides-arity")
	if len(st) != len(sh) {
		return
	}
	n := t.DataSize()
	c1 := vNondetSlice[int]("c", len(sh))
	c2 := vNondetSlice[int]("k", len(sh))
	for i := range sh {
		vAssume(c1[i] >= 0)
		vAssume(c1[i] < sh[i])
		vAssume(c2[i] >= 0)
		vAssume(c2[i] < sh[i])
	}
	o1, o2 := vDot(c1, st), vDot(c2, st)
	vAssert(vAnd(o1 >= 0, o1 < n), "meta-inbounds")
	vAssert(vImplies(!vEqCoord(c1, c2), o1 != o2), "meta-inj")
}
