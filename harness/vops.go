package tensor

// Type-generic oracle operators: ONE definition per operation, instantiated per element type by go/ssa
// (and compiled natively for replay). They state what "the value Go's operator (or math function) gives" means.

import (
	"math"
	"math/cmplx"

	"github.com/chewxy/math32"
)

type vOrd interface {
	~int | ~int8 | ~int16 | ~int32 | ~int64 | ~uint | ~uint8 | ~uint16 | ~uint32 | ~uint64 | ~float32 | ~float64
}

func vIsInt[T any]() bool {
	var z T
	switch any(z).(type) {
	case int, int8, int16, int32, int64, uint, uint8, uint16, uint32, uint64, uintptr:
		return true
	}
	return false
}

func vIsFloat[T any]() bool {
	var z T
	switch any(z).(type) {
	case float32, float64:
		return true
	}
	return false
}

func vIsComplex[T any]() bool {
	var z T
	switch any(z).(type) {
	case complex64, complex128:
		return true
	}
	return false
}

func vIsZero[T vNum](y T) bool {
	var z T
	return y == z
}

// vPowT / vModT: the math routine Go provides for the element type.
func vPowT[T vNum](x, y T) T {
	switch xv := any(x).(type) {
	case float32:
		return any(math32.Pow(xv, any(y).(float32))).(T)
	case float64:
		return any(math.Pow(xv, any(y).(float64))).(T)
	case complex64:
		return any(complex64(cmplx.Pow(complex128(xv), complex128(any(y).(complex64))))).(T)
	case complex128:
		return any(cmplx.Pow(xv, any(y).(complex128))).(T)
	}
	panic("vPowT: no power routine for this element type")
}

func vModFloat[T vNum](x, y T) T {
	switch xv := any(x).(type) {
	case float32:
		return any(math32.Mod(xv, any(y).(float32))).(T)
	case float64:
		return any(math.Mod(xv, any(y).(float64))).(T)
	}
	panic("vModFloat")
}

func vModInt[T vNum](x, y T) T {
	switch xv := any(x).(type) {
	case int:
		return any(xv % any(y).(int)).(T)
	case int8:
		return any(xv % any(y).(int8)).(T)
	case int16:
		return any(xv % any(y).(int16)).(T)
	case int32:
		return any(xv % any(y).(int32)).(T)
	case int64:
		return any(xv % any(y).(int64)).(T)
	case uint:
		return any(xv % any(y).(uint)).(T)
	case uint8:
		return any(xv % any(y).(uint8)).(T)
	case uint16:
		return any(xv % any(y).(uint16)).(T)
	case uint32:
		return any(xv % any(y).(uint32)).(T)
	case uint64:
		return any(xv % any(y).(uint64)).(T)
	}
	panic("vModInt")
}

func vLess[T vNum](a, b T) bool {
	switch av := any(a).(type) {
	case int:
		return av < any(b).(int)
	case int8:
		return av < any(b).(int8)
	case int16:
		return av < any(b).(int16)
	case int32:
		return av < any(b).(int32)
	case int64:
		return av < any(b).(int64)
	case uint:
		return av < any(b).(uint)
	case uint8:
		return av < any(b).(uint8)
	case uint16:
		return av < any(b).(uint16)
	case uint32:
		return av < any(b).(uint32)
	case uint64:
		return av < any(b).(uint64)
	case float32:
		return av < any(b).(float32)
	case float64:
		return av < any(b).(float64)
	}
	panic("vLess: unordered type")
}

func vNaN[T vNum](a T) bool { return a != a }

// vBinDefined: the statement defines a value for x op y (integer division/modulo by zero is excluded).
func vBinDefined[T vNum](op string, x, y T) bool {
	if (op == "Div" || op == "Mod") && vIsInt[T]() {
		return !vIsZero(y)
	}
	if (op == "MinBetween" || op == "MaxBetween") && vIsFloat[T]() {
		return vAnd(!vNaN(x), !vNaN(y))
	}
	return true
}

// vBinMatch: res is the value the element type's operator / math routine gives for x op y (operands in this order).
func vBinMatch[T vNum](op string, res, x, y T) bool {
	switch op {
	case "Add":
		return vSameBits(res, x+y)
	case "Sub":
		return vSameBits(res, x-y)
	case "Mul":
		return vSameBits(res, x*y)
	case "Div":
		return vSameBits(res, x/y)
	case "Mod":
		if vIsInt[T]() {
			return vSameBits(res, vModInt(x, y))
		}
		return vSameBits(res, vModFloat(x, y))
	case "Pow":
		ok := vSameBits(res, vPowT(x, y))
		if vIsFloat[T]() {
			// the float kernels may use the exact small-exponent identities instead of calling the routine
			var one T = 1
			ok = vOr(ok, vAnd(y == 0, vSameBits(res, one)))
			ok = vOr(ok, vAnd(y == 1, vSameBits(res, x)))
			ok = vOr(ok, vAnd(y == 2, vSameBits(res, x*x)))
			ok = vOr(ok, vAnd(y == 3, vSameBits(res, x*x*x)))
		}
		return ok
	case "MinBetween":
		pick := vOr(vSameBits(res, x), vSameBits(res, y))
		return vAnd(pick, vAnd(!vLess(x, res), !vLess(y, res)))
	case "MaxBetween":
		pick := vOr(vSameBits(res, x), vSameBits(res, y))
		return vAnd(pick, vAnd(!vLess(res, x), !vLess(res, y)))
	}
	panic("vBinMatch: unknown op " + op)
}

// vOpSupports: the element types an operation accepts (per the library's documented type classes).
func vOpSupports(op, dt string) bool {
	isC := dt == "complex64" || dt == "complex128"
	isF := dt == "float32" || dt == "float64"
	switch op {
	case "Add", "Sub", "Mul", "Div":
		return true
	case "Mod":
		return !isC
	case "Pow":
		return isC || isF
	case "MinBetween", "MaxBetween":
		return !isC
	}
	return false
}

func vCallBin(op string, api string, a, b interface{}, opts ...FuncOpt) (Tensor, error) {
	if api == "method" {
		if at, ok := a.(*Dense); ok {
			if bt, ok := b.(*Dense); ok {
				switch op {
				case "Add":
					return at.Add(bt, opts...)
				case "Sub":
					return at.Sub(bt, opts...)
				case "Mul":
					return at.Mul(bt, opts...)
				case "Div":
					return at.Div(bt, opts...)
				case "Mod":
					return at.Mod(bt, opts...)
				case "Pow":
					return at.Pow(bt, opts...)
				}
			}
			// tensor-scalar methods: scalar on the right
			switch op {
			case "Add":
				return at.AddScalar(b, true, opts...)
			case "Sub":
				return at.SubScalar(b, true, opts...)
			case "Mul":
				return at.MulScalar(b, true, opts...)
			case "Div":
				return at.DivScalar(b, true, opts...)
			case "Mod":
				return at.ModScalar(b, true, opts...)
			case "Pow":
				return at.PowScalar(b, true, opts...)
			}
		} else if bt, ok := b.(*Dense); ok {
			// scalar on the left
			switch op {
			case "Add":
				return bt.AddScalar(a, false, opts...)
			case "Sub":
				return bt.SubScalar(a, false, opts...)
			case "Mul":
				return bt.MulScalar(a, false, opts...)
			case "Div":
				return bt.DivScalar(a, false, opts...)
			case "Mod":
				return bt.ModScalar(a, false, opts...)
			case "Pow":
				return bt.PowScalar(a, false, opts...)
			}
		}
	}
	switch op {
	case "Add":
		return Add(a, b, opts...)
	case "Sub":
		return Sub(a, b, opts...)
	case "Mul":
		return Mul(a, b, opts...)
	case "Div":
		return Div(a, b, opts...)
	case "Mod":
		return Mod(a, b, opts...)
	case "Pow":
		return Pow(a, b, opts...)
	case "MinBetween":
		return MinBetween(a, b, opts...)
	case "MaxBetween":
		return MaxBetween(a, b, opts...)
	}
	panic("vCallBin: unknown op " + op)
}
