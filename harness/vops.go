package tensor

// Type-generic oracle operators: ONE definition per operation, instantiated per element type by go/ssa
// (and compiled natively for replay). They state what "the value Go's operator (or math function) gives" means.

import (
	"math"
	"math/cmplx"

	"github.com/chewxy/math32"
)

type vOrd interface {
	~int | ~int8 | ~int16 | ~int32 | ~int64 | ~uint | ~uint8 | ~uint16 | ~uint32 | ~uint64 | ~float32 | ~float64
}

func vIsInt[T any]() bool {
	var z T
	switch any(z).(type) {
	case int, int8, int16, int32, int64, uint, uint8, uint16, uint32, uint64, uintptr:
		return true
	}
	return false
}

func vIsFloat[T any]() bool {
	var z T
	switch any(z).(type) {
	case float32, float64:
		return true
	}
	return false
}

func vIsComplex[T any]() bool {
	var z T
	switch any(z).(type) {
	case complex64, complex128:
		return true
	}
	return false
}

func vIsZero[T vNum](y T) bool {
	var z T
	return y == z
}

// vPowT / vModT: the math routine Go provides for the element type.
func vPowT[T vNum](x, y T) T {
	switch xv := any(x).(type) {
	case float32:
		return any(math32.Pow(xv, any(y).(float32))).(T)
	case float64:
		return any(math.Pow(xv, any(y).(float64))).(T)
	case complex64:
		return any(complex64(cmplx.Pow(complex128(xv), complex128(any(y).(complex64))))).(T)
	case complex128:
		return any(cmplx.Pow(xv, any(y).(complex128))).(T)
	}
	panic("vPowT: no power routine for this element type")
}

func vModFloat[T vNum](x, y T) T {
	switch xv := any(x).(type) {
	case float32:
		return any(math32.Mod(xv, any(y).(float32))).(T)
	case float64:
		return any(math.Mod(xv, any(y).(float64))).(T)
	}
	panic("vModFloat")
}

func vModInt[T vNum](x, y T) T {
	switch xv := any(x).(type) {
	case int:
		return any(xv % any(y).(int)).(T)
	case int8:
		return any(xv % any(y).(int8)).(T)
	case int16:
		return any(xv % any(y).(int16)).(T)
	case int32:
		return any(xv % any(y).(int32)).(T)
	case int64:
		return any(xv % any(y).(int64)).(T)
	case uint:
		return any(xv % any(y).(uint)).(T)
	case uint8:
		return any(xv % any(y).(uint8)).(T)
	case uint16:
		return any(xv % any(y).(uint16)).(T)
	case uint32:
		return any(xv % any(y).(uint32)).(T)
	case uint64:
		return any(xv % any(y).(uint64)).(T)
	}
	panic("vModInt")
}

func vLess[T vNum](a, b T) bool {
	switch av := any(a).(type) {
	case int:
		return av < any(b).(int)
	case int8:
		return av < any(b).(int8)
	case int16:
		return av < any(b).(int16)
	case int32:
		return av < any(b).(int32)
	case int64:
		return av < any(b).(int64)
	case uint:
		return av < any(b).(uint)
	case uint8:
		return av < any(b).(uint8)
	case uint16:
		return av < any(b).(uint16)
	case uint32:
		return av < any(b).(uint32)
	case uint64:
		return av < any(b).(uint64)
	case float32:
		return av < any(b).(float32)
	case float64:
		return av < any(b).(float64)
	}
	panic("vLess: unordered type")
}

func vNaN[T vNum](a T) bool { return a != a }

// vBinDefined: the statement defines a value for x op y (integer division/modulo by zero is excluded).
func vBinDefined[T vNum](op string, x, y T) bool {
	if (op == "Div" || op == "Mod") && vIsInt[T]() {
		return !vIsZero(y)
	}
	if (op == "MinBetween" || op == "MaxBetween") && vIsFloat[T]() {
		return vAnd(!vNaN(x), !vNaN(y))
	}
	return true
}

// vBinMatch: res is the value the element type's operator / math routine gives for x op y (operands in this order).
func vBinMatch[T vNum](op string, res, x, y T) bool {
	switch op {
	case "Add":
		return vSameBits(res, x+y)
	case "Sub":
		return vSameBits(res, x-y)
	case "Mul":
		return vSameBits(res, x*y)
	case "Div":
		return vSameBits(res, x/y)
	case "Mod":
		if vIsInt[T]() {
			return vSameBits(res, vModInt(x, y))
		}
		return vSameBits(res, vModFloat(x, y))
	case "Pow":
		ok := vSameBits(res, vPowT(x, y))
		if vIsFloat[T]() {
			// the float kernels may use the exact small-exponent identities instead of calling the routine
			var one T = 1
			ok = vOr(ok, vAnd(y == 0, vSameBits(res, one)))
			ok = vOr(ok, vAnd(y == 1, vSameBits(res, x)))
			ok = vOr(ok, vAnd(y == 2, vSameBits(res, x*x)))
			ok = vOr(ok, vAnd(y == 3, vSameBits(res, x*x*x)))
		}
		return ok
	case "MinBetween":
		pick := vOr(vSameBits(res, x), vSameBits(res, y))
		return vAnd(pick, vAnd(!vLess(x, res), !vLess(y, res)))
	case "MaxBetween":
		pick := vOr(vSameBits(res, x), vSameBits(res, y))
		return vAnd(pick, vAnd(!vLess(res, x), !vLess(res, y)))
	}
	panic("vBinMatch: unknown op " + op)
}

// vOpSupports: the element types an operation accepts (per the library's documented type classes).
func vOpSupports(op, dt string) bool {
	isC := dt == "complex64" || dt == "complex128"
	isF := dt == "float32" || dt == "float64"
	switch op {
	case "Add", "Sub", "Mul", "Div":
		return true
	case "Mod":
		return !isC
	case "Pow":
		return isC || isF
	case "MinBetween", "MaxBetween":
		return !isC
	}
	return false
}

func vCallBin(op string, api string, a, b interface{}, opts ...FuncOpt) (Tensor, error) {
	if api == "method" {
		if at, ok := a.(*Dense); ok {
			if bt, ok := b.(*Dense); ok {
				switch op {
				case "Add":
					return at.Add(bt, opts...)
				case "Sub":
					return at.Sub(bt, opts...)
				case "Mul":
					return at.Mul(bt, opts...)
				case "Div":
					return at.Div(bt, opts...)
				case "Mod":
					return at.Mod(bt, opts...)
				case "Pow":
					return at.Pow(bt, opts...)
				}
			}
			// tensor-scalar methods: scalar on the right
			switch op {
			case "Add":
				return at.AddScalar(b, true, opts...)
			case "Sub":
				return at.SubScalar(b, true, opts...)
			case "Mul":
				return at.MulScalar(b, true, opts...)
			case "Div":
				return at.DivScalar(b, true, opts...)
			case "Mod":
				return at.ModScalar(b, true, opts...)
			case "Pow":
				return at.PowScalar(b, true, opts...)
			}
		} else if bt, ok := b.(*Dense); ok {
			// scalar on the left
			switch op {
			case "Add":
				return bt.AddScalar(a, false, opts...)
			case "Sub":
				return bt.SubScalar(a, false, opts...)
			case "Mul":
				return bt.MulScalar(a, false, opts...)
			case "Div":
				return bt.DivScalar(a, false, opts...)
			case "Mod":
				return bt.ModScalar(a, false, opts...)
			case "Pow":
				return bt.PowScalar(a, false, opts...)
			}
		}
	}
	switch op {
	case "Add":
		return Add(a, b, opts...)
	case "Sub":
		return Sub(a, b, opts...)
	case "Mul":
		return Mul(a, b, opts...)
	case "Div":
		return Div(a, b, opts...)
	case "Mod":
		return Mod(a, b, opts...)
	case "Pow":
		return Pow(a, b, opts...)
	case "MinBetween":
		return MinBetween(a, b, opts...)
	case "MaxBetween":
		return MaxBetween(a, b, opts...)
	}
	panic("vCallBin: unknown op " + op)
}

// vCmpTruth: the truth value of Go's comparison `x op y` for the element type (one generic definition).
func vCmpTruth[T vScalar](op string, x, y T) bool {
	switch op {
	case "ElEq":
		return x == y
	case "ElNe":
		return x != y
	}
	lt, gt := false, false
	switch xv := any(x).(type) {
	case int:
		lt, gt = xv < any(y).(int), xv > any(y).(int)
	case int8:
		lt, gt = xv < any(y).(int8), xv > any(y).(int8)
	case int16:
		lt, gt = xv < any(y).(int16), xv > any(y).(int16)
	case int32:
		lt, gt = xv < any(y).(int32), xv > any(y).(int32)
	case int64:
		lt, gt = xv < any(y).(int64), xv > any(y).(int64)
	case uint:
		lt, gt = xv < any(y).(uint), xv > any(y).(uint)
	case uint8:
		lt, gt = xv < any(y).(uint8), xv > any(y).(uint8)
	case uint16:
		lt, gt = xv < any(y).(uint16), xv > any(y).(uint16)
	case uint32:
		lt, gt = xv < any(y).(uint32), xv > any(y).(uint32)
	case uint64:
		lt, gt = xv < any(y).(uint64), xv > any(y).(uint64)
	case uintptr:
		lt, gt = xv < any(y).(uintptr), xv > any(y).(uintptr)
	case float32:
		lt, gt = xv < any(y).(float32), xv > any(y).(float32)
	case float64:
		lt, gt = xv < any(y).(float64), xv > any(y).(float64)
	default:
		panic("vCmpTruth: unordered element type")
	}
	switch op {
	case "Lt":
		return lt
	case "Gt":
		return gt
	case "Lte":
		// Go's <= on floats is false when either side is NaN: it is (x < y || x == y)
		return vOr(lt, x == y)
	case "Gte":
		return vOr(gt, x == y)
	}
	panic("vCmpTruth: unknown op " + op)
}

// vOneZero: 1 or 0 of the element type.
func vOneZero[T vScalar](b bool) T {
	var r T
	switch p := any(&r).(type) {
	case *int:
		*p = vIte(b, 1, 0)
	case *int8:
		*p = vIte[int8](b, 1, 0)
	case *int16:
		*p = vIte[int16](b, 1, 0)
	case *int32:
		*p = vIte[int32](b, 1, 0)
	case *int64:
		*p = vIte[int64](b, 1, 0)
	case *uint:
		*p = vIte[uint](b, 1, 0)
	case *uint8:
		*p = vIte[uint8](b, 1, 0)
	case *uint16:
		*p = vIte[uint16](b, 1, 0)
	case *uint32:
		*p = vIte[uint32](b, 1, 0)
	case *uint64:
		*p = vIte[uint64](b, 1, 0)
	case *uintptr:
		*p = vIte[uintptr](b, 1, 0)
	case *float32:
		*p = vIte[float32](b, 1, 0)
	case *float64:
		*p = vIte[float64](b, 1, 0)
	case *complex64:
		*p = vIte[complex64](b, 1, 0)
	case *complex128:
		*p = vIte[complex128](b, 1, 0)
	case *bool:
		*p = b
	default:
		panic("vOneZero: no 1/0 for this element type")
	}
	return r
}

func vCmpSupports(op, dt string) bool {
	if op == "ElEq" || op == "ElNe" {
		return true
	}
	switch dt {
	case "bool", "complex64", "complex128", "uintptr":
		return false
	}
	return true
}

func vCallCmp(op, api string, a, b interface{}, opts ...FuncOpt) (Tensor, error) {
	if api == "method" {
		at, aok := a.(*Dense)
		bt, bok := b.(*Dense)
		switch {
		case aok && bok:
			switch op {
			case "Lt":
				return at.Lt(bt, opts...)
			case "Gt":
				return at.Gt(bt, opts...)
			case "Lte":
				return at.Lte(bt, opts...)
			case "Gte":
				return at.Gte(bt, opts...)
			case "ElEq":
				return at.ElEq(bt, opts...)
			case "ElNe":
				return at.ElNe(bt, opts...)
			}
		case aok:
			switch op {
			case "Lt":
				return at.LtScalar(b, true, opts...)
			case "Gt":
				return at.GtScalar(b, true, opts...)
			case "Lte":
				return at.LteScalar(b, true, opts...)
			case "Gte":
				return at.GteScalar(b, true, opts...)
			case "ElEq":
				return at.ElEqScalar(b, true, opts...)
			case "ElNe":
				return at.ElNeScalar(b, true, opts...)
			}
		case bok:
			switch op {
			case "Lt":
				return bt.LtScalar(a, false, opts...)
			case "Gt":
				return bt.GtScalar(a, false, opts...)
			case "Lte":
				return bt.LteScalar(a, false, opts...)
			case "Gte":
				return bt.GteScalar(a, false, opts...)
			case "ElEq":
				return bt.ElEqScalar(a, false, opts...)
			case "ElNe":
				return bt.ElNeScalar(a, false, opts...)
			}
		}
	}
	switch op {
	case "Lt":
		return Lt(a, b, opts...)
	case "Gt":
		return Gt(a, b, opts...)
	case "Lte":
		return Lte(a, b, opts...)
	case "Gte":
		return Gte(a, b, opts...)
	case "ElEq":
		return ElEq(a, b, opts...)
	case "ElNe":
		return ElNe(a, b, opts...)
	}
	panic("vCallCmp: unknown op " + op)
}

// ---- unary ----

func vUnSupports(op, dt string) bool {
	isC := dt == "complex64" || dt == "complex128"
	isF := dt == "float32" || dt == "float64"
	isU := dt == "uint" || dt == "uint8" || dt == "uint16" || dt == "uint32" || dt == "uint64"
	switch op {
	case "Neg", "Inv", "Square", "Cube":
		return true
	case "Exp", "Tanh", "Log", "Log10", "Sqrt":
		return isF || isC
	case "Log2", "Cbrt", "InvSqrt":
		return isF
	case "Abs", "Sign":
		return !isU && !isC // signed real types (complex has no kernel)
	case "Clamp":
		return !isC
	}
	return false
}

// vMath1 applies the element type's maths routine `fn` (float32 uses math32).
func vMath1[T vNum](fn string, x T) (T, T) {
	switch xv := any(x).(type) {
	case float64:
		var r float64
		switch fn {
		case "Exp":
			r = math.Exp(xv)
		case "Tanh":
			r = math.Tanh(xv)
		case "Log":
			r = math.Log(xv)
		case "Log2":
			r = math.Log2(xv)
		case "Log10":
			r = math.Log10(xv)
		case "Cbrt":
			r = math.Cbrt(xv)
		case "Sqrt":
			r = math.Sqrt(xv)
		}
		return any(r).(T), any(r).(T)
	case float32:
		var r, r2 float32
		switch fn {
		case "Exp":
			r, r2 = math32.Exp(xv), float32(math.Exp(float64(xv)))
		case "Tanh":
			r, r2 = math32.Tanh(xv), float32(math.Tanh(float64(xv)))
		case "Log":
			r, r2 = math32.Log(xv), float32(math.Log(float64(xv)))
		case "Log2":
			r, r2 = math32.Log2(xv), float32(math.Log2(float64(xv)))
		case "Log10":
			r, r2 = math32.Log10(xv), float32(math.Log10(float64(xv)))
		case "Cbrt":
			r, r2 = math32.Cbrt(xv), float32(math.Cbrt(float64(xv)))
		case "Sqrt":
			r, r2 = math32.Sqrt(xv), float32(math.Sqrt(float64(xv)))
		}
		return any(r).(T), any(r2).(T)
	case complex128:
		var r complex128
		switch fn {
		case "Exp":
			r = cmplx.Exp(xv)
		case "Tanh":
			r = cmplx.Tanh(xv)
		case "Log":
			r = cmplx.Log(xv)
		case "Log10":
			r = cmplx.Log10(xv)
		case "Sqrt":
			r = cmplx.Sqrt(xv)
		}
		return any(r).(T), any(r).(T)
	case complex64:
		var r complex128
		xc := complex128(xv)
		switch fn {
		case "Exp":
			r = cmplx.Exp(xc)
		case "Tanh":
			r = cmplx.Tanh(xc)
		case "Log":
			r = cmplx.Log(xc)
		case "Log10":
			r = cmplx.Log10(xc)
		case "Sqrt":
			r = cmplx.Sqrt(xc)
		}
		return any(complex64(r)).(T), any(complex64(r)).(T)
	}
	panic("vMath1: no routine")
}

func vUnDefined[T vNum](op string, x T) bool {
	if op == "Inv" && vIsInt[T]() {
		return !vIsZero(x) // 1/0 panics in Go: outside the statement
	}
	return true
}

// vUnMatch: res is the scalar function `op` of x for the element type.
func vUnMatch[T vNum](op string, res, x, lo, hi T) bool {
	var one T = 1
	var zero T
	switch op {
	case "Neg":
		return vSameBits(res, -x)
	case "Inv":
		return vSameBits(res, one/x)
	case "Square":
		return vSameBits(res, x*x)
	case "Cube":
		return vSameBits(res, x*x*x)
	case "Abs":
		switch xv := any(x).(type) {
		case float64:
			return vSameBits(res, any(math.Abs(xv)).(T))
		case float32:
			return vSameBits(res, any(math32.Abs(xv)).(T))
		}
		return vSameBits(res, vIte(vLess(x, zero), -x, x))
	case "Sign":
		return vSameBits(res, vIte(vLess(x, zero), -one, vIte(vLess(zero, x), one, x)))
	case "Clamp":
		return vSameBits(res, vIte(vLess(x, lo), lo, vIte(vLess(hi, x), hi, x)))
	case "InvSqrt":
		s, _ := vMath1("Sqrt", x)
		return vSameBits(res, one/s)
	case "Sqrt", "Exp", "Tanh", "Log", "Log2", "Log10", "Cbrt":
		r1, r2 := vMath1(op, x)
		return vOr(vSameBits(res, r1), vSameBits(res, r2))
	}
	panic("vUnMatch: unknown op " + op)
}

func vCallUn(op string, a *Dense, lo, hi interface{}, opts ...FuncOpt) (Tensor, error) {
	switch op {
	case "Neg":
		return Neg(a, opts...)
	case "Inv":
		return Inv(a, opts...)
	case "Square":
		return Square(a, opts...)
	case "Cube":
		return Cube(a, opts...)
	case "Exp":
		return Exp(a, opts...)
	case "Tanh":
		return Tanh(a, opts...)
	case "Log":
		return Log(a, opts...)
	case "Log2":
		return Log2(a, opts...)
	case "Log10":
		return Log10(a, opts...)
	case "Sqrt":
		return Sqrt(a, opts...)
	case "Cbrt":
		return Cbrt(a, opts...)
	case "InvSqrt":
		return InvSqrt(a, opts...)
	case "Abs":
		return Abs(a, opts...)
	case "Sign":
		return Sign(a, opts...)
	case "Clamp":
		return Clamp(a, lo, hi, opts...)
	}
	panic("vCallUn: unknown op " + op)
}

// vUnValues returns the value(s) the scalar function `op` may deliver for x (two alternatives where the element type's
// routine may be either of two equivalent library routines; otherwise both are the same).
func vUnValues[T vNum](op string, x, lo, hi T) (T, T) {
	var one T = 1
	var zero T
	switch op {
	case "Neg":
		return -x, -x
	case "Inv":
		return one / x, one / x
	case "Square":
		return x * x, x * x
	case "Cube":
		return x * x * x, x * x * x
	case "Abs":
		switch xv := any(x).(type) {
		case float64:
			r := any(math.Abs(xv)).(T)
			return r, r
		case float32:
			r := any(math32.Abs(xv)).(T)
			return r, r
		}
		r := vIte(vLess(x, zero), -x, x)
		return r, r
	case "Sign":
		r := vIte(vLess(x, zero), -one, vIte(vLess(zero, x), one, x))
		return r, r
	case "Clamp":
		r := vIte(vLess(x, lo), lo, vIte(vLess(hi, x), hi, x))
		return r, r
	case "InvSqrt":
		s, _ := vMath1("Sqrt", x)
		return one / s, one / s
	case "Sqrt", "Exp", "Tanh", "Log", "Log2", "Log10", "Cbrt":
		return vMath1(op, x)
	}
	panic("vUnValues: unknown op " + op)
}
