package tensor

// C09 - linear-algebra products equal the textbook sums of products (decided in ring mode: exact integers).

func init() {
	vHarnesses["vhC09"] = vhC09
}

type vFC interface {
	~float32 | ~float64 | ~complex64 | ~complex128
}

func vhC09() {
	vDispatch(vCfgStr("dtype"), vBodies{f32: vC09[float32], f64: vC09[float64], c64: vC09[complex64], c128: vC09[complex128]})
}

func vC09Mk[T vFC](name string, shape []int, layout string) (*Dense, []T) {
	if layout == "LT" {
		// a lazily transposed operand of the requested shape (rank 2): parent has the reversed shape
		return vMkOperand[T](name, shape, "T")
	}
	return vMkOperand[T](name, shape, layout)
}

func vC09[T vFC]() {
	routine := vCfgStr("routine")
	sa, sb := vCfgInts("sa"), vCfgInts("sb")
	la, lb := vCfgStr("la"), vCfgStr("lb")
	mode := vCfgStr("mode")
	a, aw := vC09Mk[T]("a", sa, la)
	var b *Dense
	var bw []T
	if routine != "Trace" {
		b, bw = vC09Mk[T]("b", sb, lb)
	}
	if vCfgInt("mismatch") == 1 {
		// operands whose contracted lengths differ: "any combination that is not supported is refused loudly" - an error
		// or a panic, never a value - and the operands stay as they were
		var err error
		pan := vCatch(func() {
			switch routine {
			case "Inner":
				if vCfgStr("api") == "func" {
					_, err = Inner(a, b)
				} else {
					_, err = a.Inner(b)
				}
			case "MatVecMul":
				_, err = a.MatVecMul(b)
			case "MatMul":
				if vCfgStr("api") == "dot" {
					_, err = Dot(a, b)
				} else {
					_, err = a.MatMul(b)
				}
			}
		})
		vReach("C09")
		vAssert(pan || err != nil, "mismatch-refused")
		if !pan {
			vC09Unchanged(a, aw, sa, "refused-a-unchanged")
			vC09Unchanged(b, bw, sb, "refused-b-unchanged")
		}
		return
	}
	// expected result (shape + row-major content)
	var rshape []int
	var want []T
	switch routine {
	case "Inner":
		rshape = []int{}
		var s T
		for i := range aw {
			s += aw[i] * bw[i]
		}
		want = []T{s}
	case "MatVecMul":
		m, n := sa[0], sa[1]
		rshape = []int{m}
		want = make([]T, m)
		for i := 0; i < m; i++ {
			var s T
			for j := 0; j < n; j++ {
				s += aw[i*n+j] * bw[j]
			}
			want[i] = s
		}
	case "MatMul":
		m, k, n := sa[0], sa[1], sb[1]
		rshape = []int{m, n}
		want = make([]T, m*n)
		for i := 0; i < m; i++ {
			for j := 0; j < n; j++ {
				var s T
				for l := 0; l < k; l++ {
					s += aw[i*k+l] * bw[l*n+j]
				}
				want[i*n+j] = s
			}
		}
	case "Outer":
		m, n := len(aw), len(bw)
		rshape = []int{m, n}
		want = make([]T, m*n)
		for i := 0; i < m; i++ {
			for j := 0; j < n; j++ {
				want[i*n+j] = aw[i] * bw[j]
			}
		}
	case "Trace":
		rshape = []int{}
		n := sa[0]
		if sa[1] < n {
			n = sa[1]
		}
		var s T
		for i := 0; i < n; i++ {
			s += aw[i*sa[1]+i]
		}
		want = []T{s}
	case "TensorMul":
		axesA, axesB := vCfgInts("axesA"), vCfgInts("axesB")
		var freeA, freeB []int
		for i := range sa {
			in := false
			for _, x := range axesA {
				if x == i {
					in = true
				}
			}
			if !in {
				freeA = append(freeA, i)
			}
		}
		for i := range sb {
			in := false
			for _, x := range axesB {
				if x == i {
					in = true
				}
			}
			if !in {
				freeB = append(freeB, i)
			}
		}
		var cshape []int
		for _, x := range axesA {
			cshape = append(cshape, sa[x])
		}
		for _, i := range freeA {
			rshape = append(rshape, sa[i])
		}
		for _, i := range freeB {
			rshape = append(rshape, sb[i])
		}
		want = make([]T, vProd(rshape))
		vForCoords(rshape, func(rc []int) {
			var s T
			vForCoords(cshape, func(cc []int) {
				ca := make([]int, len(sa))
				cb := make([]int, len(sb))
				for k, i := range freeA {
					ca[i] = rc[k]
				}
				for k, i := range freeB {
					cb[i] = rc[len(freeA)+k]
				}
				for k := range axesA {
					ca[axesA[k]] = cc[k]
					cb[axesB[k]] = cc[k]
				}
				s += aw[vRowRank(sa, ca)] * bw[vRowRank(sb, cb)]
			})
			want[vRowRank(rshape, rc)] = s
		})
	}
	// destination for reuse / incr
	var d *Dense
	var dw []T
	var opts []FuncOpt
	if mode == "reuse" || mode == "incr" {
		ds := rshape
		ld := vCfgStr("ld")
		if ld == "" || !vLayoutOK(ds, ld) {
			ld = "C"
		}
		d, dw = vMkOperand[T]("d", ds, ld) // (ld = T: a destination that carries a pending lazy transposition)
		if mode == "reuse" {
			opts = append(opts, WithReuse(d))
		} else {
			opts = append(opts, WithIncr(d))
		}
	}
	var res interface{}
	var err error
	pan := vCatch(func() {
		switch routine {
		case "Inner":
			if vCfgStr("api") == "func" {
				res, err = Inner(a, b)
			} else {
				res, err = a.Inner(b)
			}
		case "MatVecMul":
			if vCfgStr("api") == "func" {
				res, err = MatVecMul(a, b, opts...)
			} else {
				res, err = a.MatVecMul(b, opts...)
			}
		case "MatMul":
			if vCfgStr("api") == "func" {
				res, err = MatMul(a, b, opts...)
			} else if vCfgStr("api") == "dot" {
				res, err = Dot(a, b, opts...)
			} else {
				res, err = a.MatMul(b, opts...)
			}
		case "Outer":
			if vCfgStr("api") == "func" {
				res, err = Outer(a, b, opts...)
			} else {
				res, err = a.Outer(b, opts...)
			}
		case "Trace":
			res, err = a.Trace()
		case "TensorMul":
			ax, bx := vCopyInts(vCfgInts("axesA")), vCopyInts(vCfgInts("axesB"))
			if vCfgStr("api") == "func" {
				res, err = Contract(a, b, ax, bx)
			} else {
				res, err = a.TensorMul(b, ax, bx)
			}
		}
	})
	vReach("C09")
	isView := func(l string) bool { return l == "S" || l == "SS" }
	kfViews := isView(la) || isView(lb)
	// (TensorMul transposes and reshapes its operands with row-major arithmetic: any column-major operand, also two of them)
	kfMixed := ((la == "F") != (lb == "F") || (mode != "" && (la == "F" || lb == "F")) || (routine == "TensorMul" && (la == "F" || lb == "F"))) && routine != "Trace"
	vAssertKF2(!pan, "no-panic", "KF-C09-views", kfViews, "KF-C16-matmul-mixed", kfMixed)
	if pan {
		return
	}
	if err != nil {
		// refusing loudly is acceptable only where the layout is not a plain / lazily transposed / column-major tensor
		// a loud refusal is acceptable for any combination except plain contiguous operands
		// (Dot refuses complex increments and TensorMul refuses complex operands altogether - "getFloatDense only handles
		// floats": loud refusals of an unsupported element type, accepted)
		plain := la == "C" && (lb == "C" || b == nil) && !(vIsComplex[T]() && mode == "incr" && vCfgStr("api") == "dot") && !(vIsComplex[T]() && routine == "TensorMul") && (vCfgStr("ld") == "" || vCfgStr("ld") == "C")
		if vCfgStr("api") == "dot" {
			// Dot dispatches (n,1)/(1,n) matrices as vectors; what it then refuses is refused loudly
			for _, d := range append(vCopyInts(sa), sb...) {
				if d == 1 {
					plain = false
				}
			}
		}
		vAssert(!plain, "contiguous-accepted")
		// known finding: Outer reshapes its first operand to (n,1) and does not restore it when it then fails
		kfOuter := routine == "Outer"
		vC09UnchangedKF(a, aw, sa, "refused-a-unchanged", "KF-C09-outer-reshape", kfOuter)
		if b != nil {
			vC09UnchangedKF(b, bw, sb, "refused-b-unchanged", "KF-C09-outer-reshape", kfOuter)
		}
		return
	}
	// extract the result
	var got []T
	switch r := res.(type) {
	case *Dense:
		if r == nil {
			vAssert(false, "nil-result")
			return
		}
		if mode != "" {
			vAssert(r == d, "returns-destination")
		}
		gs := []int(r.Shape())
		okShape := vProd(gs) == len(want)
		if okShape && len(rshape) > 0 {
			okShape = len(gs) == len(rshape)
			if okShape {
				for i := range gs {
					if gs[i] != rshape[i] {
						okShape = false
					}
				}
			}
			if !okShape && vCfgStr("api") == "dot" {
				// Dot treats (1,n)/(n,1) matrices as vectors (documented numpy-like dispatch): the product comes back without
				// the unit axis - same elements in the same order
				okShape = vIntsEqC(vSqueeze(gs), vSqueeze(rshape))
			}
		}
		vAssertKF2(okShape, "shape", "KF-C09-views", kfViews, "KF-C16-matmul-mixed", kfMixed)
		if !okShape {
			return
		}
		got = vSnapshot[T](r)
	case Tensor:
		rd, ok := r.(*Dense)
		if !ok || rd == nil {
			vAssert(false, "result-dense")
			return
		}
		if vProd([]int(rd.Shape())) != len(want) {
			vAssertKF(false, "shape", "KF-C09-views", kfViews)
			return
		}
		got = vSnapshot[T](rd)
	default:
		x, ok := res.(T)
		vAssert(ok, "scalar-result-type")
		if !ok {
			return
		}
		got = []T{x}
	}
	for k := range want {
		w := want[k]
		if mode == "incr" {
			w = dw[k] + want[k]
		}
		vAssertKF2(got[k] == w, "sum-of-products", "KF-C09-views", kfViews, "KF-C16-matmul-mixed", kfMixed)
	}
	vC09Unchanged(a, aw, sa, "operand-a-unchanged")
	if b != nil {
		// (C18's finding, sequential face: Dot(vector, matrix) transposes the matrix in place and undoes it with UT(), which
		// also undoes a lazy transposition the caller had pending)
		aVec := len(sa) == 1 || (len(sa) == 2 && (sa[0] == 1 || sa[1] == 1))
		vC09UnchangedKF(b, bw, sb, "operand-b-unchanged", "KF-C18-dot-vm", vCfgStr("api") == "dot" && aVec && lb == "LT" && len(sb) == 2)
	}
	// chained use: the destination of a reuse product is an ordinary tensor afterwards - a second product with it as the
	// left operand computes from what was just delivered (no stale transposition or view record may survive in it)
	if vCfgInt("chain") == 1 && mode == "reuse" && d != nil && len(rshape) == 2 {
		v, vw := vMkOperand[T]("v", []int{rshape[1]}, "C")
		var r2 *Dense
		var err2 error
		pan2 := vCatch(func() { r2, err2 = d.MatVecMul(v) })
		vAssert(!pan2, "chain-no-panic")
		if pan2 {
			return
		}
		vAssert(err2 == nil, "chain-no-error")
		if err2 != nil || r2 == nil {
			return
		}
		g2 := vSnapshot[T](r2)
		vAssert(len(g2) == rshape[0], "chain-shape")
		if len(g2) != rshape[0] {
			return
		}
		for i := 0; i < rshape[0]; i++ {
			var s T
			for j := 0; j < rshape[1]; j++ {
				s += want[i*rshape[1]+j] * vw[j]
			}
			vAssert(g2[i] == s, "chain-sum-of-products")
		}
	}
}

func vC09Unchanged[T vFC](t *Dense, want []T, shape []int, id string) {
	vC09UnchangedKF(t, want, shape, id, "", false)
}

func vC09UnchangedKF[T vFC](t *Dense, want []T, shape []int, id string, kf string, region bool) {
	gs := []int(t.Shape())
	same := len(gs) == len(shape)
	if same {
		for i := range gs {
			if gs[i] != shape[i] {
				same = false
			}
		}
	}
	vAssertKF(same, id+"-shape", kf, region)
	if !same {
		return
	}
	got := vSnapshot[T](t)
	for k := range want {
		vAssertKF(got[k] == want[k], id, kf, region)
	}
}

func vSqueeze(s []int) []int {
	var out []int
	for _, d := range s {
		if d != 1 {
			out = append(out, d)
		}
	}
	return out
}

func vIntsEqC(a, b []int) bool {
	if len(a) != len(b) {
		return false
	}
	for i := range a {
		if a[i] != b[i] {
			return false
		}
	}
	return true
}
