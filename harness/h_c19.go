package tensor

// C19 - no operation history corrupts another live tensor or the caller's slices.

func init() {
	vHarnesses["vhC19Args"] = vhC19Args
	vHarnesses["vhC19Hist"] = vhC19Hist
}

func vIntsEq(a, b []int) bool {
	if len(a) != len(b) {
		return false
	}
	ok := true
	for i := range a {
		ok = vAnd(ok, a[i] == b[i])
	}
	return ok
}

// vC19NotPooled: a caller-owned slice must not be handed out by the int pool afterwards.
func vC19NotPooled(arg []int, id string, kf string) {
	if len(arg) == 0 {
		return
	}
	x := BorrowInts(len(arg))
	y := BorrowInts(len(arg))
	vAssertKF(vAnd(!vSameBacking(x, arg), !vSameBacking(y, arg)), id+"-not-recycled", kf, true)
}

// vhC19Args: caller-owned slices are not mutated, retained or recycled.
func vhC19Args() {
	op := vCfgStr("op")
	shape := vCfgInts("shape")
	t, _ := vMkOperand[float64]("e", shape, "C")
	rank := len(shape)
	vReach("C19.Args")
	switch op {
	case "T", "T-UT", "T-Transpose", "T-Return":
		perm := vCfgInts("perm")
		arg := vCopyInts(perm)
		err := t.T(arg...)
		vAssert(err == nil, "T-ok")
		vAssert(vIntsEq(arg, perm), "arg-unchanged")
		vAssertKF(!vSameBacking(arg, t.transposeWith), "arg-not-retained", "KF-C19-axes", true)
		switch op {
		case "T-UT":
			t.UT()
		case "T-Transpose":
			t.Transpose()
		case "T-Return":
			ReturnTensor(t)
		}
		vAssertKF(vIntsEq(arg, perm), "arg-unchanged-after", "KF-C19-axes", true)
		vC19NotPooled(arg, "arg", "KF-C19-axes")
	case "Reshape", "Reshape-own":
		to := vCfgInts("to")
		arg := vCopyInts(to)
		if op == "Reshape-own" {
			// the tensor's own shape slice handed back to it
			own := t.Shape()
			err := t.Reshape(own...)
			vAssertKF(err == nil, "reshape-own-ok", "KF-C19-reshape", true)
			vAssertKF(vIntsEq([]int(t.Shape()), shape), "reshape-own-shape", "KF-C19-reshape", true)
			return
		}
		err := t.Reshape(arg...)
		vAssert(err == nil, "reshape-ok")
		vAssert(vIntsEq(arg, to), "arg-unchanged")
		vAssert(!vSameBacking(arg, []int(t.shape)), "arg-not-retained")
		ReturnTensor(t)
		vAssert(vIntsEq(arg, to), "arg-unchanged-after")
		vC19NotPooled(arg, "arg", "")
	case "Sum", "Max", "Min":
		along := vCfgInts("along")
		arg := vCopyInts(along)
		var err error
		switch op {
		case "Sum":
			_, err = t.Sum(arg...)
		case "Max":
			_, err = t.Max(arg...)
		case "Min":
			_, err = t.Min(arg...)
		}
		vAssert(err == nil, "reduce-ok")
		vAssertKF(vIntsEq(arg, along), "arg-unchanged", "KF-C19-along", true)
	case "Repeat":
		reps := vCfgInts("reps")
		arg := vCopyInts(reps)
		_, err := t.Repeat(vCfgInt("axis"), arg...)
		vAssert(err == nil, "repeat-ok")
		vAssert(vIntsEq(arg, reps), "arg-unchanged")
		vC19NotPooled(arg, "arg", "")
	case "At", "SetAt":
		c := make([]int, rank)
		arg := vCopyInts(c)
		if op == "At" {
			t.At(arg...)
		} else {
			t.SetAt(1.0, arg...)
		}
		vAssert(vIntsEq(arg, c), "arg-unchanged")
	case "WithShape":
		arg := vCopyInts(shape)
		n := New(Of(Float64), WithShape(arg...))
		vAssert(vIntsEq(arg, shape), "arg-unchanged")
		vAssert(!vSameBacking(arg, []int(n.shape)), "arg-not-retained")
		ReturnTensor(n)
		vAssert(vIntsEq(arg, shape), "arg-unchanged-after")
		vC19NotPooled(arg, "arg", "")
	case "TensorMul":
		b, _ := vMkOperand[float64]("f", shape, "C")
		axA, axB := vCfgInts("axesA"), vCfgInts("axesB")
		a1, a2 := vCopyInts(axA), vCopyInts(axB)
		_, err := t.TensorMul(b, a1, a2)
		vAssert(err == nil, "tensormul-ok")
		vAssert(vAnd(vIntsEq(a1, axA), vIntsEq(a2, axB)), "arg-unchanged")
		vC19NotPooled(a1, "axesA", "")
		vC19NotPooled(a2, "axesB", "")
	case "RollAxis":
		r, err := t.RollAxis(vCfgInt("axis"), vCfgInt("start"), false)
		vAssert(err == nil, "rollaxis-ok")
		// the borrowed axes slice RollAxis passes to T must not be shared with the pool afterwards
		if r != nil && r.transposeWith != nil {
			x := BorrowInts(len(r.transposeWith))
			y := BorrowInts(len(r.transposeWith))
			vAssertKF(vAnd(!vSameBacking(x, r.transposeWith), !vSameBacking(y, r.transposeWith)), "axes-not-shared-with-pool", "KF-C19-axes", true)
		}
	case "Slice":
		s0 := S(0, 1)
		sl := []Slice{s0}
		_, err := t.Slice(sl...)
		vAssert(err == nil, "slice-ok")
		vAssert(sl[0] == s0, "arg-unchanged")
	}
}

// ---- bounded histories ----

type vLive struct {
	t     *Dense
	shape []int
	vals  []float64
	alias int // alias group
	alive bool
	mask  []bool // logical mask (nil = unmasked), row-major like vals
}

func vParseInts(s string, sep rune) []int {
	var out []int
	cur, has := 0, false
	for _, c := range s {
		if c == sep {
			if has {
				out = append(out, cur)
			}
			cur, has = 0, false
			continue
		}
		cur = cur*10 + int(c-'0')
		has = true
	}
	if has {
		out = append(out, cur)
	}
	return out
}

func vhC19Hist() {
	prog := vSplitComma(vCfgStr("prog"))
	live := map[int]*vLive{}
	nextAlias := 0
	vReach("C19.Hist")
	checkAll := func(step string, dest int) {
		for k := 0; k < 8; k++ {
			l, ok := live[k]
			if !ok || !l.alive {
				continue
			}
			// every live tensor must present its model (the destination's model has been updated by the step)
			_ = dest
			vCheckAll(l.t, l.vals, l.shape, "live-equal-model", "", false)
			if l.mask != nil {
				lm, ls, lt := l.mask, l.shape, l.t
				vAssert(lt.IsMasked(), "live-mask-present")
				vForCoords(ls, func(c []int) {
					m, err := lt.MaskAt(c...)
					vAssert(err == nil && m == lm[vRowRank(ls, c)], "live-mask-equal-model")
				})
			}
		}
	}
	for si, st := range prog {
		if len(st) == 0 {
			continue
		}
		op := st[0]
		rest := st[1:]
		num := func(s string) int { return int(s[0] - '0') }
		switch op {
		case 'n': // n<k>:<d>x<d>
			k := num(rest)
			shape := vParseInts(rest[2:], 'x')
			t, vals := vMkOperand[float64]("t"+vItoa(k)+"s"+vItoa(si), shape, "C")
			live[k] = &vLive{t: t, shape: shape, vals: vals, alias: nextAlias, alive: true}
			nextAlias++
		case 't': // lazy transpose (default reversal)
			l := live[num(rest)]
			if l.t.T() == nil && len(l.shape) >= 2 {
				ns := vReverseInts(l.shape)
				nv := make([]float64, len(l.vals))
				os, ov := l.shape, l.vals
				vForCoords(ns, func(c []int) { nv[vRowRank(ns, c)] = ov[vRowRank(os, vReverseInts(c))] })
				l.shape, l.vals = ns, nv
				l.alias = -1 - l.alias // mark "pending"
			}
		case 'u':
			l := live[num(rest)]
			l.t.UT()
			if l.alias < 0 {
				l.alias = -1 - l.alias
				ns := vReverseInts(l.shape)
				nv := make([]float64, len(l.vals))
				os, ov := l.shape, l.vals
				vForCoords(ns, func(c []int) { nv[vRowRank(ns, c)] = ov[vRowRank(os, vReverseInts(c))] })
				l.shape, l.vals = ns, nv
			}
		case 'x':
			l := live[num(rest)]
			l.t.Transpose()
			if l.alias < 0 {
				l.alias = -1 - l.alias
			}
		case 'r': // r<k>:<shape>
			l := live[num(rest)]
			to := vParseInts(rest[2:], 'x')
			if l.t.Reshape(to...) == nil {
				l.shape = to
			}
		case 'a': // a<i><j><k> safe add into new k ; A<i><j> unsafe ; see below
			i, j, k := num(rest), num(rest[1:]), num(rest[2:])
			a, b := live[i], live[j]
			r, err := Add(a.t, b.t)
			vAssert(err == nil, "add-ok")
			if err == nil {
				vals := make([]float64, len(a.vals))
				for q := range vals {
					vals[q] = a.vals[q] + b.vals[q]
				}
				live[k] = &vLive{t: r.(*Dense), shape: vCopyInts(a.shape), vals: vals, alias: nextAlias, alive: true}
				nextAlias++
			}
		case 'A': // unsafe add: destination i
			i, j := num(rest), num(rest[1:])
			a, b := live[i], live[j]
			_, err := Add(a.t, b.t, UseUnsafe())
			vAssert(err == nil, "add-unsafe-ok")
			if err == nil {
				for q := range a.vals {
					a.vals[q] = a.vals[q] + b.vals[q]
				}
			}
		case 'U': // add with reuse: U<i><j><k>, destination k (an existing tensor of the same size)
			i, j, k := num(rest), num(rest[1:]), num(rest[2:])
			a, b, d := live[i], live[j], live[k]
			_, err := Add(a.t, b.t, WithReuse(d.t))
			vAssert(err == nil, "add-reuse-ok")
			if err == nil {
				vals := make([]float64, len(a.vals))
				for q := range vals {
					vals[q] = a.vals[q] + b.vals[q]
				}
				d.vals, d.shape = vals, vCopyInts(a.shape)
			}
		case 'I': // add with incr: I<i><j><k>
			i, j, k := num(rest), num(rest[1:]), num(rest[2:])
			a, b, d := live[i], live[j], live[k]
			_, err := Add(a.t, b.t, WithIncr(d.t))
			vAssert(err == nil, "add-incr-ok")
			if err == nil {
				vals := make([]float64, len(a.vals))
				for q := range vals {
					vals[q] = d.vals[q] + (a.vals[q] + b.vals[q])
				}
				d.vals, d.shape = vals, vCopyInts(a.shape)
			}
		case 'm': // m<i><k>: k = Sum(i, axis 0)
			i, k := num(rest), num(rest[1:])
			a := live[i]
			r, err := a.t.Sum(0)
			vAssert(err == nil, "sum-ok")
			if err == nil {
				rs := vReducedShape(a.shape, []int{0})
				vals := make([]float64, vProd(rs))
				first := make([]bool, len(vals))
				as, av := a.shape, a.vals
				vForCoords(as, func(c []int) {
					q := 0
					if len(rs) > 0 {
						q = vRowRank(rs, c[1:])
					}
					if !first[q] {
						vals[q], first[q] = av[vRowRank(as, c)], true
					} else {
						vals[q] = vals[q] + av[vRowRank(as, c)]
					}
				})
				live[k] = &vLive{t: r, shape: rs, vals: vals, alias: nextAlias, alive: true}
				nextAlias++
			}
		case 'c', 'z': // clone / materialize
			i, k := num(rest), num(rest[1:])
			a := live[i]
			var r *Dense
			if op == 'c' {
				r = a.t.Clone().(*Dense)
			} else {
				r = a.t.Materialize().(*Dense)
			}
			nv := make([]float64, len(a.vals))
			copy(nv, a.vals)
			al := nextAlias
			nextAlias++
			if op == 'c' && a.alias < 0 {
				// Clone keeps the pending lazy transposition (it copies the saved access pattern): a later UT on the clone undoes it
				al = -1 - al
			}
			if r == a.t {
				// only a tensor that is not a view may be returned as it is
				vAssert(op == 'z' && a.t.viewOf == 0 && a.t.old.IsZero(), "materialize-copies-views")
				al = a.alias
			} else {
				vAssert(!vSameBacking(r.Data(), a.t.Data()), "copy-no-shared-backing")
			}
			live[k] = &vLive{t: r, shape: vCopyInts(a.shape), vals: nv, alias: al, alive: true}
		case 'v': // v<i><k>: k = i[1:dim0] (rows) - a view
			i, k := num(rest), num(rest[1:])
			a := live[i]
			v, err := a.t.Slice(S(1, a.shape[0]))
			vAssert(err == nil, "slice-ok")
			if err == nil {
				ns := vCopyInts(a.shape)
				ns[0] = a.shape[0] - 1
				nv := make([]float64, vProd(ns))
				as, av := a.shape, a.vals
				vForCoords(ns, func(c []int) {
					pc := vCopyInts(c)
					pc[0]++
					nv[vRowRank(ns, c)] = av[vRowRank(as, pc)]
				})
				d := v.(*Dense)
				if len(ns) > 1 && ns[0] == 1 {
					ns = ns[1:]
				}
				live[k] = &vLive{t: d, shape: ns, vals: nv, alias: a.alias, alive: true}
				if a.mask != nil {
					nm := make([]bool, len(nv))
					am := a.mask
					vForCoords(ns, func(c []int) {
						pc := vCopyInts(c)
						pc[0]++
						nm[vRowRank(ns, c)] = am[vRowRank(as, pc)]
					})
					live[k].mask = nm
				}
			}
		case 'k': // k<i>: attach a mask with symbolic bits to tensor i (contiguous, not a view)
			l := live[num(rest)]
			bits := vNondetSlice[bool]("k"+vItoa(si), len(l.vals))
			l.t.ResetMask(false)
			lt, ls := l.t, l.shape
			vForCoords(ls, func(c []int) {
				if err := lt.SetMaskAt(bits[vRowRank(ls, c)], c...); err != nil {
					panic("vhC19Hist: SetMaskAt failed")
				}
			})
			l.mask = bits
		case 'K': // K<k>:<shape>: a new tensor (possibly a recycled one) that builds a fresh all-true mask
			k := num(rest)
			shape := vParseInts(rest[2:], 'x')
			t := New(Of(Float64), WithShape(shape...))
			t.ResetMask(true)
			vals := make([]float64, vProd(shape))
			mk := make([]bool, len(vals))
			for q := range mk {
				mk[q] = true
			}
			live[k] = &vLive{t: t, shape: shape, vals: vals, alias: nextAlias, alive: true, mask: mk}
			nextAlias++
		case 'w': // w<k>: Memset with a symbolic value; every alias of k changes at the aliased positions
			k := num(rest)
			l := live[k]
			x := vNondet[float64]("w" + vItoa(si))
			if l.t.Memset(x) == nil {
				for q := range l.vals {
					l.vals[q] = x
				}
				// propagate to aliases: a view written => parent rows; parent written => view
				for kk := 0; kk < 8; kk++ {
					o, ok := live[kk]
					if !ok || !o.alive || o == l || o.alias != l.alias {
						continue
					}
					if len(o.vals) >= len(l.vals) {
						// o is the parent of view l (rows 1..): the view covers the tail
						off := len(o.vals) - len(l.vals)
						for q := range l.vals {
							o.vals[off+q] = x
						}
					} else {
						for q := range o.vals {
							o.vals[q] = x
						}
					}
				}
			}
		case 'p': // p<k>: safe Apply (result discarded)
			l := live[num(rest)]
			_, err := l.t.Apply(func(v float64) float64 { return vUF1("hist", v) })
			vAssert(err == nil, "apply-ok")
		case 'R': // ReturnTensor
			l := live[num(rest)]
			ReturnTensor(l.t)
			l.alive = false
		case 'B': // borrow and scribble on pooled ints of every small size (what any later allocation may do)
			for sz := 1; sz <= 4; sz++ {
				x := BorrowInts(sz)
				for q := range x {
					x[q] = 77
				}
			}
		}
		checkAll(st, -1)
	}
}
