package tensor

import "io"

// C14 - serialisation round-trips the logical tensor.
//
// The real WriteNpy/ReadNpy, GobEncode/GobDecode, PBEncode/PBDecode (with the generated marshalling code of
// internal/serialization/pb) and FBEncode/FBDecode run over a byte-accurate stream; element values are symbolic.
// Oracle: the decoded tensor has the source's dtype, shape and logical elements (and mask where the format carries one),
// or the write is refused with an error; a written stream that cannot be read back, or reads back as different data, is a
// violation.

func init() {
	vHarnesses["vhC14"] = vhC14
}

// vStream is the io.Writer / io.Reader the harness hands to the library.
type vStream struct {
	buf []byte
	pos int
}

func (s *vStream) Write(p []byte) (int, error) {
	s.buf = append(s.buf, p...)
	return len(p), nil
}

func (s *vStream) Read(p []byte) (int, error) {
	if s.pos >= len(s.buf) {
		return 0, io.EOF
	}
	n := copy(p, s.buf[s.pos:])
	s.pos += n
	return n, nil
}

func vhC14() {
	vDispatch(vCfgStr("dtype"), vBodies{b: vC14[bool], i: vC14[int], i8: vC14[int8], i16: vC14[int16], i32: vC14[int32], i64: vC14[int64],
		u: vC14[uint], u8: vC14[uint8], u16: vC14[uint16], u32: vC14[uint32], u64: vC14[uint64],
		f32: vC14[float32], f64: vC14[float64], c64: vC14[complex64], c128: vC14[complex128], str: vC14[string]})
}

func vC14[T vScalar]() {
	format := vCfgStr("format") // npy | gob | pb | fb
	shape := vCfgInts("shape")
	layout := vCfgStr("layout")
	n := vProd(shape)
	want := vNondetSlice[T]("e", n)
	pad := vNondetSlice[T]("e_pad", vPadLen(shape, layout))
	var bits, mpad []bool
	if vCfgInt("masked") == 1 {
		bits = vNondetSlice[bool]("m", n)
		mpad = vNondetSlice[bool]("m_pad", vPadLen(shape, layout))
	}
	t, _ := vMkFromM[T](want, pad, bits, mpad, shape, layout, nil)
	if bits != nil && !t.IsMasked() {
		panic("vhC14: mask not attached")
	}
	var err error
	var pan bool
	d := new(Dense)
	switch format {
	case "npy":
		w := &vStream{}
		pan = vCatch(func() { err = t.WriteNpy(w) })
		vReach("C14." + format)
		vAssert(!pan, "write-no-panic")
		if pan || err != nil {
			return // refused
		}
		r := &vStream{buf: w.buf}
		pan = vCatch(func() { err = d.ReadNpy(r) })
	case "gob":
		var p []byte
		pan = vCatch(func() { p, err = t.GobEncode() })
		vReach("C14." + format)
		vAssert(!pan, "write-no-panic")
		if pan || err != nil {
			return
		}
		pan = vCatch(func() { err = d.GobDecode(p) })
	case "pb":
		var p []byte
		pan = vCatch(func() { p, err = t.PBEncode() })
		vReach("C14." + format)
		vAssert(!pan, "write-no-panic")
		if pan || err != nil {
			return
		}
		pan = vCatch(func() { err = d.PBDecode(p) })
	case "fb":
		var p []byte
		pan = vCatch(func() { p, err = t.FBEncode() })
		vReach("C14." + format)
		vAssert(!pan, "write-no-panic")
		if pan || err != nil {
			return
		}
		pan = vCatch(func() { err = d.FBDecode(p) })
	case "csv":
		w := &vStream{}
		pan = vCatch(func() { err = t.WriteCSV(w) })
		vReach("C14." + format)
		vAssert(!pan, "write-no-panic")
		if pan || err != nil {
			return // refused (e.g. more than two dimensions)
		}
		r := &vStream{buf: w.buf}
		pan = vCatch(func() { err = d.ReadCSV(r, As(t.Dtype())) })
	default:
		panic("vhC14: format")
	}
	dt := vCfgStr("dtype")
	// known findings
	kfGobMV := format == "gob" && bits != nil && layout == "S"
	kfNpy64 := format == "npy" && (dt == "int64" || dt == "uint64")
	kfCsvBC := format == "csv" && (dt == "bool" || dt == "complex64" || dt == "complex128")
	vAssertKF(!pan, "read-no-panic", "KF-C14-gob-maskedview", kfGobMV)
	if pan {
		return
	}
	vAssertKF2(err == nil, "written-stream-reads-back", "KF-C14-npy-int64", kfNpy64, "KF-C14-csv-bool-complex", kfCsvBC)
	if err != nil {
		return
	}
	vAssert(d.Dtype() == t.Dtype(), "dtype")
	ds := []int(d.Shape())
	if format == "csv" && len(shape) == 1 && len(ds) == 2 && ((ds[0] == 1 && ds[1] == shape[0]) || (ds[1] == 1 && ds[0] == shape[0])) {
		// CSV has no one-dimensional form: a vector may come back as a single row or a single column
		shape = ds
	}
	same := len(ds) == len(shape)
	if same {
		for i := range shape {
			if ds[i] != shape[i] {
				same = false
			}
		}
	}
	vAssert(same, "shape")
	if !same || d.Dtype() != t.Dtype() {
		return
	}
	// formats that carry the data order hand back a tensor of the source's order (and compact if the source was): later
	// operations dispatch on these flags, not on the strides
	if (format == "gob" || format == "pb" || format == "fb") && (layout == "C" || layout == "F") && len(shape) >= 2 && vProd(shape) > 1 {
		vAssert(d.DataOrder().IsColMajor() == t.DataOrder().IsColMajor(), "data-order-flag")
		if bits == nil {
			vAssert(!d.RequiresIterator(), "decoded-compact") // (a masked tensor always asks for an iterator)
		}
	}
	carriesMask := format == "gob" // the protobuf and flatbuffers schemas used by PBEncode/FBEncode have no mask field
	valueOnly := format == "csv" // text carries values, not NaN payloads
	var fill T
	fills := format == "npy" || format == "csv" // documented: invalid values are replaced by the fill value
	if bits != nil && fills {
		fv, ok := t.FillValue().(T)
		if !ok {
			// the fill value of the dtype is delivered in another Go type: masked positions are not compared
			fill = want[0]
		} else {
			fill = fv
		}
	}
	vForCoords(shape, func(c []int) {
		k := vRowRank(shape, c)
		var x interface{}
		var err error
		if vCatch(func() { x, err = d.At(c...) }) || err != nil {
			vAssert(false, "decoded-readable")
			return
		}
		g, ok := x.(T)
		if !ok {
			vAssert(false, "decoded-elem-type")
			return
		}
		w := want[k]
		if bits != nil && fills {
			// the format has no mask: invalid values are documented to be replaced by the fill value
			w = vIte(bits[k], fill, want[k])
		}
		if valueOnly {
			vAssert(vOr(g == w, vAnd(g != g, w != w)), "elements")
		} else {
			vAssert(vSameBits(g, w), "elements")
		}
		if bits != nil && carriesMask {
			m, err := d.MaskAt(c...)
			vAssert(err == nil && m == bits[k], "mask")
		}
	})
	if bits == nil || !carriesMask {
		vAssert(!d.IsMasked(), "no-mask-invented")
	}
}
