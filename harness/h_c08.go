package tensor

import "math"

// C08 - reductions fold exactly the elements along the requested axes.

func init() {
	vHarnesses["vhC08Reduce"] = vhC08Reduce
	vHarnesses["vhC08Arg"] = vhC08Arg
	vHarnesses["vhC08Generic"] = vhC08Generic
}

type vOrdNum interface {
	~int | ~int8 | ~int16 | ~int32 | ~int64 | ~uint | ~uint8 | ~uint16 | ~uint32 | ~uint64 | ~float32 | ~float64
}

func vhC08Reduce() {
	vDispatch(vCfgStr("dtype"), vBodies{i: vC08Reduce[int], i8: vC08Reduce[int8], i16: vC08Reduce[int16], i32: vC08Reduce[int32], i64: vC08Reduce[int64],
		u: vC08Reduce[uint], u8: vC08Reduce[uint8], u16: vC08Reduce[uint16], u32: vC08Reduce[uint32], u64: vC08Reduce[uint64], f32: vC08Reduce[float32], f64: vC08Reduce[float64]})
}

// vReducedShape: shape without the reduced axes, and for each source coordinate its result rank.
func vReducedShape(shape []int, along []int) []int {
	var rs []int
	for i, d := range shape {
		red := false
		for _, a := range along {
			if a == i {
				red = true
			}
		}
		if !red {
			rs = append(rs, d)
		}
	}
	return rs
}

func vProject(c []int, along []int) []int {
	var r []int
	for i, x := range c {
		red := false
		for _, a := range along {
			if a == i {
				red = true
			}
		}
		if !red {
			r = append(r, x)
		}
	}
	return r
}

func vC08Reduce[T vOrdNum]() {
	op := vCfgStr("op")
	shape := vCfgInts("shape")
	along := vCfgInts("along")
	a, aw := vMkOperand[T]("a", shape, vCfgStr("la"))
	if vIsFloat[T]() && op != "Sum" {
		for k := range aw {
			vAssume(!vNaN(aw[k])) // NaN ordering is outside the statement
		}
	}
	alongArg := vCopyInts(along)
	var res *Dense
	var err error
	pan := vCatch(func() {
		switch op {
		case "Sum":
			if vCfgStr("api") == "func" {
				var rt Tensor
				rt, err = Sum(a, alongArg...)
				if err == nil {
					res = rt.(*Dense)
				}
			} else {
				res, err = a.Sum(alongArg...)
			}
		case "Max":
			res, err = a.Max(alongArg...)
		case "Min":
			res, err = a.Min(alongArg...)
		}
	})
	vReach("C08.Reduce")
	// column-major finding (C16): reductions over a column-major operand panic or fold the wrong lanes
	// (mapped on the pinned tree with the finding closed: only reductions whose first reduced axis is a middle axis fail
	// - they panic; the last axis alone is refused "NYI: colmajor", everything else is correct)
	kfF := vCfgStr("la") == "F" && len(along) > 0 && along[0] > 0 && along[0] < len(shape)-1
	vAssertKF(!pan, "no-panic", "KF-C16-reduce", kfF)
	if pan {
		return
	}
	if err != nil {
		// an unsupported layout may be refused, never folded wrongly; the operand must be intact
		vC08Unchanged(a, aw, "refused-operand-unchanged")
		vAssert(vCfgStr("la") != "C", "contiguous-accepted")
		return
	}
	rshape := vReducedShape(shape, along)
	got := []int(res.Shape())
	same := len(got) == len(rshape)
	if same {
		for i := range got {
			if got[i] != rshape[i] {
				same = false
			}
		}
	}
	if len(rshape) == 0 {
		same = res.IsScalar() || vProd(got) == 1
	}
	vAssertKF(same, "shape", "KF-C16-reduce", kfF)
	if !same {
		return
	}
	// oracle: left fold in ascending coordinate order
	n := vProd(rshape)
	acc := make([]T, n)
	init := make([]bool, n)
	vForCoords(shape, func(c []int) {
		k := 0
		if len(rshape) > 0 {
			k = vRowRank(rshape, vProject(c, along))
		}
		x := aw[vRowRank(shape, c)]
		if !init[k] {
			acc[k], init[k] = x, true
			return
		}
		switch op {
		case "Sum":
			acc[k] = acc[k] + x
		case "Max":
			acc[k] = vIte(x > acc[k], x, acc[k])
		case "Min":
			acc[k] = vIte(x < acc[k], x, acc[k])
		}
	})
	vals := vSnapshot[T](res)
	for k := 0; k < n; k++ {
		vAssertKF(vals[k] == acc[k], "fold", "KF-C16-reduce", kfF)
	}
	vC08Unchanged(a, aw, "operand-unchanged")
}

func vC08Unchanged[T vOrdNum](t *Dense, want []T, id string) {
	shape := []int(t.Shape())
	if vProd(shape) != len(want) {
		vAssert(false, id+"-shape")
		return
	}
	got := vSnapshot[T](t)
	for k := range want {
		vAssert(vSameBits(got[k], want[k]), id)
	}
}

func vhC08Arg() {
	vDispatch(vCfgStr("dtype"), vBodies{i: vC08Arg[int], i8: vC08Arg[int8], i16: vC08Arg[int16], i32: vC08Arg[int32], i64: vC08Arg[int64],
		u: vC08Arg[uint], u8: vC08Arg[uint8], u16: vC08Arg[uint16], u32: vC08Arg[uint32], u64: vC08Arg[uint64], f32: vC08Arg[float32], f64: vC08Arg[float64]})
}

func vC08Arg[T vOrdNum]() {
	op := vCfgStr("op") // Argmax | Argmin
	shape := vCfgInts("shape")
	axis := vCfgInt("axis") // -1 = all axes
	a, aw := vMkOperand[T]("a", shape, vCfgStr("la"))
	if vIsFloat[T]() {
		for k := range aw {
			vAssume(!vNaN(aw[k]))
		}
	}
	var res *Dense
	var err error
	pan := vCatch(func() {
		if vCfgStr("api") == "func" {
			var rt Tensor
			if op == "Argmax" {
				rt, err = Argmax(a, axis)
			} else {
				rt, err = Argmin(a, axis)
			}
			if err == nil {
				res = rt.(*Dense)
			}
		} else if op == "Argmax" {
			res, err = a.Argmax(axis)
		} else {
			res, err = a.Argmin(axis)
		}
	})
	vReach("C08.Arg")
	vAssert(!pan, "no-panic")
	if pan {
		return
	}
	if err != nil {
		vC08Unchanged(a, aw, "refused-operand-unchanged")
		vAssert(vCfgStr("la") != "C", "contiguous-accepted")
		return
	}
	better := func(x, y T) bool { // x strictly better than y
		if op == "Argmax" {
			return x > y
		}
		return x < y
	}
	vAssert(res.Dtype() == Int, "index-dtype")
	if res.Dtype() != Int {
		return
	}
	if axis == -1 {
		// first index of the extreme value in the logical row-major flattening
		var idx int
		if res.IsScalar() {
			idx = res.ScalarValue().(int)
		} else {
			vAssert(false, "allaxes-scalar")
			return
		}
		n := len(aw)
		vC08ArgF = vCfgStr("la") == "F"
		vC08ArgLane(aw, idx, better)
		vC08ArgF = false
		_ = n
		vC08Unchanged(a, aw, "operand-unchanged")
		return
	}
	along := []int{axis}
	rshape := vReducedShape(shape, along)
	got := []int(res.Shape())
	same := len(got) == len(rshape)
	if same {
		for i := range got {
			if got[i] != rshape[i] {
				same = false
			}
		}
	}
	if len(rshape) == 0 {
		same = res.IsScalar() || vProd(got) == 1
	}
	vAssert(same, "shape")
	if !same {
		return
	}
	idxs := vSnapshot[int](res)
	dim := shape[axis]
	rcoords := rshape
	nres := vProd(rshape)
	for k := 0; k < nres; k++ {
		rc := vUnrank(rcoords, k)
		// lane elements
		lane := make([]T, dim)
		for j := 0; j < dim; j++ {
			c := make([]int, len(shape))
			ri := 0
			for i := range shape {
				if i == axis {
					c[i] = j
				} else {
					c[i] = rc[ri]
					ri++
				}
			}
			lane[j] = aw[vRowRank(shape, c)]
		}
		vC08ArgLane(lane, idxs[k], better)
	}
	vC08Unchanged(a, aw, "operand-unchanged")
}

// vhC08Generic: Dense.Reduce with an uninterpreted binary function folds along the axis in ascending order from the default value.
func vhC08Generic() {
	shape := vCfgInts("shape")
	axis := vCfgInt("axis")
	a, aw := vMkOperand[float64]("a", shape, vCfgStr("la"))
	def := vNondet[float64]("def")
	fn := func(x, y float64) float64 { return vUF2("userfold", x, y) }
	var res *Dense
	var err error
	pan := vCatch(func() { res, err = a.Reduce(fn, axis, def) })
	vReach("C08.Generic")
	vAssert(!pan, "no-panic")
	if pan {
		return
	}
	if err != nil {
		vAssert(vCfgStr("la") != "C", "contiguous-accepted")
		return
	}
	along := []int{axis}
	rshape := vReducedShape(shape, along)
	n := vProd(rshape)
	acc := make([]float64, n)
	init := make([]bool, n)
	vForCoords(shape, func(c []int) {
		k := 0
		if len(rshape) > 0 {
			k = vRowRank(rshape, vProject(c, along))
		}
		x := aw[vRowRank(shape, c)]
		if !init[k] {
			acc[k], init[k] = x, true
			return
		}
		acc[k] = fn(acc[k], x)
	})
	if vProd([]int(res.Shape())) != n {
		vAssert(false, "shape")
		return
	}
	vals := vSnapshot[float64](res)
	for k := 0; k < n; k++ {
		// the fold may be seeded with the default value or with the first element of the lane
		seeded := false
		_ = seeded
		vAssert(vOr(vSameBits(vals[k], acc[k]), vSameBits(vals[k], vC08FoldFrom(fn, def, aw, shape, axis, k, rshape))), "fold")
	}
}

func vC08FoldFrom(fn func(x, y float64) float64, def float64, aw []float64, shape []int, axis, k int, rshape []int) float64 {
	rc := vUnrank(rshape, k)
	acc := def
	for j := 0; j < shape[axis]; j++ {
		c := make([]int, len(shape))
		ri := 0
		for i := range shape {
			if i == axis {
				c[i] = j
			} else {
				c[i] = rc[ri]
				ri++
			}
		}
		acc = fn(acc, aw[vRowRank(shape, c)])
	}
	return acc
}

// vC08ArgLane: idx is the first index of the extreme value of lane. The oracle is the strict left fold (which
// yields the first extreme by construction); for short lanes the defining property is asserted as well.
func vC08ArgLane[T vOrdNum](lane []T, idx int, better func(x, y T) bool) {
	n := len(lane)
	best, bi := lane[0], 0
	for j := 1; j < n; j++ {
		b := better(lane[j], best)
		best = vIte(b, lane[j], best)
		bi = vIte(b, j, bi)
	}
	// known finding: the float kernels return at the first +Inf (argmax) / -Inf (argmin) they meet after index 0,
	// even when an earlier element already is that infinity
	var zero T
	infs := 0
	for j := 0; j < n; j++ {
		isExt := vAnd(vIsInfT(lane[j]), better(lane[j], zero))
		infs = infs + vIte(isExt, 1, 0)
	}
	region := infs >= 2
	// column-major finding (C16): the all-axes arg-reduction of a column-major tensor indexes raw (column-major) storage
	vAssertKF2(idx == bi, "first-extreme-index", "KF-C08-arginf", region, "KF-C16-argflat", vC08ArgF)
	if n <= 4 {
		vAssert(vAnd(idx >= 0, idx < n), "index-in-range")
		ci := vIte(vAnd(idx >= 0, idx < n), idx, 0)
		bv := vSel(lane, ci)
		for j := 0; j < n; j++ {
			vAssertKF(!better(lane[j], bv), "extreme", "KF-C16-argflat", vC08ArgF)
			vAssertKF2(vImplies(j < idx, better(bv, lane[j])), "first-extreme", "KF-C08-arginf", region, "KF-C16-argflat", vC08ArgF)
		}
	}
}

var vC08ArgF bool

func vIsInfT[T vOrdNum](x T) bool {
	switch v := any(x).(type) {
	case float64:
		return math.IsInf(v, 0)
	case float32:
		return math.IsInf(float64(v), 0)
	}
	return false
}
