package tensor

// C15 - masks are set, counted, iterated and respected consistently.

import "math"

func init() {
	vHarnesses["vhC15Pred"] = vhC15Pred
	vHarnesses["vhC15Inspect"] = vhC15Inspect
	vHarnesses["vhC15Move"] = vhC15Move
	vHarnesses["vhC15Ops"] = vhC15Ops
}

func vhC15Pred() {
	vDispatch(vCfgStr("dtype"), vBodies{i: vC15Pred[int], i8: vC15Pred[int8], i16: vC15Pred[int16], i32: vC15Pred[int32], i64: vC15Pred[int64],
		u: vC15Pred[uint], u8: vC15Pred[uint8], u16: vC15Pred[uint16], u32: vC15Pred[uint32], u64: vC15Pred[uint64], f32: vC15Pred[float32], f64: vC15Pred[float64]})
}

func vC15Pred[T vOrdNum]() {
	pred := vCfgStr("pred")
	shape := vCfgInts("shape")
	soft := vCfgInt("soft") == 1
	prior := vCfgInt("prior") == 1
	n := vProd(shape)
	data := vNondetSlice[T]("x", n)
	backing := make([]T, n)
	copy(backing, data)
	var pm []bool
	var t *Dense
	if prior {
		pm = vNondetSlice[bool]("m", n)
		mcopy := make([]bool, n)
		copy(mcopy, pm)
		t = New(WithShape(shape...), WithBacking(backing, mcopy))
	} else {
		pm = make([]bool, n)
		t = New(WithShape(shape...), WithBacking(backing))
	}
	if soft {
		t.SoftenMask()
	} else {
		t.HardenMask()
	}
	v1 := vNondet[T]("v1")
	v2 := vNondet[T]("v2")
	v3 := vNondet[T]("v3")
	if vCfgInt("rtol1") == 1 {
		// relative tolerance fixed to 1 (multiplication by 1.0 is exact): keeps the tolerance arithmetic decidable quickly
		var one T = 1
		v2 = one
	}
	var err error
	pan := vCatch(func() {
		switch pred {
		case "Equal":
			err = t.MaskedEqual(v1)
		case "NotEqual":
			err = t.MaskedNotEqual(v1)
		case "Greater":
			err = t.MaskedGreater(v1)
		case "GreaterEqual":
			err = t.MaskedGreaterEqual(v1)
		case "Less":
			err = t.MaskedLess(v1)
		case "LessEqual":
			err = t.MaskedLessEqual(v1)
		case "Inside":
			err = t.MaskedInside(v1, v2)
		case "Outside":
			err = t.MaskedOutside(v1, v2)
		case "Values2":
			err = t.MaskedValues(v1, v2)
		case "Values3":
			err = t.MaskedValues(v1, v2, v3)
		}
	})
	vReach("C15.Pred")
	vAssert(!pan, "no-panic")
	if pan {
		return
	}
	isValues := pred == "Values2" || pred == "Values3"
	if isValues && !vIsFloat[T]() {
		vAssert(err != nil, "values-refused-for-non-floats")
		return
	}
	vAssert(err == nil, "no-error")
	if err != nil {
		return
	}
	mask := t.Mask()
	vAssert(len(mask) == n, "mask-length")
	if len(mask) != n {
		return
	}
	for i := 0; i < n; i++ {
		x := data[i]
		var p bool
		switch pred {
		case "Equal":
			p = x == v1
		case "NotEqual":
			p = x != v1
		case "Greater":
			p = x > v1
		case "GreaterEqual":
			p = x >= v1
		case "Less":
			p = x < v1
		case "LessEqual":
			p = x <= v1
		case "Inside":
			p = vAnd(x >= v1, x <= v2)
		case "Outside":
			p = vOr(x < v1, x > v2)
		case "Values2":
			p = math.Abs(vToF64(x-v1)) <= 1.0e-8
		case "Values3":
			p = math.Abs(vToF64(x-v1)) <= vToF64(v3)+vToF64(v2)*math.Abs(vToF64(v1))
		}
		want := vIte(soft, p, vOr(pm[i], p))
		vAssert(mask[i] == want, "mask-exact")
		// the data is never touched by a predicate
		vAssert(vSameBits(backing[i], data[i]), "data-unchanged")
	}
}

func vToF64[T vOrdNum](x T) float64 {
	switch v := any(x).(type) {
	case float32:
		return float64(v)
	case float64:
		return v
	}
	return 0
}

// vhC15Inspect: counts, any/all, runs, edges and filling agree with the mask (every bit symbolic).
func vhC15Inspect() {
	shape := vCfgInts("shape")
	what := vCfgStr("what")
	n := vProd(shape)
	bits := vNondetSlice[bool]("m", n)
	data := vNondetSlice[float64]("x", n)
	backing := make([]float64, n)
	copy(backing, data)
	mcopy := make([]bool, n)
	copy(mcopy, bits)
	t := New(WithShape(shape...), WithBacking(backing, mcopy))
	vReach("C15.Inspect")
	cnt := 0
	for i := 0; i < n; i++ {
		if bits[i] {
			cnt++
		}
	}
	switch what {
	case "count":
		var r1, r2, r3, r4 interface{}
		pan := vCatch(func() {
			r1, r2, r3, r4 = t.MaskedCount(), t.NonMaskedCount(), t.MaskedAny(), t.MaskedAll()
		})
		vAssert(!pan, "no-panic")
		if pan {
			return
		}
		vAssert(r1.(int) == cnt, "count")
		vAssert(r2.(int) == n-cnt, "nonmasked-count")
		vAssert(r3.(bool) == (cnt > 0), "any")
		vAssert(r4.(bool) == (cnt == n), "all")
	case "axis":
		axis := vCfgInt("axis")
		var rc, ra, rl, rn interface{}
		pan := vCatch(func() {
			rc, ra = t.MaskedCount(axis), t.MaskedAny(axis)
			rl, rn = t.MaskedAll(axis), t.NonMaskedCount(axis)
		})
		vAssert(!pan, "no-panic")
		if pan {
			return
		}
		if len(shape) < 2 || (len(shape) == 2 && (shape[0] == 1 || shape[1] == 1)) {
			// vectors (also (n,1)/(1,n)) are documented to be reduced as a whole
			if ci, ok := rc.(int); ok {
				vAssert(ci == cnt, "vector-count")
			}
			if ai, ok := ra.(bool); ok {
				vAssert(ai == (cnt > 0), "vector-any")
			}
			return
		}
		along := []int{axis}
		rshape := vReducedShape(shape, along)
		ct := make([]int, vProd(rshape))
		vForCoords(shape, func(c []int) {
			if bits[vRowRank(shape, c)] {
				ct[vRowRank(rshape, vProject(c, along))]++
			}
		})
		cd, ok1 := rc.(*Dense)
		ad, ok2 := ra.(*Dense)
		vAssert(ok1 && ok2, "axis-result-dense")
		if !ok1 || !ok2 {
			return
		}
		cs := vSnapshot[int](cd)
		as := vSnapshot[bool](ad)
		vAssert(len(cs) == len(ct) && len(as) == len(ct), "axis-result-shape")
		if len(cs) != len(ct) || len(as) != len(ct) {
			return
		}
		for k := range ct {
			vAssert(cs[k] == ct[k], "axis-count")
			vAssert(as[k] == (ct[k] > 0), "axis-any")
		}
		ld, ok3 := rl.(*Dense)
		nd, ok4 := rn.(*Dense)
		vAssert(ok3 && ok4, "axis-all-result-dense")
		if !ok3 || !ok4 {
			return
		}
		ls := vSnapshot[bool](ld)
		ns := vSnapshot[int](nd)
		vAssert(len(ls) == len(ct) && len(ns) == len(ct), "axis-all-result-shape")
		if len(ls) != len(ct) || len(ns) != len(ct) {
			return
		}
		lane := shape[axis]
		for k := range ct {
			vAssert(ls[k] == (ct[k] == lane), "axis-all")
			vAssert(ns[k] == lane-ct[k], "axis-nonmasked-count")
		}
	case "runs":
		var masked, unmasked []Slice
		pan := vCatch(func() { masked, unmasked = t.FlatMaskedContiguous(), t.FlatNotMaskedContiguous() })
		vAssert(!pan, "no-panic")
		if pan {
			return
		}
		vC15Runs(bits, masked, true, "masked-runs")
		vC15Runs(bits, unmasked, false, "unmasked-runs")
	case "edges":
		var ms, me, us, ue int
		pan := vCatch(func() {
			ms, me = t.FlatMaskedEdges()
			us, ue = t.FlatNotMaskedEdges()
		})
		vAssert(!pan, "no-panic")
		if pan {
			return
		}
		fm, lm, fu, lu := -1, -1, -1, -1
		for i := 0; i < n; i++ {
			if bits[i] {
				if fm == -1 {
					fm = i
				}
				lm = i
			} else {
				if fu == -1 {
					fu = i
				}
				lu = i
			}
		}
		vAssert(ms == fm && me == lm, "masked-edges")
		vAssert(us == fu && ue == lu, "unmasked-edges")
	case "filled", "filledinplace":
		fv := vNondet[float64]("fill")
		var r interface{}
		var err error
		pan := vCatch(func() {
			if what == "filled" {
				r, err = t.Filled(fv)
			} else {
				r, err = t.FilledInplace(fv)
			}
		})
		isVec2 := len(shape) == 2 && (shape[0] == 1 || shape[1] == 1)
		vAssertKF(!pan, "no-panic", "KF-C15-filled", isVec2 && cnt > 0)
		if pan {
			return
		}
		vAssert(err == nil, "no-error")
		rd, ok := r.(*Dense)
		vAssert(ok, "filled-dense")
		if !ok || err != nil {
			return
		}
		got := vSnapshot[float64](rd)
		for i := 0; i < n; i++ {
			vAssertKF(vSameBits(got[i], vIte(bits[i], fv, data[i])), "filled", "KF-C15-filled", isVec2 && cnt > 0)
		}
		if what == "filled" {
			vAssert(rd != t, "filled-returns-copy")
			for i := 0; i < n; i++ {
				vAssert(vSameBits(backing[i], data[i]), "filled-source-unchanged")
			}
		}
	}
}

func vC15Runs(bits []bool, runs []Slice, val bool, id string) {
	// expected maximal runs of positions with bits[i] == val
	n := len(bits)
	k := 0
	i := 0
	for i < n {
		if bits[i] != val {
			i++
			continue
		}
		j := i
		for j < n && bits[j] == val {
			j++
		}
		if k >= len(runs) {
			vAssert(false, id+"-missing-run")
			return
		}
		vAssert(runs[k].Start() == i && runs[k].End() == j, id)
		k++
		i = j
	}
	vAssert(k == len(runs), id+"-count")
}

// vhC15Move: the mask stays attached to its elements through lazy / physical transposition and slicing.
func vhC15Move() {
	shape := vCfgInts("shape")
	n := vProd(shape)
	bits := vNondetSlice[bool]("m", n)
	data := vNondetSlice[int]("x", n)
	backing := make([]int, n)
	copy(backing, data)
	mcopy := make([]bool, n)
	copy(mcopy, bits)
	t := New(WithShape(shape...), WithBacking(backing, mcopy))
	op := vCfgStr("op")
	vReach("C15.Move")
	check := func(d *Dense, sh []int, mapc func(c []int) []int, id string) {
		vForCoords(sh, func(c []int) {
			src := mapc(c)
			var m bool
			var x interface{}
			var e1, e2 error
			p := vCatch(func() {
				m, e1 = d.MaskAt(c...)
				x, e2 = d.At(c...)
			})
			vAssert(!p && e1 == nil && e2 == nil, id+"-readable")
			if p || e1 != nil || e2 != nil {
				return
			}
			vAssert(m == bits[vRowRank(shape, src)], id+"-mask-follows")
			vAssert(x.(int) == data[vRowRank(shape, src)], id+"-elem")
		})
	}
	switch op {
	case "T", "TX":
		if err := t.T(); err != nil {
			return
		}
		if op == "TX" {
			if err := t.Transpose(); err != nil {
				vAssert(false, "transpose-ok")
				return
			}
		}
		rs := vReverseInts(shape)
		check(t, rs, func(c []int) []int { return vReverseInts(c) }, "transposed")
		if op == "TX" {
			// physical move: the mask slice is in the storage order of the new tensor
			mk := t.Mask()
			vAssert(len(mk) == n, "mask-length")
			if len(mk) == n {
				vForCoords(rs, func(c []int) {
					vAssert(mk[vRowRank(rs, c)] == bits[vRowRank(shape, vReverseInts(c))], "mask-storage-order")
				})
			}
		}
	case "slice":
		axis := vCfgInt("axis")
		s := vSplit(vNondet[int]("s"), 0, shape[axis]-1)
		e := vSplit(vNondet[int]("e"), s+1, shape[axis])
		sls := make([]Slice, axis+1)
		sls[axis] = S(s, e)
		v, err := t.Slice(sls...)
		if err != nil {
			vAssert(false, "slice-ok")
			return
		}
		d := v.(*Dense)
		vs := []int(d.Shape())
		dropped := len(vs) < len(shape)
		check(d, vs, func(c []int) []int {
			pc := make([]int, len(shape))
			if len(c) == 0 {
				// a one-element view is a scalar: every axis is dropped
				pc[axis] = s
				return pc
			}
			j := 0
			for i := range shape {
				if i == axis {
					if dropped {
						pc[i] = s
						continue
					}
					pc[i] = s + c[j]
				} else {
					pc[i] = c[j]
				}
				j++
			}
			return pc
		}, "sliced")
	}
}

// vhC15Ops: elementwise operations on masked operands deliver, at positions valid in all operands, the unmasked value.
func vhC15Ops() {
	dt := vCfgStr("dtype")
	if dt == "" {
		dt = "float64"
	}
	vDispatch(dt, vBodies{i: vC15Ops[int], i8: vC15Ops[int8], i32: vC15Ops[int32], i64: vC15Ops[int64], u8: vC15Ops[uint8], u16: vC15Ops[uint16],
		f32: vC15Ops[float32], f64: vC15Ops[float64], c128: vC15Ops[complex128]})
}

// (the masked-iterator kernels are generated per element type)
func vC15Ops[T vNum]() {
	shape := vCfgInts("shape")
	op := vCfgStr("op")
	n := vProd(shape)
	am := vNondetSlice[bool]("ma", n)
	bm := vNondetSlice[bool]("mb", n)
	ad := vNondetSlice[T]("a", n)
	bd := vNondetSlice[T]("b", n)
	ab := make([]T, n)
	copy(ab, ad)
	bb := make([]T, n)
	copy(bb, bd)
	amc := make([]bool, n)
	copy(amc, am)
	bmc := make([]bool, n)
	copy(bmc, bm)
	a := New(WithShape(shape...), WithBacking(ab, amc))
	if vCfgInt("amasked") == -1 {
		a = New(WithShape(shape...), WithBacking(ab))
		for i := range am {
			am[i] = false
		}
	}
	var b *Dense
	if vCfgInt("bmasked") == 1 {
		b = New(WithShape(shape...), WithBacking(bb, bmc))
	} else {
		b = New(WithShape(shape...), WithBacking(bb))
		for i := range bm {
			bm[i] = false
		}
	}
	var res Tensor
	var err error
	var opts []FuncOpt
	if vCfgStr("mode") == "unsafe" {
		opts = append(opts, UseUnsafe())
	}
	pan := vCatch(func() { res, err = vCallBin(op, "func", a, b, opts...) })
	vReach("C15.Ops")
	vAssert(!pan, "no-panic")
	if pan {
		return
	}
	vAssert(err == nil, "no-error")
	if err != nil {
		return
	}
	rd := res.(*Dense)
	got := vSnapshot[T](rd)
	for i := 0; i < n; i++ {
		valid := vAnd(!am[i], !bm[i])
		var want T
		switch op {
		case "Add":
			want = ad[i] + bd[i]
		case "Sub":
			want = ad[i] - bd[i]
		case "Mul":
			want = ad[i] * bd[i]
		}
		vAssert(vImplies(valid, vSameBits(got[i], want)), "valid-positions")
	}
}
