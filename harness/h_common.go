package tensor

// Shared harness helpers: dtype dispatch, layout recipes, coordinate utilities.

// vDispatch calls the instantiation of a generic harness body for the configured dtype.
type vBodies struct {
	b    func()
	i    func()
	i8   func()
	i16  func()
	i32  func()
	i64  func()
	u    func()
	u8   func()
	u16  func()
	u32  func()
	u64  func()
	uptr func()
	f32  func()
	f64  func()
	c64  func()
	c128 func()
	str  func()
}

func vDispatch(dt string, v vBodies) {
	var f func()
	switch dt {
	case "bool":
		f = v.b
	case "int":
		f = v.i
	case "int8":
		f = v.i8
	case "int16":
		f = v.i16
	case "int32":
		f = v.i32
	case "int64":
		f = v.i64
	case "uint":
		f = v.u
	case "uint8":
		f = v.u8
	case "uint16":
		f = v.u16
	case "uint32":
		f = v.u32
	case "uint64":
		f = v.u64
	case "uintptr":
		f = v.uptr
	case "float32":
		f = v.f32
	case "float64":
		f = v.f64
	case "complex64":
		f = v.c64
	case "complex128":
		f = v.c128
	case "string":
		f = v.str
	}
	if f == nil {
		panic("vDispatch: no body for dtype " + dt)
	}
	f()
}

// vAllBodies instantiates one generic body at every element type.
func vAllBodies(dt string, mk func(dt string) func()) { mk(dt)() }

// row-major (Horner) rank of coordinate c in shape s
func vRowRank(s []int, c []int) int {
	r := 0
	for i := range s {
		r = r*s[i] + c[i]
	}
	return r
}

// column-major rank
func vColRank(s []int, c []int) int {
	r := 0
	for i := len(s) - 1; i >= 0; i-- {
		r = r*s[i] + c[i]
	}
	return r
}

// vInBox: 0 <= c[i] < s[i] for all i (as one boolean value, no short-circuit branches)
func vInBox(s []int, c []int) bool {
	ok := true
	for i := range s {
		ok = vAnd(ok, vAnd(c[i] >= 0, c[i] < s[i]))
	}
	return ok
}

func vAnyNeg(c []int) bool {
	r := false
	for i := range c {
		r = vOr(r, c[i] < 0)
	}
	return r
}

func vEqCoord(a, b []int) bool {
	ok := true
	for i := range a {
		ok = vAnd(ok, a[i] == b[i])
	}
	return ok
}

// vForCoords calls f for every coordinate of shape s in row-major order.
func vForCoords(s []int, f func(c []int)) {
	n := vProd(s)
	c := make([]int, len(s))
	for k := 0; k < n; k++ {
		r := k
		for i := len(s) - 1; i >= 0; i-- {
			c[i] = r % s[i]
			r /= s[i]
		}
		cc := make([]int, len(s))
		copy(cc, c)
		f(cc)
	}
}

func vCopyInts(a []int) []int {
	r := make([]int, len(a))
	copy(r, a)
	return r
}

func vReverseInts(a []int) []int {
	r := make([]int, len(a))
	for i := range a {
		r[len(a)-1-i] = a[i]
	}
	return r
}
