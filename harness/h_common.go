package tensor

// Shared harness helpers: dtype dispatch, layout recipes, coordinate utilities.

// vDispatch calls the instantiation of a generic harness body for the configured dtype.
type vBodies struct {
	b    func()
	i    func()
	i8   func()
	i16  func()
	i32  func()
	i64  func()
	u    func()
	u8   func()
	u16  func()
	u32  func()
	u64  func()
	uptr func()
	f32  func()
	f64  func()
	c64  func()
	c128 func()
	str  func()
}

func vDispatch(dt string, v vBodies) {
	var f func()
	switch dt {
	case "bool":
		f = v.b
	case "int":
		f = v.i
	case "int8":
		f = v.i8
	case "int16":
		f = v.i16
	case "int32":
		f = v.i32
	case "int64":
		f = v.i64
	case "uint":
		f = v.u
	case "uint8":
		f = v.u8
	case "uint16":
		f = v.u16
	case "uint32":
		f = v.u32
	case "uint64":
		f = v.u64
	case "uintptr":
		f = v.uptr
	case "float32":
		f = v.f32
	case "float64":
		f = v.f64
	case "complex64":
		f = v.c64
	case "complex128":
		f = v.c128
	case "string":
		f = v.str
	}
	if f == nil {
		panic("vDispatch: no body for dtype " + dt)
	}
	f()
}

// vAllBodies instantiates one generic body at every element type.
func vAllBodies(dt string, mk func(dt string) func()) { mk(dt)() }

// row-major (Horner) rank of coordinate c in shape s
func vRowRank(s []int, c []int) int {
	r := 0
	for i := range s {
		r = r*s[i] + c[i]
	}
	return r
}

// column-major rank
func vColRank(s []int, c []int) int {
	r := 0
	for i := len(s) - 1; i >= 0; i-- {
		r = r*s[i] + c[i]
	}
	return r
}

// vInBox: 0 <= c[i] < s[i] for all i (as one boolean value, no short-circuit branches)
func vInBox(s []int, c []int) bool {
	ok := true
	for i := range s {
		ok = vAnd(ok, vAnd(c[i] >= 0, c[i] < s[i]))
	}
	return ok
}

func vAnyNeg(c []int) bool {
	r := false
	for i := range c {
		r = vOr(r, c[i] < 0)
	}
	return r
}

func vEqCoord(a, b []int) bool {
	ok := true
	for i := range a {
		ok = vAnd(ok, a[i] == b[i])
	}
	return ok
}

// vForCoords calls f for every coordinate of shape s in row-major order.
func vForCoords(s []int, f func(c []int)) {
	n := vProd(s)
	c := make([]int, len(s))
	for k := 0; k < n; k++ {
		r := k
		for i := len(s) - 1; i >= 0; i-- {
			c[i] = r % s[i]
			r /= s[i]
		}
		cc := make([]int, len(s))
		copy(cc, c)
		f(cc)
	}
}

func vCopyInts(a []int) []int {
	r := make([]int, len(a))
	copy(r, a)
	return r
}

func vReverseInts(a []int) []int {
	r := make([]int, len(a))
	for i := range a {
		r[len(a)-1-i] = a[i]
	}
	return r
}

// ---------------------------------------------------------------------------
// Operand builder: a tensor of a requested logical shape and content in a given memory layout,
// built with the real API from a parent whose every cell is symbolic.
//
//	C   contiguous row-major
//	F   column-major (AsFortran(nil) over raw backing)
//	T   lazily transposed (parent has the reversed shape)
//	S   unit-step interior window (last axis padded by one cell on both sides; rank 1: a window of a longer vector)
//	SS  step-2 slice on the last axis
//	M   materialised S view
//	TS  interior window of a lazily transposed parent
//
// Returns the tensor and its logical content in row-major order of `shape` (fresh symbols named <name>_k).
func vMkOperand[T vScalar](name string, shape []int, layout string) (*Dense, []T) {
	n := vProd(shape)
	want := vNondetSlice[T](name, n)
	rank := len(shape)
	if rank == 0 {
		// scalar tensors have a single layout
		b := make([]T, 1)
		b[0] = want[0]
		return New(append([]ConsOpt{WithShape(), WithBacking(b)}, vEngOpts(vEngine())...)...), want
	}
	switch layout {
	case "C":
		b := make([]T, n)
		copy(b, want)
		return New(append([]ConsOpt{WithShape(shape...), WithBacking(b)}, vEngOpts(vEngine())...)...), want
	case "F":
		b := make([]T, n)
		vForCoords(shape, func(c []int) { b[vColRank(shape, c)] = want[vRowRank(shape, c)] })
		return New(append([]ConsOpt{WithShape(shape...), WithBacking(b), AsFortran(nil)}, vEngOpts(vEngine())...)...), want
	case "T":
		ps := vReverseInts(shape)
		b := make([]T, n)
		vForCoords(shape, func(c []int) { b[vRowRank(ps, vReverseInts(c))] = want[vRowRank(shape, c)] })
		t := New(append([]ConsOpt{WithShape(ps...), WithBacking(b)}, vEngOpts(vEngine())...)...)
		if rank >= 2 {
			if err := t.T(); err != nil {
				panic("vMkOperand: T failed")
			}
		}
		return t, want
	case "S", "M", "SS":
		ps := vCopyInts(shape)
		last := rank - 1
		var sl Slice
		if layout == "SS" {
			ps[last] = 2 * shape[last]
			sl = S(0, ps[last], 2)
		} else {
			ps[last] = shape[last] + 2
			sl = S(1, 1+shape[last], 1)
		}
		pad := vNondetSlice[T](name+"_pad", vProd(ps))
		b := make([]T, vProd(ps))
		copy(b, pad)
		vForCoords(shape, func(c []int) {
			pc := vCopyInts(c)
			if layout == "SS" {
				pc[last] = 2 * c[last]
			} else {
				pc[last] = c[last] + 1
			}
			b[vRowRank(ps, pc)] = want[vRowRank(shape, c)]
		})
		p := New(append([]ConsOpt{WithShape(ps...), WithBacking(b)}, vEngOpts(vEngine())...)...)
		sls := make([]Slice, rank)
		sls[last] = sl
		v, err := p.Slice(sls...)
		if err != nil {
			panic("vMkOperand: Slice failed")
		}
		d := v.(*Dense)
		if layout == "M" {
			return d.Materialize().(*Dense), want
		}
		if !d.Shape().Eq(Shape(shape)) && !(vProd(shape) == 1) {
			// slicing dropped a unit axis: restore the requested rank is not possible for a view; callers avoid such shapes
			panic("vMkOperand: view shape differs from requested shape")
		}
		return d, want
	}
	panic("vMkOperand: unknown layout " + layout)
}

// vLayoutOK tells whether vMkOperand can produce `layout` for `shape` with exactly that shape.
func vLayoutOK(shape []int, layout string) bool {
	if len(shape) == 0 {
		return layout == "C"
	}
	switch layout {
	case "S", "SS":
		// the sliced axis must keep more than one entry, otherwise AP.S drops it
		return shape[len(shape)-1] > 1
	case "T":
		return true
	}
	return true
}

// vSnapshot reads every logical element of t through At (row-major order of its shape).
func vSnapshot[T vScalar](t *Dense) []T {
	shape := []int(t.Shape())
	out := make([]T, vProd(shape))
	if len(shape) == 0 || t.IsScalar() {
		x, err := t.At()
		if err != nil {
			// scalar-equivalent with explicit unit dims
			c := make([]int, len(shape))
			x, err = t.At(c...)
			if err != nil {
				panic("vSnapshot: At failed")
			}
		}
		out[0] = x.(T)
		return out
	}
	vForCoords(shape, func(c []int) {
		x, err := t.At(c...)
		if err != nil {
			panic("vSnapshot: At failed")
		}
		out[vRowRank(shape, c)] = x.(T)
	})
	return out
}

// package-level function T is shadowed by the type parameter inside generic harness bodies
func vApiT(t Tensor, axes ...int) (Tensor, error) { return T(t, axes...) }
