package tensor

// probe harnesses used while bringing the engine up

func vhProbeLtoi() {
	shape := Shape{2, 3}
	strides := shape.CalcStrides()
	c0 := vNondet[int]("c0")
	c1 := vNondet[int]("c1")
	at, err := Ltoi(shape, strides, c0, c1)
	inb := vAnd(vAnd(c0 >= 0, c0 < 2), vAnd(c1 >= 0, c1 < 3))
	vReach("probe")
	if err == nil {
		vAssert(at == c0*3+c1, "rank")
		vAssert(inb, "reject")
	} else {
		vAssert(!inb, "accept")
	}
}

func vhProbeAt() {
	back := vNondetSlice[float64]("e", 6)
	t := New(WithShape(2, 3), WithBacking(back))
	c0 := vNondet[int]("c0")
	c1 := vNondet[int]("c1")
	vAssume(c0 >= 0)
	vAssume(c1 >= 0)
	got, err := t.At(c0, c1)
	vReach("probe")
	if err == nil {
		x := got.(float64)
		for i := 0; i < 2; i++ {
			for j := 0; j < 3; j++ {
				if c0 == i && c1 == j {
					vAssert(vSameBits(x, back[i*3+j]), "read")
				}
			}
		}
	}
}
