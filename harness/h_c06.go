package tensor

// C06 - elementwise arithmetic is coordinate-wise, exact and layout-blind.

func init() {
	vHarnesses["vhC06Bin"] = vhC06Bin
	vHarnesses["vhC06Refuse"] = vhC06Refuse
}

func vNumBodies(f func(dt string) func()) vBodies {
	return vBodies{}
}

func vhC06Bin() {
	vDispatch(vCfgStr("dtype"), vBodies{i: vC06Bin[int], i8: vC06Bin[int8], i16: vC06Bin[int16], i32: vC06Bin[int32], i64: vC06Bin[int64],
		u: vC06Bin[uint], u8: vC06Bin[uint8], u16: vC06Bin[uint16], u32: vC06Bin[uint32], u64: vC06Bin[uint64],
		f32: vC06Bin[float32], f64: vC06Bin[float64], c64: vC06Bin[complex64], c128: vC06Bin[complex128]})
}

func vC06Bin[T vNum]() {
	op := vCfgStr("op")
	form := vCfgStr("form") // TT | TS | ST
	shape := vCfgInts("shape")
	api := vCfgStr("api")
	dt := vCfgStr("dtype")
	a, aw := vMkOperand[T]("a", shape, vCfgStr("la"))
	var b *Dense
	var bw []T
	var s T
	var res Tensor
	var err error
	var pan bool
	mode := vCfgStr("mode") // "" (safe) | unsafe | reuse | incr | reuseA | reuseB   (C07)
	if form == "TT" {
		b, bw = vMkOperand[T]("b", shape, vCfgStr("lb"))
	} else {
		s = vNondet[T]("s")
	}
	var d *Dense
	var dw []T
	var zb *Dense
	var opts []FuncOpt
	switch mode {
	case "unsafe":
		opts = append(opts, UseUnsafe())
	case "reuse":
		d, dw = vMkOperand[T]("d", shape, vCfgStr("ld"))
		opts = append(opts, WithReuse(d))
	case "incr":
		d, dw = vMkOperand[T]("d", shape, vCfgStr("ld"))
		opts = append(opts, WithIncr(d))
	case "reuseA":
		d, dw = a, aw
		opts = append(opts, WithReuse(a))
	case "reuseB":
		if form != "TT" {
			return
		}
		d, dw = b, bw
		opts = append(opts, WithReuse(b))
	}
	// (the vecf32/vecf64 kernels that map x/0 to +Inf are only used on the contiguous path; the iterator kernels follow Go.
	// Which path is taken is read off the tensors themselves, before the call)
	contigPath := !a.RequiresIterator()
	if form == "TT" {
		contigPath = contigPath && !b.RequiresIterator() && a.DataOrder().HasSameOrder(b.DataOrder())
	}
	if (mode == "reuse" || mode == "incr") && d != nil {
		contigPath = contigPath && !d.RequiresIterator() && d.DataOrder().HasSameOrder(a.DataOrder())
	}
	switch form {
	case "TT":
		pan = vCatch(func() { res, err = vCallBin(op, api, a, b, opts...) })
	case "TS":
		pan = vCatch(func() { res, err = vCallBin(op, api, a, s, opts...) })
	case "ST":
		pan = vCatch(func() { res, err = vCallBin(op, api, s, a, opts...) })
	case "TZ": // the scalar operand given as a scalar-shaped tensor (it is an operand: it must come back unchanged)
		zb = New(FromScalar(s))
		pan = vCatch(func() { res, err = vCallBin(op, api, a, zb, opts...) })
	}
	vReach("C06.Bin")
	n := len(aw)
	// operands of element k
	xy := func(k int) (T, T) {
		switch form {
		case "TT":
			return aw[k], bw[k]
		case "TS", "TZ":
			return aw[k], s
		}
		return s, aw[k]
	}
	if !vOpSupports(op, dt) {
		vAssert(!pan, "refuse-no-panic")
		if !pan {
			vAssert(err != nil, "refuse")
		}
		return
	}
	// integer division by zero: an error, never a panic; integer modulo by zero panics like Go's % (outside the statement)
	anyUndef := false
	for k := 0; k < n; k++ {
		x, y := xy(k)
		anyUndef = vOr(anyUndef, !vBinDefined(op, x, y))
	}
	if op == "Mod" && vIsInt[T]() {
		vAssume(!anyUndef)
	}
	if mode != "" && op == "Div" && vIsInt[T]() {
		vAssume(!anyUndef) // zero divisors are decided in safe mode (C06)
	}
	if (op == "MinBetween" || op == "MaxBetween") && vIsFloat[T]() {
		vAssume(!anyUndef) // NaN ordering is outside the statement
	}
	vAssert(!pan, "no-panic")
	if pan {
		return
	}
	if (mode == "reuse" || mode == "incr" || mode == "reuseA" || mode == "reuseB") && d.RequiresIterator() && err != nil {
		// a non-contiguous view as destination may be refused (its storage window is larger than the result);
		// then nothing may have been written anywhere
		vC06Unchanged(a, aw, "refused-a-unchanged")
		if b != nil {
			vC06Unchanged(b, bw, "refused-b-unchanged")
		}
		vC06Unchanged(d, dw, "refused-dest-unchanged")
		return
	}
	if op == "Div" && vIsInt[T]() {
		// known finding: the iterator-path dispatcher drops the kernel's error (layout-dependent outcome)
		la, lb := vCfgStr("la"), vCfgStr("lb")
		iterPath := la == "T" || la == "S" || la == "SS" || (form == "TT" && (lb == "T" || lb == "S" || lb == "SS")) || (form == "TT" && ((la == "F") != (lb == "F")))
		vAssertKF(vImplies(anyUndef, err != nil), "div0-error", "KF-C06-idiv0-iter", vAnd(anyUndef, iterPath || n == 1))
		vAssert(vImplies(!anyUndef, err == nil), "no-error")
		if res == nil {
			return
		}
	} else {
		vAssert(err == nil, "no-error")
		if err != nil {
			return
		}
	}
	rd, ok := res.(*Dense)
	vAssert(ok, "result-dense")
	if !ok {
		return
	}
	if rd == nil {
		// the methods return no tensor together with the division-by-zero error
		vAssert(err != nil, "nil-result-only-with-error")
		return
	}
	vAssert(rd.Dtype() == a.Dtype(), "result-dtype")
	rshape := []int(rd.Shape())
	same := len(rshape) == len(shape)
	if same {
		for i := range shape {
			if rshape[i] != shape[i] {
				same = false
			}
		}
	}
	vAssert(same, "result-shape")
	if !same {
		return
	}
	// returned tensor identity (C07)
	switch mode {
	case "":
		fresh := rd != a && (b == nil || rd != b)
		vAssert(fresh, "safe-returns-fresh")
		vAssert(!vSameBacking(rd.Data(), a.Data()), "safe-no-alias-a")
		if b != nil {
			vAssert(!vSameBacking(rd.Data(), b.Data()), "safe-no-alias-b")
		}
	case "unsafe":
		vAssert(rd == a, "unsafe-returns-first-tensor")
	default:
		vAssert(rd == d, "returns-destination")
	}
	got := vSnapshot[T](rd)
	fdiv0 := op == "Div" && vIsFloat[T]()
	// known finding: on the iterator path a reuse tensor that is the second operand is overwritten with the first
	// operand before the operation reads it
	la, lb := vCfgStr("la"), vCfgStr("lb")
	kfB := mode == "reuseB" && (la == "T" || la == "S" || la == "SS" || lb == "T" || lb == "S" || lb == "SS")
	// column-major findings (C16): min/max between of column-major operands return a row-major tensor filled in
	// storage order; a reuse/incr destination whose data order differs from the operand's is re-flagged, not re-laid out
	anyF := la == "F" || (form == "TT" && lb == "F")
	kfColMinMax := (op == "MinBetween" || op == "MaxBetween") && anyF
	kfReuseOrder := mode == "reuse" && ((vCfgStr("ld") == "F") != (la == "F"))
	kfCol := "KF-C16-minmax"
	rCol := kfColMinMax
	if kfReuseOrder {
		kfCol, rCol = "KF-C16-reuse-order", true
	}
	for k := 0; k < n; k++ {
		x, y := xy(k)
		def := vBinDefined(op, x, y)
		g := got[k]
		if mode == "incr" {
			// delivered value = old destination + result: compare after subtracting is not exact; assert the sum
			ok := false
			switch op {
			case "Add":
				ok = vSameBits(g, dw[k]+(x+y))
			case "Sub":
				ok = vSameBits(g, dw[k]+(x-y))
			case "Mul":
				ok = vSameBits(g, dw[k]+(x*y))
			case "Div":
				ok = vSameBits(g, dw[k]+(x/y))
			default:
				ok = true // Mod/Pow/MinMax with incr: covered by the kernel-level table (C17)
			}
			if fdiv0 {
				vAssertKF2(ok, "incr-value", "KF-C06-fdiv0", vAnd(vIsZero(y), contigPath), kfCol, rCol)
			} else {
				vAssertKF(ok, "incr-value", kfCol, rCol)
			}
			continue
		}
		if fdiv0 {
			vAssertKF3(vBinMatch(op, g, x, y), "value", "KF-C06-fdiv0", vAnd(vIsZero(y), contigPath), "KF-C07-reuseB-iter", kfB, kfCol, rCol)
		} else if vIsInt[T]() && (op == "Div" || op == "Mod") {
			if def {
				vAssertKF2(vBinMatch(op, g, x, y), "value", "KF-C07-reuseB-iter", kfB, kfCol, rCol)
			}
		} else {
			vAssertKF2(vBinMatch(op, g, x, y), "value", "KF-C07-reuseB-iter", kfB, kfCol, rCol)
		}
	}
	// every tensor other than the designated destination is unchanged
	if rd != a {
		as := vSnapshot[T](a)
		// known finding: the incr kernels' one-element case accumulates into operand a first
		kfIncr1 := mode == "incr" && n == 1
		for k := range aw {
			vAssertKF(vSameBits(as[k], aw[k]), "operand-a-unchanged", "KF-C07-incr1", kfIncr1)
		}
	}
	if form == "TT" && rd != b {
		bs := vSnapshot[T](b)
		for k := range bw {
			vAssert(vSameBits(bs[k], bw[k]), "operand-b-unchanged")
		}
	}
	if form == "TZ" {
		vC06ScalarOperand(zb, s, "scalar-tensor-operand-unchanged")
		if vCfgInt("after") == 1 {
			// its storage must not have been handed to a pool either: a later operation with a Go scalar leaves it alone
			c := vNondet[T]("c")
			a2, _ := vMkOperand[T]("a2", []int{2}, "C")
			if _, err := vCallBin("Add", "func", a2, c); err == nil {
				vC06ScalarOperand(zb, s, "scalar-tensor-operand-unchanged-later")
			}
		}
	}
}

func vC06ScalarOperand[T vNum](z *Dense, s T, id string) {
	vAssert(z.IsScalar(), id+"-shape")
	if !z.IsScalar() {
		return
	}
	v, ok := z.ScalarValue().(T)
	vAssert(ok, id+"-type")
	if ok {
		vAssert(vSameBits(v, s), id)
	}
}

// vhC06Refuse: mismatched shapes or element types are refused with an error rather than computed.
func vhC06Refuse() {
	op := vCfgStr("op")
	kind := vCfgStr("kind")
	var a, b interface{}
	switch kind {
	case "shape-size": // different total sizes
		a, _ = vMkOperand[float64]("a", []int{2, 3}, "C")
		b, _ = vMkOperand[float64]("b", []int{2, 2}, "C")
	case "shape-rank": // same size, different shape
		a, _ = vMkOperand[float64]("a", []int{2, 3}, "C")
		b, _ = vMkOperand[float64]("b", []int{3, 2}, "C")
	case "shape-rank3":
		a, _ = vMkOperand[int]("a", []int{2, 2, 2}, "C")
		b, _ = vMkOperand[int]("b", []int{4, 2}, "C")
	case "dtype":
		a, _ = vMkOperand[float64]("a", []int{2, 2}, "C")
		b, _ = vMkOperand[float32]("b", []int{2, 2}, "C")
	case "dtype-int":
		a, _ = vMkOperand[int32]("a", []int{3}, "C")
		b, _ = vMkOperand[int64]("b", []int{3}, "C")
	case "dtype-scalar":
		a, _ = vMkOperand[float64]("a", []int{2, 2}, "C")
		b = vNondet[float32]("s")
	case "class-bool":
		a, _ = vMkOperand[bool]("a", []int{2, 2}, "C")
		b, _ = vMkOperand[bool]("b", []int{2, 2}, "C")
	case "class-string":
		a, _ = vMkOperand[string]("a", []int{2}, "C")
		b, _ = vMkOperand[string]("b", []int{2}, "C")
	}
	var err error
	pan := vCatch(func() { _, err = vCallBin(op, vCfgStr("api"), a, b) })
	vReach("C06.Refuse")
	vAssert(!pan, "refuse-no-panic")
	if !pan {
		vAssert(err != nil, "refuse")
	}
}

func vC06Unchanged[T vNum](t *Dense, want []T, id string) {
	got := vSnapshot[T](t)
	for k := range want {
		vAssert(vSameBits(got[k], want[k]), id)
	}
}
