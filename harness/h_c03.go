package tensor

// C03 - transposition is a pure permutation of axes.

func init() {
	vHarnesses["vhC03Prog"] = vhC03Prog
}

func vhC03Prog() {
	vDispatch(vCfgStr("dtype"), vBodies{b: vC03Prog[bool], i: vC03Prog[int], i8: vC03Prog[int8], i16: vC03Prog[int16], i32: vC03Prog[int32], f32: vC03Prog[float32], f64: vC03Prog[float64],
		c64: vC03Prog[complex64], c128: vC03Prog[complex128], str: vC03Prog[string], u8: vC03Prog[uint8], u16: vC03Prog[uint16]})
}

// vPermApply: logical content and shape after transposing by p (res.shape[i] = shape[p[i]], res[c] = src[d], d[p[i]] = c[i]).
func vPermApply[T vScalar](want []T, shape []int, p []int) ([]T, []int) {
	ns := make([]int, len(shape))
	for i := range p {
		ns[i] = shape[p[i]]
	}
	nw := make([]T, len(want))
	vForCoords(ns, func(c []int) {
		d := make([]int, len(c))
		for i := range p {
			d[p[i]] = c[i]
		}
		nw[vRowRank(ns, c)] = want[vRowRank(shape, d)]
	})
	return nw, ns
}

func vIsPerm(p []int, n int) bool {
	if len(p) != n {
		return false
	}
	seen := make([]bool, n)
	for _, x := range p {
		if x < 0 || x >= n || seen[x] {
			return false
		}
		seen[x] = true
	}
	return true
}

// vSymAxes returns a symbolic axes vector (each entry in [-1, rank]) and, after the call that consumed it
// succeeded, vConcAxes concretises it (one path per feasible permutation).
func vSymAxes(name string, rank int) []int {
	p := vNondetSlice[int](name, rank)
	for i := range p {
		vAssume(p[i] >= -1)
		vAssume(p[i] <= rank)
	}
	return p
}

func vConcAxes(p []int) []int {
	q := make([]int, len(p))
	for i := range p {
		q[i] = vSplit(p[i], -1, len(p))
	}
	return q
}

func vCheckAll[T vScalar](t *Dense, want []T, shape []int, id string, kf string, region bool) {
	ts := []int(t.Shape())
	same := len(ts) == len(shape)
	if same {
		for i := range ts {
			if ts[i] != shape[i] {
				same = false
			}
		}
	}
	vAssertKF(same, id+"-shape", kf, region)
	if !same {
		return
	}
	vForCoords(shape, func(c []int) {
		var x interface{}
		var err error
		p := vCatch(func() { x, err = t.At(c...) })
		vAssertKF(vAnd(!p, err == nil), id+"-readable", kf, region)
		if p || err != nil {
			return
		}
		vAssertKF(vSameBits(x.(T), want[vRowRank(shape, c)]), id+"-elem", kf, region)
	})
}

func vC03Prog[T vScalar]() {
	shape := vCfgInts("shape")
	base := vCfgStr("base") // C | F | S
	prog := vCfgStr("prog")
	rank := len(shape)
	t, want := vMkOperand[T]("e", shape, base)
	want0, shape0 := want, vCopyInts(shape)
	lazy := false        // a lazy transpose is pending
	var pend []int       // permutation pending (relative to the last physical state)
	wantP, shapeP := want, vCopyInts(shape) // logical content/shape at the last physical state
	// known finding: physically transposing a column-major tensor moves the data in row-major iteration order
	kfColX := false
	// known finding (C20): the in-place transposition build panics (transposeIndex: ItoL failure) when the tensor's
	// strides before the move are not canonical row-major strides (sliced views and their clones, column-major tensors)
	kfInpl := vHasTag("inplacetranspose") && (base == "S" || base == "F")
	nT := 0
	for _, op := range prog {
		switch op {
		case 'T', 'D': // lazy transpose by symbolic axes / by the default reversal
			var p []int
			var err error
			var pan bool
			if op == 'T' {
				nT++
				sp := vSymAxes("p"+vItoa(nT), rank)
				pan = vCatch(func() { err = t.T(sp...) })
				p = vConcAxes(sp)
				if pan {
					vAssertKF(!vIsPerm(p, rank), "T-no-panic", "KF-C20-inplace-noncanonical", kfInpl && lazy) // only permutations are inside the statement
					vReach("C03.Prog")
					return
				}
			} else {
				pan = vCatch(func() { err = t.T() })
				vAssertKF(!pan, "T-no-panic", "KF-C20-inplace-noncanonical", kfInpl && lazy)
				if pan {
					return
				}
				p = make([]int, rank)
				for i := range p {
					p[i] = rank - 1 - i
				}
			}
			if !vIsPerm(p, rank) {
				// invalid axes are outside the statement (it quantifies over permutations): nothing is asserted
				vReach("C03.Prog")
				return
			}
			vAssert(err == nil, "valid-axes-accepted")
			if err != nil {
				return
			}
			if lazy {
				// composing two lazy transposes: the library's shortcut compares shapes, not permutations
				comp := make([]int, rank)
				for i := range p {
					comp[i] = pend[p[i]]
				}
				ident := true
				for i := range comp {
					if comp[i] != i {
						ident = false
					}
				}
				_, cs := vPermApply(wantP, shapeP, comp)
				seq := true
				for i := range cs {
					if cs[i] != shapeP[i] {
						seq = false
					}
				}
				_ = seq
				_ = ident
				if base == "F" {
					kfColX = true // composing two lazy transposes moves the data
				}
				pend = comp
			} else {
				pend = vCopyInts(p)
			}
			want, shape = vPermApply(want, shape, p)
			lazy = true
			// identity permutation is a no-op (no pending transpose)
		case 'U':
			t.UT()
			if lazy {
				want, shape = wantP, vCopyInts(shapeP)
				lazy = false
			}
		case 'X':
			if base == "F" && lazy {
				kfColX = true
			}
			var err error
			pan := vCatch(func() { err = t.Transpose() })
			vAssertKF2(vAnd(!pan, err == nil), "Transpose-ok", "KF-C03-colmajorX", kfColX, "KF-C20-inplace-noncanonical", kfInpl && lazy)
			if pan || err != nil {
				return
			}
			lazy = false
			wantP, shapeP = want, vCopyInts(shape)
			// storage is in the logical order of the transposed tensor (its own data order)
			if vCfgInt("storage") == 1 {
				raw, ok := t.Data().([]T)
				vAssert(ok, "storage-type")
				if ok && len(raw) == len(want) {
					sh := shape
					vForCoords(sh, func(c []int) {
						k := vRowRank(sh, c)
						if base == "F" {
							k = vColRank(sh, c)
						}
						vAssertKF(vSameBits(raw[k], want[vRowRank(sh, c)]), "storage-order", "KF-C03-colmajorX", kfColX)
					})
				}
			}
		case 'M':
			m := t.Materialize().(*Dense)
			vCheckAll(m, want, shape, "materialize", "KF-C03-colmajorX", kfColX)
		case 'S', 'Z': // SafeT with symbolic axes / tensor.T
			nT++
			sp := vSymAxes("p"+vItoa(nT), rank)
			var r *Dense
			var err error
			var pan bool
			if op == 'S' {
				pan = vCatch(func() { r, err = t.SafeT(sp...) })
			} else {
				pan = vCatch(func() {
					var rt Tensor
					rt, err = vApiT(t, sp...)
					if err == nil {
						r = rt.(*Dense)
					}
				})
			}
			p := vConcAxes(sp)
			if pan {
				vAssert(!vIsPerm(p, rank), "SafeT-no-panic")
				vReach("C03.Prog")
				return
			}
			if !vIsPerm(p, rank) {
				vReach("C03.Prog")
				return
			}
			vAssert(err == nil, "valid-axes-accepted")
			if err != nil {
				return
			}
			w2, s2 := vPermApply(want, shape, p)
			vCheckAll(r, w2, s2, "safe", "KF-C03-colmajorX", kfColX)
			vAssert(!vSameBacking(r.Data(), t.Data()), "safe-no-alias")
			// the copy's undo restores the source's view
			if vCfgInt("safeut") == 1 {
				r.UT()
				vCheckAll(r, want, shape, "safe-undo", "KF-C03-colmajorX", kfColX)
			}
			// source unchanged: checked at the end by the common check below
		case 'R': // RollAxis(axis, start, false) with symbolic arguments
			ax := vNondet[int]("axis")
			st := vNondet[int]("start")
			vAssume(ax >= -1)
			vAssume(ax <= rank+1)
			vAssume(st >= -1)
			vAssume(st <= rank+1)
			var err error
			pan := vCatch(func() { _, err = t.RollAxis(ax, st, false) })
			vAssert(!pan, "RollAxis-no-panic")
			if pan {
				return
			}
			a := vSplit(ax, -1, rank+1)
			s := vSplit(st, -1, rank+1)
			okArgs := a >= 0 && a < rank && s >= 0 && s <= rank
			if !okArgs {
				vReach("C03.Prog")
				return
			}
			vAssert(err == nil, "rollaxis-accepted")
			if err != nil {
				return
			}
			// numpy.rollaxis
			if a < s {
				s--
			}
			p := make([]int, 0, rank)
			for i := 0; i < rank; i++ {
				if i != a {
					p = append(p, i)
				}
			}
			q := make([]int, 0, rank)
			q = append(q, p[:s]...)
			q = append(q, a)
			q = append(q, p[s:]...)
			if lazy {
				comp := make([]int, rank)
				for i := range q {
					comp[i] = pend[q[i]]
				}
				pend = comp
				if base == "F" {
					kfColX = true
				}
			} else {
				pend = vCopyInts(q)
			}
			want, shape = vPermApply(want, shape, q)
			ident := true
			for i := range q {
				if q[i] != i {
					ident = false
				}
			}
			if !ident {
				lazy = true
			}
		}
	}
	vReach("C03.Prog")
	vCheckAll(t, want, shape, "final", "KF-C03-colmajorX", kfColX)
	_ = want0
	_ = shape0
}
