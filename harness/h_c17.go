package tensor

// C17 - cross-type lemmas: an operation on operands representable in two element types gives results that agree
// after conversion whenever the wider result is representable in the narrower type.

func init() {
	vHarnesses["vhC17Cross"] = vhC17Cross
}

type vIntT interface {
	~int | ~int8 | ~int16 | ~int32 | ~int64 | ~uint | ~uint8 | ~uint16 | ~uint32 | ~uint64
}

func vC17CrossInt[S vIntT, L vIntT]() {
	op := vCfgStr("op")
	x := vNondet[S]("x")
	y := vNondet[S]("y")
	lx, ly := L(x), L(y)
	var rs S
	var rl L
	switch op {
	case "Add":
		rs, rl = x+y, lx+ly
	case "Sub":
		rs, rl = x-y, lx-ly
	case "Mul":
		rs, rl = x*y, lx*ly
	case "Div":
		vAssume(y != 0)
		rs, rl = x/y, lx/ly
	case "Mod":
		vAssume(y != 0)
		rs, rl = x%y, lx%ly
	}
	vReach("C17.Cross")
	representable := L(S(rl)) == rl
	vAssert(vImplies(representable, L(rs) == rl), "agree-when-representable")
	// comparisons agree unconditionally (conversion to the wider type preserves order)
	vAssert((x < y) == (lx < ly), "cmp-lt")
	vAssert((x == y) == (lx == ly), "cmp-eq")
}

func vC17CrossFloat() {
	op := vCfgStr("op")
	x := vNondet[float32]("x")
	y := vNondet[float32]("y")
	lx, ly := float64(x), float64(y)
	var rs float32
	var rl float64
	switch op {
	case "Add":
		rs, rl = x+y, lx+ly
	case "Sub":
		rs, rl = x-y, lx-ly
	case "Mul":
		rs, rl = x*y, lx*ly
	}
	vReach("C17.Cross")
	representable := vAnd(float64(float32(rl)) == rl, !vIsNaN(rl))
	vAssert(vImplies(representable, float64(rs) == rl), "agree-when-representable")
	vAssert(vImplies(vAnd(!vIsNaN(lx), !vIsNaN(ly)), (x < y) == (lx < ly)), "cmp-lt")
}

func vhC17Cross() {
	switch vCfgStr("pair") {
	case "i8-i16":
		vC17CrossInt[int8, int16]()
	case "i8-i32":
		vC17CrossInt[int8, int32]()
	case "i8-i64":
		vC17CrossInt[int8, int64]()
	case "i16-i32":
		vC17CrossInt[int16, int32]()
	case "i16-i64":
		vC17CrossInt[int16, int64]()
	case "i32-i64":
		vC17CrossInt[int32, int64]()
	case "i32-int":
		vC17CrossInt[int32, int]()
	case "u8-u16":
		vC17CrossInt[uint8, uint16]()
	case "u8-u32":
		vC17CrossInt[uint8, uint32]()
	case "u8-u64":
		vC17CrossInt[uint8, uint64]()
	case "u16-u32":
		vC17CrossInt[uint16, uint32]()
	case "u16-u64":
		vC17CrossInt[uint16, uint64]()
	case "u32-u64":
		vC17CrossInt[uint32, uint64]()
	case "u32-uint":
		vC17CrossInt[uint32, uint]()
	case "f32-f64":
		vC17CrossFloat()
	}
}
