package tensor

// Harness support library. This file is injected into package tensor as an overlay
// (/repo/zz_verif_vlib.go). Under gosym the v* primitives are intercepted by name; the
// bodies below are the native semantics used for replay and translator validation.

import (
	"encoding/json"
	"fmt"
	"math"
	"os"
	"reflect"
	"strconv"
	"strings"
	"unsafe"
)

type vScalar interface {
	~bool | ~int | ~int8 | ~int16 | ~int32 | ~int64 | ~uint | ~uint8 | ~uint16 | ~uint32 | ~uint64 | ~uintptr |
		~float32 | ~float64 | ~complex64 | ~complex128 | ~string
}

type vReplayFile struct {
	Harness string                 `json:"harness"`
	Cfg     map[string]interface{} `json:"cfg"`
	Model   map[string]string      `json:"model"`
	Assert  string                 `json:"assert"`
	KFOpen  []string               `json:"kf_open"`
}

var vRF vReplayFile
var vFailures []string
var vObserved []string
var vHarnesses = map[string]func(){}

func vLoadReplay(path string) error {
	b, err := os.ReadFile(path)
	if err != nil {
		return err
	}
	vRF = vReplayFile{}
	vFailures = nil
	vObserved = nil
	return json.Unmarshal(b, &vRF)
}

func vModelBits(name string) (uint64, bool) {
	lit, ok := vRF.Model[name]
	if !ok {
		return 0, false
	}
	if i := strings.Index(lit, ":"); i >= 0 {
		lit = lit[i+1:]
	}
	b, err := strconv.ParseUint(lit, 10, 64)
	if err != nil {
		panic("bad model literal " + lit)
	}
	return b, true
}

// vNondet returns an arbitrary value of type T (symbolic under gosym; from the model natively).
func vNondet[T vScalar](name string) T {
	var z T
	switch p := any(&z).(type) {
	case *complex64:
		re, _ := vModelBits(name + "_re")
		im, _ := vModelBits(name + "_im")
		*p = complex(math.Float32frombits(uint32(re)), math.Float32frombits(uint32(im)))
		return z
	case *complex128:
		re, _ := vModelBits(name + "_re")
		im, _ := vModelBits(name + "_im")
		*p = complex(math.Float64frombits(re), math.Float64frombits(im))
		return z
	case *string:
		*p = vRF.Model[name]
		return z
	}
	bits, _ := vModelBits(name)
	rv := reflect.ValueOf(&z).Elem()
	switch rv.Kind() {
	case reflect.Bool:
		rv.SetBool(bits != 0)
	case reflect.Int, reflect.Int8, reflect.Int16, reflect.Int32, reflect.Int64:
		w := uint(rv.Type().Size() * 8)
		rv.SetInt(int64(bits<<(64-w)) >> (64 - w))
	case reflect.Uint, reflect.Uint8, reflect.Uint16, reflect.Uint32, reflect.Uint64, reflect.Uintptr:
		rv.SetUint(bits)
	case reflect.Float32:
		rv.SetFloat(float64(math.Float32frombits(uint32(bits))))
	case reflect.Float64:
		rv.SetFloat(math.Float64frombits(bits))
	}
	return z
}

type vAssumeFailed struct{}

func vAssume(b bool) {
	if !b {
		panic(vAssumeFailed{})
	}
}

func vAssert(b bool, id string) {
	if !b {
		vFailures = append(vFailures, id)
	}
}

// vAssertKF asserts b; kf names a known finding whose region (a predicate over the harness inputs)
// is excluded while the finding is open.
func vAssertKF(b bool, id string, kf string, region bool) {
	if !b {
		if region && vKFOpen(kf) {
			vFailures = append(vFailures, id+"@"+kf)
		} else {
			vFailures = append(vFailures, id)
		}
	}
}

func vAssertKF2(b bool, id string, kf1 string, r1 bool, kf2 string, r2 bool) {
	if !b {
		switch {
		case r1 && vKFOpen(kf1):
			vFailures = append(vFailures, id+"@"+kf1)
		case r2 && vKFOpen(kf2):
			vFailures = append(vFailures, id+"@"+kf2)
		default:
			vFailures = append(vFailures, id)
		}
	}
}

func vAssertKF3(b bool, id string, kf1 string, r1 bool, kf2 string, r2 bool, kf3 string, r3 bool) {
	if !b {
		switch {
		case r1 && vKFOpen(kf1):
			vFailures = append(vFailures, id+"@"+kf1)
		case r2 && vKFOpen(kf2):
			vFailures = append(vFailures, id+"@"+kf2)
		case r3 && vKFOpen(kf3):
			vFailures = append(vFailures, id+"@"+kf3)
		default:
			vFailures = append(vFailures, id)
		}
	}
}

func vKFOpen(kf string) bool {
	for _, k := range vRF.KFOpen {
		if k == kf {
			return true
		}
	}
	return false
}

func vReach(id string) {}

func vCfgInt(key string) int {
	v, ok := vRF.Cfg[key]
	if !ok {
		return 0 // absent keys read as 0
	}
	return int(v.(float64))
}

func vCfgStr(key string) string {
	v, ok := vRF.Cfg[key]
	if !ok {
		return ""
	}
	return fmt.Sprint(v)
}

func vCfgInts(key string) []int {
	v, ok := vRF.Cfg[key]
	if !ok {
		return nil
	}
	var r []int
	l, _ := v.([]interface{})
	for _, e := range l {
		r = append(r, int(e.(float64)))
	}
	return r
}

func vIte[T any](c bool, a, b T) T {
	if c {
		return a
	}
	return b
}
func vAnd(a, b bool) bool     { return a && b }
func vOr(a, b bool) bool      { return a || b }
func vNot(a bool) bool        { return !a }
func vImplies(a, b bool) bool { return !a || b }
func vSymbolic() bool         { return false }

func vSplit(x, lo, hi int) int {
	vAssume(lo <= x && x <= hi)
	return x
}

// vSameBits: bit equality for scalars (NaN == NaN, +0 != -0); == for everything else.
func vSameBits(a, b interface{}) bool {
	switch x := a.(type) {
	// (floats: the same bit pattern, or both NaN - the SMT floating-point theory has one NaN, and natively the payload/sign of a
	// NaN produced from two NaN operands depends on the operand order the compiler happened to choose)
	case float32:
		y, ok := b.(float32)
		return ok && (math.Float32bits(x) == math.Float32bits(y) || (x != x && y != y))
	case float64:
		y, ok := b.(float64)
		return ok && (math.Float64bits(x) == math.Float64bits(y) || (x != x && y != y))
	case complex64:
		y, ok := b.(complex64)
		return ok && vSameBits(real(x), real(y)) && vSameBits(imag(x), imag(y))
	case complex128:
		y, ok := b.(complex128)
		return ok && vSameBits(real(x), real(y)) && vSameBits(imag(x), imag(y))
	}
	return a == b
}

func vSameBacking(a, b interface{}) bool {
	av, bv := reflect.ValueOf(a), reflect.ValueOf(b)
	if av.Kind() != reflect.Slice || bv.Kind() != reflect.Slice || av.Cap() == 0 || bv.Cap() == 0 {
		return false
	}
	as, ae := av.Pointer(), av.Pointer()+uintptr(av.Cap())*av.Type().Elem().Size()
	bs, be := bv.Pointer(), bv.Pointer()+uintptr(bv.Cap())*bv.Type().Elem().Size()
	return as < be && bs < ae
}

func vObserve(tag string, v interface{}) {
	vObserved = append(vObserved, tag+"="+vShow(v))
}

func vShow(v interface{}) string {
	switch x := v.(type) {
	case nil:
		return "nil"
	case error:
		return "error"
	case bool:
		if x {
			return "b:1"
		}
		return "b:0"
	case string:
		return strconv.Quote(x)
	case float32:
		return fmt.Sprintf("f32:%d", math.Float32bits(x))
	case float64:
		return fmt.Sprintf("f64:%d", math.Float64bits(x))
	case complex64:
		return "(" + vShow(real(x)) + "," + vShow(imag(x)) + ")"
	case complex128:
		return "(" + vShow(real(x)) + "," + vShow(imag(x)) + ")"
	}
	rv := reflect.ValueOf(v)
	switch rv.Kind() {
	case reflect.Int, reflect.Int8, reflect.Int16, reflect.Int32, reflect.Int64:
		w := uint(rv.Type().Size() * 8)
		return fmt.Sprintf("u%d:%d", w, uint64(rv.Int())&(^uint64(0)>>(64-w)))
	case reflect.Uint, reflect.Uint8, reflect.Uint16, reflect.Uint32, reflect.Uint64, reflect.Uintptr:
		return fmt.Sprintf("u%d:%d", rv.Type().Size()*8, rv.Uint())
	case reflect.Slice:
		if rv.IsNil() || rv.Len() == 0 && rv.Cap() == 0 {
			return "[]"
		}
		return fmt.Sprintf("[len %d]", rv.Len())
	}
	return fmt.Sprintf("%T", v)
}

// uninterpreted functions (natively: some fixed function)
// natively an arbitrary fixed non-identity function stands in for the uninterpreted one
// vUF1: an arbitrary (uninterpreted) function of x. Natively: the interpretation the solver chose for this counterexample if
// the replay file carries one for this argument ("uf|<name>|<arg>"), otherwise a fixed non-trivial stand-in.
func vUF1[T vScalar](name string, x T) T {
	if tag, bits, ok := vScalarBits(x); ok {
		if lit, ok := vRF.Model["uf|uf_"+name+"_"+tag+"|"+tag+":"+strconv.FormatUint(bits, 10)]; ok {
			if r, ok := vScalarFromLit[T](lit); ok {
				return r
			}
		}
	}
	return vUFmix(x, x)
}

func vScalarBits(x interface{}) (string, uint64, bool) {
	switch v := x.(type) {
	case float64:
		return "f64", math.Float64bits(v), true
	case float32:
		return "f32", uint64(math.Float32bits(v)), true
	case int:
		return "u64", uint64(v), true
	case int64:
		return "u64", uint64(v), true
	case uint:
		return "u64", uint64(v), true
	case uint64:
		return "u64", v, true
	case int32:
		return "u32", uint64(uint32(v)), true
	case uint32:
		return "u32", uint64(v), true
	case int16:
		return "u16", uint64(uint16(v)), true
	case uint16:
		return "u16", uint64(v), true
	case int8:
		return "u8", uint64(uint8(v)), true
	case uint8:
		return "u8", uint64(v), true
	}
	return "", 0, false
}

func vScalarFromLit[T vScalar](lit string) (T, bool) {
	var z T
	i := strings.Index(lit, ":")
	if i < 0 {
		return z, false
	}
	bits, err := strconv.ParseUint(lit[i+1:], 10, 64)
	if err != nil {
		return z, false
	}
	rv := reflect.ValueOf(&z).Elem()
	switch rv.Kind() {
	case reflect.Int, reflect.Int8, reflect.Int16, reflect.Int32, reflect.Int64:
		w := uint(rv.Type().Size() * 8)
		rv.SetInt(int64(bits<<(64-w)) >> (64 - w))
	case reflect.Uint, reflect.Uint8, reflect.Uint16, reflect.Uint32, reflect.Uint64:
		rv.SetUint(bits)
	case reflect.Float32:
		rv.SetFloat(float64(math.Float32frombits(uint32(bits))))
	case reflect.Float64:
		rv.SetFloat(math.Float64frombits(bits))
	default:
		return z, false
	}
	return z, true
}
func vUF2[T vScalar](name string, x, y T) T { return vUFmix(x, y) }

func vUFmix[T vScalar](x, y T) T {
	var r T
	switch p := any(&r).(type) {
	case *int:
		*p = any(x).(int)*3 + any(y).(int)*5 + 1
	case *int8:
		*p = any(x).(int8)*3 + any(y).(int8)*5 + 1
	case *int16:
		*p = any(x).(int16)*3 + any(y).(int16)*5 + 1
	case *int32:
		*p = any(x).(int32)*3 + any(y).(int32)*5 + 1
	case *int64:
		*p = any(x).(int64)*3 + any(y).(int64)*5 + 1
	case *uint:
		*p = any(x).(uint)*3 + any(y).(uint)*5 + 1
	case *uint8:
		*p = any(x).(uint8)*3 + any(y).(uint8)*5 + 1
	case *uint16:
		*p = any(x).(uint16)*3 + any(y).(uint16)*5 + 1
	case *uint32:
		*p = any(x).(uint32)*3 + any(y).(uint32)*5 + 1
	case *uint64:
		*p = any(x).(uint64)*3 + any(y).(uint64)*5 + 1
	case *float32:
		// bit-level (multiplication by an odd constant is a bijection on the bit patterns; the result is kept finite): a
		// numeric formula such as 3x+1 maps every tiny x to the same value and would make replays of float models pass
		b := math.Float32bits(any(x).(float32))*2654435761 + math.Float32bits(any(y).(float32))*40503 + 1
		if b&0x7f800000 == 0x7f800000 {
			b ^= 0x00800000
		}
		*p = math.Float32frombits(b)
	case *float64:
		b := math.Float64bits(any(x).(float64))*0x9E3779B97F4A7C15 + math.Float64bits(any(y).(float64))*0xC2B2AE3D27D4EB4F + 1
		if b&0x7ff0000000000000 == 0x7ff0000000000000 {
			b ^= 0x0010000000000000
		}
		*p = math.Float64frombits(b)
	default:
		r = x
	}
	return r
}

func vIsNaN(x float64) bool { return x != x }

// vCatch runs f and reports whether it panicked (assumption failures propagate).
func vCatch(f func()) (panicked bool) {
	defer func() {
		if r := recover(); r != nil {
			if _, ok := r.(vAssumeFailed); ok {
				panic(r)
			}
			panicked = true
		}
	}()
	f()
	return false
}

func vItoa(i int) string {
	if i == 0 {
		return "0"
	}
	neg := i < 0
	if neg {
		i = -i
	}
	s := ""
	for i > 0 {
		s = string(rune('0'+i%10)) + s
		i /= 10
	}
	if neg {
		s = "m" + s
	}
	return s
}

func vNondetSlice[T vScalar](name string, n int) []T {
	r := make([]T, n)
	for i := range r {
		r[i] = vNondet[T](name + "_" + vItoa(i))
	}
	return r
}

// vSel reads xs[i] (i must be in range; symbolic i becomes an if-then-else chain, no fork).
func vSel[T vScalar](xs []T, i int) T { return xs[i] }

func vProd(s []int) int {
	p := 1
	for _, d := range s {
		p *= d
	}
	return p
}

var _ = unsafe.Pointer(nil)

// vHasTag tells whether the instance is built with the given build tag (cfg "tags", comma separated).
func vHasTag(tag string) bool {
	tags := vCfgStr("tags")
	for len(tags) > 0 {
		i := 0
		for i < len(tags) && tags[i] != ',' {
			i++
		}
		if tags[:i] == tag {
			return true
		}
		if i == len(tags) {
			break
		}
		tags = tags[i+1:]
	}
	return false
}
