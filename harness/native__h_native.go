package native

// Harnesses for the conversions of package native (C04: "native-slice and matrix conversions preserve the same
// elements"; C17: "native conversions x all element types"). They live in package native (overlay
// /repo/native/zz_verif_native__h_native.go) and reach the harness primitives through the exported shims of
// harness/h_export.go.

import (
	. "gorgonia.org/tensor"
)

func init() {
	VRegister("native.VhNativeB", VhNativeB)
	VRegister("native.VhNativeI", VhNativeI)
	VRegister("native.VhNativeI8", VhNativeI8)
	VRegister("native.VhNativeI16", VhNativeI16)
	VRegister("native.VhNativeI32", VhNativeI32)
	VRegister("native.VhNativeI64", VhNativeI64)
	VRegister("native.VhNativeU", VhNativeU)
	VRegister("native.VhNativeU8", VhNativeU8)
	VRegister("native.VhNativeU16", VhNativeU16)
	VRegister("native.VhNativeU32", VhNativeU32)
	VRegister("native.VhNativeU64", VhNativeU64)
	VRegister("native.VhNativeF32", VhNativeF32)
	VRegister("native.VhNativeF64", VhNativeF64)
	VRegister("native.VhNativeC64", VhNativeC64)
	VRegister("native.VhNativeC128", VhNativeC128)
	VRegister("native.VhNativeStr", VhNativeStr)
}

func VhNativeB()    { vnRun[bool](VectorB, MatrixB, Tensor3B, SelectB) }
func VhNativeI()    { vnRun[int](VectorI, MatrixI, Tensor3I, SelectI) }
func VhNativeI8()   { vnRun[int8](VectorI8, MatrixI8, Tensor3I8, SelectI8) }
func VhNativeI16()  { vnRun[int16](VectorI16, MatrixI16, Tensor3I16, SelectI16) }
func VhNativeI32()  { vnRun[int32](VectorI32, MatrixI32, Tensor3I32, SelectI32) }
func VhNativeI64()  { vnRun[int64](VectorI64, MatrixI64, Tensor3I64, SelectI64) }
func VhNativeU()    { vnRun[uint](VectorU, MatrixU, Tensor3U, SelectU) }
func VhNativeU8()   { vnRun[uint8](VectorU8, MatrixU8, Tensor3U8, SelectU8) }
func VhNativeU16()  { vnRun[uint16](VectorU16, MatrixU16, Tensor3U16, SelectU16) }
func VhNativeU32()  { vnRun[uint32](VectorU32, MatrixU32, Tensor3U32, SelectU32) }
func VhNativeU64()  { vnRun[uint64](VectorU64, MatrixU64, Tensor3U64, SelectU64) }
func VhNativeF32()  { vnRun[float32](VectorF32, MatrixF32, Tensor3F32, SelectF32) }
func VhNativeF64()  { vnRun[float64](VectorF64, MatrixF64, Tensor3F64, SelectF64) }
func VhNativeC64()  { vnRun[complex64](VectorC64, MatrixC64, Tensor3C64, SelectC64) }
func VhNativeC128() { vnRun[complex128](VectorC128, MatrixC128, Tensor3C128, SelectC128) }
func VhNativeStr()  { vnRun[string](VectorStr, MatrixStr, Tensor3Str, SelectStr) }

// vnSame compares two element values by identity of representation (NaN equals NaN of the same bits is not needed here:
// a conversion copies no value, it aliases it, so == on the symbolic value is exact except for NaN, which is compared
// through x != x on both sides).
func vnSame[T VScalar](a, b T) bool {
	if a != a && b != b {
		return true
	}
	return a == b
}

// vnRun: build a tensor of the configured shape and layout over symbolic elements, convert it with the configured
// conversion, and require (1) a contiguous row-major tensor of the matching rank converts without error and (2) every
// conversion that reports success has the tensor's nested lengths and, at every position, the element with the same
// row-major rank, and no row but the last has capacity beyond its length (C04: a write - here an append - through a
// conversion's row must not reach elements outside it). Refusals (wrong rank, axis out of range, layouts that need an iterator) are accepted and not demanded.
func vnRun[T VScalar](vec func(*Dense) ([]T, error), mat func(*Dense) ([][]T, error), t3 func(*Dense) ([][][]T, error), sel func(*Dense, int) ([][]T, error)) {
	shape := VCfgInts("shape")
	conv := VCfgStr("conv")
	base := VCfgStr("base")
	rank := len(shape)
	t, want := VMkOperand[T]("e", shape, base)
	n := VProd(shape)
	if len(conv) > 1 && conv[0] == 'g' {
		// the reflect-based generic conversions of generic.go, brought to the typed signatures
		conv = conv[1:]
		vec = func(t *Dense) ([]T, error) {
			v, err := Vector(t)
			if err != nil {
				return nil, err
			}
			return v.([]T), nil
		}
		mat = func(t *Dense) ([][]T, error) {
			v, err := Matrix(t)
			if err != nil {
				return nil, err
			}
			return v.([][]T), nil
		}
		t3 = func(t *Dense) ([][][]T, error) {
			v, err := Tensor3(t)
			if err != nil {
				return nil, err
			}
			return v.([][][]T), nil
		}
	}
	VReach("native." + VCfgStr("conv"))
	switch conv {
	case "vector":
		var out []T
		var err error
		p := VCatch(func() { out, err = vec(t) })
		VAssert(!p, "no-panic")
		if p {
			return
		}
		if rank == 1 && base == "C" {
			VAssert(err == nil, "converts")
		}
		if err != nil {
			return
		}
		VAssert(len(out) == n, "len")
		if len(out) != n {
			return
		}
		for i := 0; i < n; i++ {
			VAssert(vnSame(out[i], want[i]), "elem")
		}
	case "matrix":
		var out [][]T
		var err error
		p := VCatch(func() { out, err = mat(t) })
		VAssert(!p, "no-panic")
		if p {
			return
		}
		if rank == 2 && base == "C" {
			VAssert(err == nil, "converts")
		}
		if err != nil || rank != 2 {
			return
		}
		VAssert(len(out) == shape[0], "rows")
		if len(out) != shape[0] {
			return
		}
		for i := 0; i < shape[0]; i++ {
			VAssert(len(out[i]) == shape[1], "cols")
			if len(out[i]) != shape[1] {
				return
			}
			VAssert(cap(out[i]) == shape[1] || i == shape[0]-1, "row-cap")
			for j := 0; j < shape[1]; j++ {
				VAssert(vnSame(out[i][j], want[i*shape[1]+j]), "elem")
			}
		}
	case "tensor3":
		var out [][][]T
		var err error
		p := VCatch(func() { out, err = t3(t) })
		VAssert(!p, "no-panic")
		if p {
			return
		}
		if rank == 3 && base == "C" {
			VAssert(err == nil, "converts")
		}
		if err != nil || rank != 3 {
			return
		}
		VAssert(len(out) == shape[0], "layers")
		if len(out) != shape[0] {
			return
		}
		for i := 0; i < shape[0]; i++ {
			VAssert(len(out[i]) == shape[1], "rows")
			if len(out[i]) != shape[1] {
				return
			}
			for j := 0; j < shape[1]; j++ {
				VAssert(len(out[i][j]) == shape[2], "cols")
				if len(out[i][j]) != shape[2] {
					return
				}
				VAssert(cap(out[i][j]) == shape[2] || (i == shape[0]-1 && j == shape[1]-1), "row-cap")
				for k := 0; k < shape[2]; k++ {
					VAssert(vnSame(out[i][j][k], want[(i*shape[1]+j)*shape[2]+k]), "elem")
				}
			}
		}
	case "select":
		axis := VCfgInt("axis")
		var out [][]T
		var err error
		p := VCatch(func() { out, err = sel(t, axis) })
		VAssert(!p, "no-panic")
		if p {
			return
		}
		if base == "C" && (axis < rank || (rank == 0 && axis == 0)) {
			VAssert(err == nil, "converts")
		}
		if err != nil || axis >= rank && !(rank == 0 && axis == 0) {
			return
		}
		// rows = product of the dimensions up to and including the axis; each row is the contiguous block below it
		rows, width := 1, n
		if rank >= 2 {
			rows = VProd(shape[:axis+1])
			width = VProd(shape[axis+1:])
		}
		VAssert(len(out) == rows, "rows")
		if len(out) != rows {
			return
		}
		for r := 0; r < rows; r++ {
			VAssert(len(out[r]) == width, "width")
			if len(out[r]) != width {
				return
			}
			VAssert(cap(out[r]) == width || r == rows-1, "row-cap")
			for c := 0; c < width; c++ {
				VAssert(vnSame(out[r][c], want[r*width+c]), "elem")
			}
		}
	}
}
