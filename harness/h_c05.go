package tensor

// C05 - iterators visit every logical element exactly once, in logical order.

func init() {
	vHarnesses["vhC05Flat"] = vhC05Flat
	vHarnesses["vhC05Masked"] = vhC05Masked
	vHarnesses["vhC05Mult"] = vhC05Mult
	vHarnesses["vhC05Dense"] = vhC05Dense
}

func vUnrank(shape []int, k int) []int {
	c := make([]int, len(shape))
	for i := len(shape) - 1; i >= 0; i-- {
		c[i] = k % shape[i]
		k /= shape[i]
	}
	return c
}

func vDot(c, s []int) int {
	r := 0
	for i := range c {
		r += c[i] * s[i]
	}
	return r
}

// vC05Full drives the iterator through one complete pass and checks every yield against the odometer.
func vC05Full(it Iterator, shape, strides []int, reverse bool, tag string, kf string, region bool) bool {
	size := vProd(shape)
	for k := 0; k < size; k++ {
		var off int
		var err error
		var pan bool
		switch vCfgStr("step") {
		case "valid":
			// an unmasked iterator's NextValid is Next with a skip of one position in the direction of travel
			skip := 0
			pan = vCatch(func() { off, skip, err = it.NextValid() })
			if !pan && err == nil {
				ws := 1
				if reverse {
					ws = -1
				}
				vAssertKF(skip == ws || size == 1, tag+"-skip", kf, region)
			}
		case "validity":
			valid := false
			pan = vCatch(func() { off, valid, err = it.NextValidity() })
			if !pan && err == nil {
				vAssertKF(valid, tag+"-valid", kf, region)
			}
		default:
			pan = vCatch(func() { off, err = it.Next() })
		}
		vAssertKF(vAnd(!pan, err == nil), tag+"-yields", kf, region)
		if pan || err != nil {
			return false
		}
		pos := k
		if reverse {
			pos = size - 1 - k
		}
		vAssertKF(off == vDot(vUnrank(shape, pos), strides), tag+"-yield-k", kf, region)
		if k < size-1 && len(shape) > 0 {
			// the reported coordinate tracks the position: it is the coordinate of the next yield
			npos := pos + 1
			if reverse {
				npos = pos - 1
			}
			want := vUnrank(shape, npos)
			got := it.Coord()
			ok := len(got) == len(want)
			if ok {
				for i := range want {
					ok = vAnd(ok, got[i] == want[i])
				}
			}
			vAssertKF(ok, tag+"-coord", kf, region)
		}
	}
	vAssertKF(it.Done(), tag+"-done", kf, region)
	_, err := it.Next()
	vAssertKF(err != nil, tag+"-exhausted", kf, region)
	return true
}

func vhC05Flat() {
	rank := vCfgInt("rank")
	maxd := vCfgInt("maxdim")
	prog := vCfgStr("prog")
	ones := vCfgInt("ones") == 1
	sd := vNondetSlice[int]("d", rank)
	shape := make([]int, rank)
	for i := range sd {
		shape[i] = vSplit(sd[i], 1, maxd)
	}
	strides := vNondetSlice[int]("s", rank)
	for i := range strides {
		if ones {
			vAssume(strides[i] == 1)
		} else {
			vAssume(strides[i] >= 0)
			vAssume(strides[i] <= 7)
		}
	}
	apShape := Shape(vCopyInts(shape))
	apStrides := vCopyInts(strides)
	ap := MakeAP(apShape, apStrides, 0, 0)
	it := newFlatIterator(&ap)
	size := vProd(shape)
	// known finding: reverse over a vector-like pattern (all strides one) whose non-unit axis is not axis 0
	veclike := 0
	for _, d := range shape {
		if d != 1 {
			veclike++
		}
	}
	allOnes := true
	for i := range strides {
		allOnes = vAnd(allOnes, strides[i] == 1)
	}
	revRegion := vAnd(allOnes, veclike == 1 && rank >= 2 && shape[0] == 1)
	vReach("C05.Flat")
	for _, op := range prog {
		switch op {
		case 'F':
			it.SetForward()
			if !vC05Full(it, shape, strides, false, "fwd", "", false) {
				return
			}
		case 'R':
			it.SetReverse()
			if !vC05Full(it, shape, strides, true, "rev", "KF-C05-rev", revRegion) {
				return
			}
		case 'n': // plain first pass without any Set/Reset call
			if !vC05Full(it, shape, strides, false, "fresh", "", false) {
				return
			}
		case 'p': // a symbolic number of steps, then Reset
			k := vSplit(vNondet[int]("k"), 0, size)
			for j := 0; j < k; j++ {
				it.Next()
			}
			it.Reset()
		case 'x': // Reset after exhaustion
			it.Reset()
		}
	}
}

// vhC05Dense: iterators obtained from real tensors of every layout yield the offsets At uses.
func vhC05Dense() {
	shape := vCfgInts("shape")
	t, _ := vMkOperand[float64]("e", shape, vCfgStr("layout"))
	if vCfgInt("lazyT") == 1 {
		if err := t.T(); err != nil {
			return
		}
	}
	sh := []int(t.Shape())
	st := t.Strides()
	if len(sh) > 0 && len(st) != len(sh) {
		vAssert(false, "strides-arity")
		return
	}
	vReach("C05.Dense")
	it := IteratorFromDense(t)
	revRegion := false
	prog := vCfgStr("prog")
	for _, op := range prog {
		switch op {
		case 'n':
			if !vC05Full(it, sh, st, false, "dense-fresh", "", false) {
				return
			}
		case 'F':
			it.SetForward()
			if !vC05Full(it, sh, st, false, "dense-fwd", "", false) {
				return
			}
		case 'R':
			it.SetReverse()
			if !vC05Full(it, sh, st, true, "dense-rev", "KF-C05-rev", revRegion) {
				return
			}
		}
	}
	// the offsets address the elements At returns (symbolic elements)
	it2 := FlatIteratorFromDense(t)
	k := 0
	for off, err := it2.Next(); err == nil; off, err = it2.Next() {
		x, e2 := t.At(vUnrank(sh, k)...)
		if e2 == nil {
			vAssert(vSameBits(t.Get(off), x), "dense-elem")
		}
		k++
	}
	vAssert(k == vProd(sh), "dense-count")
}

// vhC05Masked: every mask bit symbolic; valid/invalid stepping partitions the positions with the right skip counts.
func vhC05Masked() {
	shape := vCfgInts("shape")
	n := vProd(shape)
	mask := vNondetSlice[bool]("m", n)
	back := make([]float64, n)
	t := New(WithShape(shape...), WithBacking(back, mask))
	mode := vCfgStr("mode") // valid | invalid | validity
	reverse := vCfgInt("reverse") == 1
	it := IteratorFromDense(t)
	_, isMasked := it.(*FlatMaskedIterator)
	vAssert(isMasked, "masked-iterator-selected")
	if reverse {
		it.SetReverse()
	}
	vReach("C05.Masked")
	// positions in iteration order
	pos := -1
	if reverse {
		pos = n
	}
	step := 1
	if reverse {
		step = -1
	}
	for guard := 0; guard <= n+1; guard++ {
		switch mode {
		case "validity":
			i, valid, err := it.NextValidity()
			pos += step
			if pos < 0 || pos >= n {
				vAssert(err != nil, "validity-exhausted")
				return
			}
			vAssert(err == nil, "validity-yields")
			if err != nil {
				return
			}
			vAssert(i == pos, "validity-index")
			vAssert(valid == !mask[pos], "validity-flag")
		default:
			wantValid := mode == "valid"
			var i, skip int
			var err error
			if wantValid {
				i, skip, err = it.NextValid()
			} else {
				i, skip, err = it.NextInvalid()
			}
			vC05MaskedStep(it, mask, n, &pos, step, wantValid, i, skip, err)
			if pos < 0 || pos >= n {
				return
			}
		}
	}
}

// vC05MaskedStep checks one NextValid result (already taken) against the mask.
func vC05MaskedStep(it Iterator, mask []bool, n int, pos *int, step int, wantValid bool, i, skip int, err error) {
	// find the next position with the requested validity
	q := *pos + step
	cnt := 1
	for q >= 0 && q < n {
		if mask[q] == !wantValid {
			break
		}
		q += step
		cnt++
	}
	if q < 0 || q >= n {
		vAssert(err != nil, "step-exhausted")
		*pos = q
		return
	}
	vAssert(err == nil, "step-yields")
	if err != nil {
		*pos = n
		return
	}
	vAssert(i == q, "step-index")
	vAssert(skip == step*cnt, "step-skip")
	*pos = q
}

// vhC05Mult: a multi-iterator over equally shaped tensors yields for each its own flat iterator's offsets.
func vhC05Mult() {
	shape := vCfgInts("shape")
	lays := []string{vCfgStr("la"), vCfgStr("lb"), vCfgStr("lc")}
	var ts []DenseTensor
	var fits []*FlatIterator
	for j, l := range lays {
		if l == "" {
			continue
		}
		t, _ := vMkOperand[float64]("e"+vItoa(j), shape, l)
		ts = append(ts, t)
		fits = append(fits, FlatIteratorFromDense(t))
	}
	it := MultIteratorFromDense(ts...)
	vReach("C05.Mult")
	// region of KF-C05-hash: operands whose strides differ
	differ := false
	for j := 1; j < len(ts); j++ {
		a, b := ts[0].Strides(), ts[j].Strides()
		if len(a) != len(b) {
			differ = true
			continue
		}
		for i := range a {
			if a[i] != b[i] {
				differ = true
			}
		}
	}
	// known finding: BroadcastStrides keeps only strides[0] of a 2-D row vector, so a (1,n) operand whose
	// axis-1 stride is not 1 is walked with stride 1
	rowvec := false
	if len(shape) == 2 && shape[0] == 1 {
		for _, t := range ts {
			if st := t.Strides(); len(st) == 2 && st[1] != 1 {
				rowvec = true
			}
		}
	}
	_ = differ
	n := vProd(shape)
	for k := 0; k < n; k++ {
		_, err := it.Next()
		vAssertKF(err == nil, "mult-yields", "KF-C05-multrowvec", rowvec)
		if err != nil {
			return
		}
		for j := range ts {
			own, e2 := fits[j].Next()
			vAssert(e2 == nil, "own-yields")
			vAssertKF(it.LastIndex(j) == own, "lastindex-j", "KF-C05-multrowvec", rowvec)
		}
	}
	_, err := it.Next()
	vAssertKF(err != nil, "mult-exhausted", "KF-C05-multrowvec", rowvec)
}
