package tensor

// C20 - alternative engines and build configurations are observationally equivalent.
//
// vhC20Diff runs one operation twice on operands built from the same symbolic element values: once with the default
// engine and once with a specialised engine (Float64Engine / Float32Engine), and requires the same outcome (panic / error /
// value), the same identity relation between the returned tensor and the operands/destination, and the same final
// contents of every backing array (result, operands, destination, including the cells outside a view's window).
// The other C20 instances re-run the oracle harnesses of C01/C03/C05/C06/C07/C09 with cfg "engine" (every tensor built by
// vMkOperand then carries that engine) and under the alternative build tags.

func init() {
	vHarnesses["vhC20Diff"] = vhC20Diff
	vHarnesses["vhC20Divmod"] = vhC20Divmod
}

// vEngine returns the engine requested by cfg "engine" ("" = the default engine).
func vEngine() Engine {
	switch vCfgStr("engine") {
	case "f64":
		return Float64Engine{}
	case "f32":
		return Float32Engine{}
	}
	return nil
}

func vEngOpts(e Engine) []ConsOpt {
	if e == nil {
		return nil
	}
	return []ConsOpt{WithEngine(e)}
}

func vPadLen(shape []int, layout string) int {
	if len(shape) == 0 {
		return 0
	}
	ps := vCopyInts(shape)
	last := len(shape) - 1
	switch layout {
	case "S":
		ps[last] = shape[last] + 2
	case "SS":
		ps[last] = 2 * shape[last]
	default:
		return 0
	}
	return vProd(ps)
}

// vMkFrom builds a tensor of the given shape and layout holding `want` (row-major logical order) over engine e and
// returns it together with its whole backing array.
func vMkFrom[T vScalar](want, pad []T, shape []int, layout string, e Engine) (*Dense, []T) {
	return vMkFromM[T](want, pad, nil, nil, shape, layout, e)
}

// vMkFromM is vMkFrom with an optional mask (mwant in logical order, mpad for the cells outside a view's window): the
// mask array is laid out exactly like the data array and handed to WithBacking.
func vMkFromM[T vScalar](want, pad []T, mwant, mpad []bool, shape []int, layout string, e Engine) (*Dense, []T) {
	n := vProd(shape)
	rank := len(shape)
	eo := vEngOpts(e)
	back := func(b []T, mb []bool) ConsOpt {
		if mwant == nil {
			return WithBacking(b)
		}
		return WithBacking(b, mb)
	}
	if rank == 0 {
		b := make([]T, 1)
		b[0] = want[0]
		var mb []bool
		if mwant != nil {
			mb = []bool{mwant[0]}
		}
		return New(append([]ConsOpt{WithShape(), back(b, mb)}, eo...)...), b
	}
	switch layout {
	case "C":
		b := make([]T, n)
		copy(b, want)
		var mb []bool
		if mwant != nil {
			mb = make([]bool, n)
			copy(mb, mwant)
		}
		return New(append([]ConsOpt{WithShape(shape...), back(b, mb)}, eo...)...), b
	case "F":
		b := make([]T, n)
		mb := make([]bool, n)
		vForCoords(shape, func(c []int) {
			b[vColRank(shape, c)] = want[vRowRank(shape, c)]
			if mwant != nil {
				mb[vColRank(shape, c)] = mwant[vRowRank(shape, c)]
			}
		})
		return New(append([]ConsOpt{WithShape(shape...), back(b, mb), AsFortran(nil)}, eo...)...), b
	case "T":
		ps := vReverseInts(shape)
		b := make([]T, n)
		mb := make([]bool, n)
		vForCoords(shape, func(c []int) {
			b[vRowRank(ps, vReverseInts(c))] = want[vRowRank(shape, c)]
			if mwant != nil {
				mb[vRowRank(ps, vReverseInts(c))] = mwant[vRowRank(shape, c)]
			}
		})
		t := New(append([]ConsOpt{WithShape(ps...), back(b, mb)}, eo...)...)
		if rank >= 2 {
			if err := t.T(); err != nil {
				panic("vMkFrom: T failed")
			}
		}
		return t, b
	case "S", "SS":
		ps := vCopyInts(shape)
		last := rank - 1
		var sl Slice
		if layout == "SS" {
			ps[last] = 2 * shape[last]
			sl = S(0, ps[last], 2)
		} else {
			ps[last] = shape[last] + 2
			sl = S(1, 1+shape[last], 1)
		}
		b := make([]T, vProd(ps))
		copy(b, pad)
		mb := make([]bool, vProd(ps))
		copy(mb, mpad)
		vForCoords(shape, func(c []int) {
			pc := vCopyInts(c)
			if layout == "SS" {
				pc[last] = 2 * c[last]
			} else {
				pc[last] = c[last] + 1
			}
			b[vRowRank(ps, pc)] = want[vRowRank(shape, c)]
			if mwant != nil {
				mb[vRowRank(ps, pc)] = mwant[vRowRank(shape, c)]
			}
		})
		p := New(append([]ConsOpt{WithShape(ps...), back(b, mb)}, eo...)...)
		sls := make([]Slice, rank)
		sls[last] = sl
		v, err := p.Slice(sls...)
		if err != nil {
			panic("vMkFrom: Slice failed")
		}
		return v.(*Dense), b
	}
	panic("vMkFrom: unknown layout " + layout)
}

func vhC20Diff() {
	switch vCfgStr("dtype") {
	case "float64":
		vC20Diff[float64]()
	case "float32":
		vC20Diff[float32]()
	default:
		panic("vhC20Diff: dtype")
	}
}

type vC20Out[T vScalar] struct {
	pan        bool
	err        error
	res        Tensor
	scalar     interface{} // Inner
	a, b, d    *Dense
	ra, rb, rd []T
}

func vC20Diff[T float32 | float64]() {
	op := vCfgStr("op")     // Add Sub Mul Div | FMA | FMAScalar | Inner | MatMul | MatVecMul | Outer
	form := vCfgStr("form") // TT | TS | ST (arithmetic only)
	shape := vCfgInts("shape")
	shapeB := vCfgInts("shapeb")
	if shapeB == nil {
		shapeB = shape
	}
	shapeD := vCfgInts("shaped")
	if shapeD == nil {
		shapeD = shape
	}
	api := vCfgStr("api")
	mode := vCfgStr("mode")
	la, lb, ld := vCfgStr("la"), vCfgStr("lb"), vCfgStr("ld")
	if lb == "" {
		lb = "C"
	}
	if ld == "" {
		ld = "C"
	}
	eng := vEngine()
	if eng == nil {
		panic("vhC20Diff needs cfg engine")
	}
	aw := vNondetSlice[T]("a", vProd(shape))
	ap := vNondetSlice[T]("a_pad", vPadLen(shape, la))
	bw := vNondetSlice[T]("b", vProd(shapeB))
	bp := vNondetSlice[T]("b_pad", vPadLen(shapeB, lb))
	dw := vNondetSlice[T]("d", vProd(shapeD))
	dp := vNondetSlice[T]("d_pad", vPadLen(shapeD, ld))
	s := vNondet[T]("s")

	run := func(e Engine) (o vC20Out[T]) {
		o.a, o.ra = vMkFrom[T](aw, ap, shape, la, e)
		needB := form == "TT" || op == "FMA" || op == "Inner" || op == "MatMul" || op == "MatVecMul" || op == "Outer"
		if needB {
			o.b, o.rb = vMkFrom[T](bw, bp, shapeB, lb, e)
		}
		var opts []FuncOpt
		switch mode {
		case "unsafe":
			opts = append(opts, UseUnsafe())
		case "reuse":
			o.d, o.rd = vMkFrom[T](dw, dp, shapeD, ld, e)
			opts = append(opts, WithReuse(o.d))
		case "incr":
			o.d, o.rd = vMkFrom[T](dw, dp, shapeD, ld, e)
			opts = append(opts, WithIncr(o.d))
		case "reuseA":
			opts = append(opts, WithReuse(o.a))
		}
		switch op {
		case "FMA":
			o.d, o.rd = vMkFrom[T](dw, dp, shapeD, ld, e)
			o.pan = vCatch(func() { o.res, o.err = FMA(o.a, o.b, o.d) })
		case "FMAScalar":
			o.d, o.rd = vMkFrom[T](dw, dp, shapeD, ld, e)
			o.pan = vCatch(func() { o.res, o.err = FMA(o.a, s, o.d) })
		case "Inner":
			o.pan = vCatch(func() { o.scalar, o.err = o.a.Inner(o.b) })
		case "MatMul":
			o.pan = vCatch(func() { o.res, o.err = MatMul(o.a, o.b, opts...) })
		case "MatVecMul":
			o.pan = vCatch(func() { o.res, o.err = MatVecMul(o.a, o.b, opts...) })
		case "Outer":
			o.pan = vCatch(func() { o.res, o.err = Outer(o.a, o.b, opts...) })
		default:
			switch form {
			case "TT":
				o.pan = vCatch(func() { o.res, o.err = vCallBin(op, api, o.a, o.b, opts...) })
			case "TS":
				o.pan = vCatch(func() { o.res, o.err = vCallBin(op, api, o.a, s, opts...) })
			case "ST":
				o.pan = vCatch(func() { o.res, o.err = vCallBin(op, api, s, o.a, opts...) })
			}
		}
		return
	}
	r0 := run(nil)
	r1 := run(eng)
	vReach("C20.Diff")

	mismatch := vCfgStr("engine") == "f64" != (vCfgStr("dtype") == "float64")
	// the default engine's own panics (outside C20) are not charged to the specialised engine
	if r0.pan {
		return
	}
	if r0.err != nil {
		// what the default engine refuses has no default result to compare with (the specialised FMA accepts view
		// destinations the default engine refuses); outside the comparison
		return
	}
	// a specialised engine on data of the other float type is documented misuse: it may refuse loudly (error, or the
	// panic of its allocator), but may not deliver a different result
	vAssert(vOr(!r1.pan, mismatch), "engine-no-panic")
	if r1.pan {
		return
	}
	if r1.err != nil {
		// an operation the specialised engine does not accept: nothing may have been modified
		vAssert(mismatch, "engine-accepts-what-default-accepts")
		_, pra := vMkFrom[T](aw, ap, shape, la, nil)
		for k := range pra {
			vAssert(vSameBits(r1.ra[k], pra[k]), "refused-a-unchanged")
		}
		if r1.rb != nil {
			_, prb := vMkFrom[T](bw, bp, shapeB, lb, nil)
			for k := range prb {
				vAssert(vSameBits(r1.rb[k], prb[k]), "refused-b-unchanged")
			}
		}
		if r1.rd != nil {
			_, prd := vMkFrom[T](dw, dp, shapeD, ld, nil)
			for k := range prd {
				vAssert(vSameBits(r1.rd[k], prd[k]), "refused-dest-unchanged")
			}
		}
		return
	}
	if op == "Inner" {
		x0, ok0 := r0.scalar.(T)
		x1, ok1 := r1.scalar.(T)
		vAssert(ok0 && ok1, "inner-type")
		if ok0 && ok1 {
			vAssert(vSameBits(x0, x1), "inner-same-value")
		}
	} else {
		d0, ok0 := r0.res.(*Dense)
		d1, ok1 := r1.res.(*Dense)
		vAssert(ok0 == ok1, "result-kind")
		if !ok0 || !ok1 {
			return
		}
		vAssert((d0 == nil) == (d1 == nil), "result-nil")
		if d0 == nil || d1 == nil {
			return
		}
		vAssert((d0 == r0.a) == (d1 == r1.a), "identity-a")
		vAssert((r0.b != nil && d0 == r0.b) == (r1.b != nil && d1 == r1.b), "identity-b")
		vAssert((r0.d != nil && d0 == r0.d) == (r1.d != nil && d1 == r1.d), "identity-dest")
		vAssert(d0.Dtype() == d1.Dtype(), "result-dtype")
		vAssert(d0.Shape().Eq(d1.Shape()), "result-shape")
		if !d0.Shape().Eq(d1.Shape()) {
			return
		}
		vAssert(d0.DataOrder().IsColMajor() == d1.DataOrder().IsColMajor(), "result-order")
		g0 := vSnapshot[T](d0)
		g1 := vSnapshot[T](d1)
		for k := range g0 {
			vAssert(vSameBits(g0[k], g1[k]), "result-elements")
		}
	}
	// effects on every backing array
	// (the default engine's one-element incr case overwrites its first operand: C07's open finding - the specialised engines
	// do not share it, so the comparison is not made there)
	kfIncr1 := (mode == "incr" || op == "FMA" || op == "FMAScalar") && vProd(shape) == 1 // (the default engine's FMA is Mul with incr)
	for k := range r0.ra {
		vAssertKF(vSameBits(r0.ra[k], r1.ra[k]), "effect-a", "KF-C07-incr1", kfIncr1)
	}
	for k := range r0.rb {
		vAssert(vSameBits(r0.rb[k], r1.rb[k]), "effect-b")
	}
	for k := range r0.rd {
		vAssert(vSameBits(r0.rd[k], r1.rd[k]), "effect-dest")
	}
}


// vhC20Divmod: the helper behind Itol/TransposeIndex. Natively this calls the configuration's real divmod (the assembly
// by default, the Go body under noasm); symbolically the Go body is executed under noasm, and the default build's
// assembly is encoded by the x86 mini-encoder (instance @asm:divmod, whose counterexamples are replayed through this
// harness).
func vhC20Divmod() {
	a := vNondet[int]("a")
	b := vNondet[int]("b")
	vAssume(b != 0)
	var q, r int
	pan := vCatch(func() { q, r = divmod(a, b) })
	vReach("C20.Divmod")
	vAssert(!pan, "asm-no-divide-error")
	if pan {
		return
	}
	vAssert(q == a/b, "asm-eq-model-quotient")
	vAssert(r == a%b, "asm-eq-model-remainder")
}
