package tensor

// C04 - FromMat64: a gonum matrix converted to a tensor has the matrix's shape and, element by element, the converted
// values; in safe mode it shares no storage with the matrix and the matrix is unchanged.

import (
	"gonum.org/v1/gonum/mat"
)

func init() {
	vHarnesses["vhC04FromMat"] = vhC04FromMat
}

func vhC04FromMat() {
	vDispatch(vCfgStr("dtype"), vBodies{i: vC04FromMat[int], i8: vC04FromMat[int8], i16: vC04FromMat[int16], i32: vC04FromMat[int32], i64: vC04FromMat[int64], u: vC04FromMat[uint], u8: vC04FromMat[uint8],
		u16: vC04FromMat[uint16], u32: vC04FromMat[uint32], u64: vC04FromMat[uint64], f32: vC04FromMat[float32], f64: vC04FromMat[float64]})
}

// vF64To gives the expected conversion of x to T, and whether it is defined by the language (Go leaves float->integer
// conversion of an out-of-range value implementation-defined; NaN and infinities are documented by convFromFloat64s as 0).
func vF64To[T vScalar](x float64) (T, bool) {
	var z T
	special := x != x || x > 1.7976931348623157e308 || x < -1.7976931348623157e308
	switch any(z).(type) {
	case float64:
		return any(x).(T), true
	case float32:
		return any(float32(x)).(T), true
	case int8:
		if special {
			return z, true
		}
		vAssume(x >= -128 && x < 128)
		return any(int8(x)).(T), true
	case int16:
		if special {
			return z, true
		}
		vAssume(x >= -32768 && x < 32768)
		return any(int16(x)).(T), true
	case int32:
		if special {
			return z, true
		}
		vAssume(x >= -2147483648 && x < 2147483648)
		return any(int32(x)).(T), true
	case int64:
		if special {
			return z, true
		}
		vAssume(x >= -9223372036854775808 && x < 9223372036854775808)
		return any(int64(x)).(T), true
	case int:
		if special {
			return z, true
		}
		vAssume(x >= -9223372036854775808 && x < 9223372036854775808)
		return any(int(x)).(T), true
	case uint8:
		if special {
			return z, true
		}
		vAssume(x > -1 && x < 256)
		return any(uint8(x)).(T), true
	case uint16:
		if special {
			return z, true
		}
		vAssume(x > -1 && x < 65536)
		return any(uint16(x)).(T), true
	case uint32:
		if special {
			return z, true
		}
		vAssume(x > -1 && x < 4294967296)
		return any(uint32(x)).(T), true
	case uint64:
		if special {
			return z, true
		}
		vAssume(x > -1 && x < 18446744073709551616)
		return any(uint64(x)).(T), true
	case uint:
		if special {
			return z, true
		}
		vAssume(x > -1 && x < 18446744073709551616)
		return any(uint(x)).(T), true
	}
	return z, false
}

func vC04FromMat[T vScalar]() {
	shape := vCfgInts("shape")
	r, c := shape[0], shape[1]
	n := r * c
	data := vNondetSlice[float64]("m", n)
	want := make([]T, n)
	for i := 0; i < n; i++ {
		w, defined := vF64To[T](data[i])
		vAssume(defined)
		want[i] = w
	}
	backing := make([]float64, n)
	copy(backing, data)
	m := mat.NewDense(r, c, backing)
	opts := []FuncOpt{As(New(WithBacking(make([]T, 1))).Dtype())}
	unsafeMode := vCfgStr("mode") == "unsafe"
	if unsafeMode {
		opts = append(opts, UseUnsafe())
	}
	var t *Dense
	p := vCatch(func() { t = FromMat64(m, opts...) })
	vReach("C04.FromMat")
	vAssert(!p && t != nil, "frommat-no-panic")
	if p || t == nil {
		return
	}
	vAssert(vShapeEq([]int(t.Shape()), shape), "frommat-shape")
	got, ok := t.Data().([]T)
	vAssert(ok && len(got) == n, "frommat-dtype")
	if !ok || len(got) != n || !vShapeEq([]int(t.Shape()), shape) {
		return
	}
	for i := 0; i < r; i++ {
		for j := 0; j < c; j++ {
			v, err := t.At(i, j)
			vAssert(err == nil, "frommat-at")
			if err != nil {
				return
			}
			vAssert(vSameBits(v, want[i*c+j]), "frommat-equal")
		}
	}
	for i := 0; i < n; i++ {
		vAssert(vSameBits(backing[i], data[i]), "matrix-unchanged")
	}
	if !unsafeMode {
		vAssert(!vSameBacking(t.Data(), m.RawMatrix().Data), "no-shared-backing")
	}
}
