package tensor

// Exported shims over the harness primitives, for the harnesses that have to live in another package of the module
// (package native imports package tensor, so its conversions cannot be called from a harness in package tensor).
// Under gosym these are ordinary code; the v* primitives they call are the intercepted ones.

import (
	"fmt"
	"strings"
)

// VScalar is the exported form of the element-type constraint.
type VScalar interface{ vScalar }

func VMkOperand[T vScalar](name string, shape []int, layout string) (*Dense, []T) {
	return vMkOperand[T](name, shape, layout)
}
func VAssert(b bool, id string)    { vAssert(b, id) }
func VReach(id string)             { vReach(id) }
func VCfgInt(key string) int       { return vCfgInt(key) }
func VCfgStr(key string) string    { return vCfgStr(key) }
func VCfgInts(key string) []int    { return vCfgInts(key) }
func VCatch(f func()) bool         { return vCatch(f) }
func VProd(s []int) int            { return vProd(s) }
func VItoa(i int) string           { return vItoa(i) }
func VRegister(n string, h func()) { vHarnesses[n] = h }

// VReplayOne loads one replay file, runs its harness natively and returns the VRESULT line that gosym parses.
func VReplayOne(path string) (string, error) {
	if err := vLoadReplay(path); err != nil {
		return "", err
	}
	h := vHarnesses[vRF.Harness]
	if h == nil {
		return "", fmt.Errorf("unknown harness %q", vRF.Harness)
	}
	panicked, assumeKO, msg := false, false, ""
	func() {
		defer func() {
			if r := recover(); r != nil {
				if _, ok := r.(vAssumeFailed); ok {
					assumeKO = true
					return
				}
				panicked = true
				msg = strings.ReplaceAll(fmt.Sprint(r), "\n", " ")
				msg = strings.ReplaceAll(msg, "\t", " ")
				if len(msg) > 200 {
					msg = msg[:200]
				}
			}
		}()
		h()
	}()
	return fmt.Sprintf("VRESULT\t%s\t%s\t%v\t%v\t%s\t%s", path, strings.Join(vFailures, ","), panicked, assumeKO, strings.Join(vObserved, " "), msg), nil
}
