package tensor

// C02 - slicing selects exactly the requested sub-array.

func init() {
	vHarnesses["vhC02Slice"] = vhC02Slice
}

func vhC02Slice() {
	vDispatch(vCfgStr("dtype"), vBodies{i: vC02Slice[int], f64: vC02Slice[float64], i8: vC02Slice[int8], c128: vC02Slice[complex128], str: vC02Slice[string], f32: vC02Slice[float32], b: vC02Slice[bool], u16: vC02Slice[uint16]})
}

// vC02Pre applies the concrete pre-operations of the source recipe (nesting) and keeps the logical model in step.
//
//	'T' default lazy transpose, 'W' interior unit-step window [1:dim) on axis 0, 'P' step-2 slice on the last axis
func vC02Pre[T vScalar](t *Dense, want []T, shape []int, ops string) (*Dense, []T, []int) {
	for _, op := range ops {
		switch op {
		case 'T':
			if len(shape) < 2 {
				continue
			}
			if err := t.T(); err != nil {
				panic("pre T failed")
			}
			ns := vReverseInts(shape)
			nw := make([]T, len(want))
			old, os := want, shape
			vForCoords(ns, func(c []int) { nw[vRowRank(ns, c)] = old[vRowRank(os, vReverseInts(c))] })
			shape, want = ns, nw
		case 'W':
			if len(shape) == 0 || shape[0] < 3 {
				continue
			}
			v, err := t.Slice(S(1, shape[0], 1))
			if err != nil {
				panic("pre W failed")
			}
			ns := vCopyInts(shape)
			ns[0] = shape[0] - 1
			nw := make([]T, vProd(ns))
			old, os := want, shape
			vForCoords(ns, func(c []int) {
				pc := vCopyInts(c)
				pc[0]++
				nw[vRowRank(ns, c)] = old[vRowRank(os, pc)]
			})
			shape, want, t = ns, nw, v.(*Dense)
		case 'P':
			last := len(shape) - 1
			if len(shape) < 2 || shape[last] < 3 {
				continue
			}
			sls := make([]Slice, len(shape))
			sls[last] = S(0, shape[last], 2)
			v, err := t.Slice(sls...)
			if err != nil {
				panic("pre P failed")
			}
			ns := vCopyInts(shape)
			ns[last] = (shape[last] + 1) / 2
			nw := make([]T, vProd(ns))
			old, os := want, shape
			vForCoords(ns, func(c []int) {
				pc := vCopyInts(c)
				pc[last] = 2 * c[last]
				nw[vRowRank(ns, c)] = old[vRowRank(os, pc)]
			})
			shape, want, t = ns, nw, v.(*Dense)
		}
	}
	return t, want, shape
}

func vC02Slice[T vScalar]() {
	pshape0 := vCfgInts("shape")
	base := vCfgStr("base") // C | F
	t, want := vMkOperand[T]("e", pshape0, base)
	t, want, pshape := vC02Pre(t, want, vCopyInts(pshape0), vCfgStr("pre"))
	kinds := vCfgStr("kinds") // per axis: n = nil, r = symbolic range, i = symbolic single index; shorter than rank = trailing axes omitted
	rank := len(pshape)
	box := vCfgInt("box")

	slices := make([]Slice, len(kinds))
	start := make([]int, rank)
	step := make([]int, rank)
	cnt := make([]int, rank) // entries per source axis per the statement
	sliced := make([]bool, rank)
	valid := true
	lead := false  // region of KF-C02-lead
	empty := false // region of KF-C02-empty
	for i := 0; i < rank; i++ {
		dim := pshape[i]
		start[i], step[i], cnt[i] = 0, 1, dim
		if i >= len(kinds) || kinds[i] == 'n' {
			continue
		}
		sliced[i] = true
		if kinds[i] == 'i' {
			idx := vNondet[int]("idx" + vItoa(i))
			slices[i] = S(idx)
			valid = vAnd(valid, vAnd(idx >= 0, idx < dim))
			start[i], step[i], cnt[i] = idx, 1, 1
			continue
		}
		s := vNondet[int]("s" + vItoa(i))
		e := vNondet[int]("e" + vItoa(i))
		st := vNondet[int]("st" + vItoa(i))
		vAssume(st >= 0) // negative steps are outside the statement
		if box > 0 {
			vAssume(s >= -box)
			vAssume(s <= dim+box)
			vAssume(e >= -box)
			vAssume(e <= dim+box)
			vAssume(st <= dim+box)
		}
		if vCfgInt("splitstep") == 1 {
			st = vSplit(st, 0, dim+box) // one path per step value (solver-enumerated, complete within the box)
		}
		slices[i] = S(s, e, st)
		ok := vAnd(vAnd(s <= e, s >= 0), vAnd(s < dim, vNot(vAnd(st == 0, e-s > 1))))
		valid = vAnd(valid, ok)
		ec := vIte(e > dim, dim, e)
		span := ec - s
		stp := vIte(st == 0, 1, st)
		n := vIte(span <= 0, 0, (span+stp-1)/stp)
		start[i], step[i], cnt[i] = s, stp, n
		empty = vOr(empty, s == e)
		if i == 0 {
			lead = vOr(lead, vAnd(st > 1, span%stp != 0))
		}
	}

	var view View
	var err error
	panicked := vCatch(func() { view, err = t.Slice(slices...) })
	vReach("C02.Slice")
	vAssertKF(!panicked, "no-panic", "KF-C02-empty", empty)
	if panicked {
		return
	}
	if err != nil {
		vAssert(!valid, "accept")
		return
	}
	vAssert(valid, "reject")
	res := view.(*Dense)
	rshape := []int(res.Shape())
	rr := len(rshape)
	if rr > rank {
		vAssert(false, "rank")
		return
	}
	// probe coordinate in the result's box
	c := vNondetSlice[int]("c", rr)
	for j := 0; j < rr; j++ {
		vAssume(c[j] >= 0)
		vAssume(c[j] < rshape[j])
	}
	var got interface{}
	var aerr error
	apan := vCatch(func() { got, aerr = res.At(c...) })
	vAssertKF2(vAnd(!apan, aerr == nil), "view-readable", "KF-C02-lead", lead, "KF-C02-empty", empty)
	if apan || aerr != nil {
		return
	}
	x := got.(T)
	// some set D of dropped axes (each with exactly one entry) explains the result: shape and element
	okAny := false
	ndrop := rank - rr
	for m := 0; m < (1 << uint(rank)); m++ {
		bits := 0
		for i := 0; i < rank; i++ {
			if m&(1<<uint(i)) != 0 {
				bits++
			}
		}
		if bits != ndrop {
			continue
		}
		good := true
		pc := make([]int, rank)
		j := 0
		for i := 0; i < rank; i++ {
			if m&(1<<uint(i)) != 0 {
				good = vAnd(good, cnt[i] == 1)
				pc[i] = start[i]
				continue
			}
			good = vAnd(good, rshape[j] == cnt[i])
			pc[i] = start[i] + c[j]*step[i]
			j++
		}
		inb := vInBox(pshape, pc)
		good = vAnd(good, inb)
		idx := vIte(inb, vRowRank(pshape, pc), 0)
		good = vAnd(good, vSameBits(x, vSel(want, idx)))
		okAny = vOr(okAny, good)
	}
	vAssertKF2(okAny, "shape-and-elem", "KF-C02-lead", lead, "KF-C02-empty", empty)
	if vCfgInt("mat") == 1 {
		mt := res.Materialize().(*Dense)
		var g2 interface{}
		var e2 error
		mp := vCatch(func() { g2, e2 = mt.At(c...) })
		vAssertKF2(vAnd(!mp, e2 == nil), "materialize-readable", "KF-C02-lead", lead, "KF-C02-empty", empty)
		if !mp && e2 == nil {
			vAssertKF2(vSameBits(g2.(T), x), "materialize", "KF-C02-lead", lead, "KF-C02-empty", empty)
		}
	}
}
