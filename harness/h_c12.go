package tensor

// C12 - unary maths and mapped functions apply the scalar function at every coordinate.

func init() {
	vHarnesses["vhC12Unary"] = vhC12Unary
	vHarnesses["vhC12Apply"] = vhC12Apply
	vHarnesses["vhC12Refuse"] = vhC12Refuse
}

func vhC12Unary() {
	vDispatch(vCfgStr("dtype"), vBodies{i: vC12Unary[int], i8: vC12Unary[int8], i16: vC12Unary[int16], i32: vC12Unary[int32], i64: vC12Unary[int64],
		u: vC12Unary[uint], u8: vC12Unary[uint8], u16: vC12Unary[uint16], u32: vC12Unary[uint32], u64: vC12Unary[uint64],
		f32: vC12Unary[float32], f64: vC12Unary[float64], c64: vC12Unary[complex64], c128: vC12Unary[complex128]})
}

func vC12Unary[T vNum]() {
	op := vCfgStr("op")
	shape := vCfgInts("shape")
	dt := vCfgStr("dtype")
	mode := vCfgStr("mode")
	a, aw := vMkOperand[T]("a", shape, vCfgStr("la"))
	var lo, hi T
	if op == "Clamp" {
		lo, hi = vNondet[T]("lo"), vNondet[T]("hi")
	}
	var d *Dense
	var dw []T
	var opts []FuncOpt
	switch mode {
	case "unsafe":
		opts = append(opts, UseUnsafe())
	case "reuse":
		d, dw = vMkOperand[T]("d", shape, vCfgStr("ld"))
		opts = append(opts, WithReuse(d))
	case "incr":
		d, dw = vMkOperand[T]("d", shape, vCfgStr("ld"))
		opts = append(opts, WithIncr(d))
	case "reuseA":
		d, dw = a, aw
		opts = append(opts, WithReuse(a))
	}
	var res Tensor
	var err error
	pan := vCatch(func() { res, err = vCallUn(op, a, lo, hi, opts...) })
	vReach("C12.Unary")
	if !vUnSupports(op, dt) {
		vAssert(!pan, "refuse-no-panic")
		if !pan {
			vAssert(err != nil, "refuse")
		}
		return
	}
	n := len(aw)
	if op == "Inv" && vIsInt[T]() {
		for k := 0; k < n; k++ {
			vAssume(vUnDefined(op, aw[k]))
		}
	}
	if op == "Clamp" {
		if vIsFloat[T]() {
			vAssume(vAnd(!vNaN(lo), !vNaN(hi)))
		}
		vAssume(!vLess(hi, lo))
	}
	vAssert(!pan, "no-panic")
	if pan {
		return
	}
	if (mode == "reuse" || mode == "incr" || mode == "reuseA") && d.RequiresIterator() && err != nil {
		vC06Unchanged(a, aw, "refused-a-unchanged")
		vC06Unchanged(d, dw, "refused-dest-unchanged")
		return
	}
	vAssert(err == nil, "no-error")
	if err != nil {
		return
	}
	rd, ok := res.(*Dense)
	vAssert(ok, "result-dense")
	if !ok || rd == nil {
		return
	}
	switch mode {
	case "":
		vAssert(rd != a, "safe-returns-fresh")
		vAssert(!vSameBacking(rd.Data(), a.Data()), "safe-no-alias")
	case "unsafe":
		vAssert(rd == a, "unsafe-returns-operand")
	default:
		vAssert(rd == d, "returns-destination")
	}
	vAssert(rd.Dtype() == a.Dtype(), "result-dtype")
	got := vSnapshot[T](rd)
	kfReuseOrder := (mode == "reuse" || mode == "incr") && ((vCfgStr("ld") == "F") != (vCfgStr("la") == "F")) // (unary incr into the other data order is wrong on the pinned tree too; binary arithmetic incr is not: see h_c06.go)
	for k := 0; k < n; k++ {
		if mode == "incr" {
			// delivered value = old destination + op(x), for every operation
			r1, r2 := vUnValues(op, aw[k], lo, hi)
			vAssertKF(vOr(vSameBits(got[k], dw[k]+r1), vSameBits(got[k], dw[k]+r2)), "incr-value", "KF-C16-reuse-order", kfReuseOrder)
			continue
		}
		vAssertKF(vUnMatch(op, got[k], aw[k], lo, hi), "value", "KF-C16-reuse-order", kfReuseOrder)
	}
	if rd != a {
		vC06Unchanged(a, aw, "operand-unchanged")
	}
}

// vhC12Apply: a user function applied through the map interface (uninterpreted function of the element).
func vhC12Apply() {
	switch vCfgStr("dtype") {
	case "float64":
		vC12Apply[float64](func(x float64) float64 { return vUF1("userfn", x) })
	case "int":
		vC12Apply[int](func(x int) int { return vUF1("userfn", x) })
	case "float32":
		vC12Apply[float32](func(x float32) float32 { return vUF1("userfn", x) })
	case "uint8":
		vC12Apply[uint8](func(x uint8) uint8 { return vUF1("userfn", x) })
	case "int16":
		vC12Apply[int16](func(x int16) int16 { return vUF1("userfn", x) })
	}
}

func vC12Apply[T vNum](fn func(T) T) {
	shape := vCfgInts("shape")
	mode := vCfgStr("mode")
	a, aw := vMkOperand[T]("a", shape, vCfgStr("la"))
	var d *Dense
	var dw []T
	var opts []FuncOpt
	switch mode {
	case "unsafe":
		opts = append(opts, UseUnsafe())
	case "reuse":
		d, dw = vMkOperand[T]("d", shape, vCfgStr("ld"))
		opts = append(opts, WithReuse(d))
	case "incr":
		d, dw = vMkOperand[T]("d", shape, vCfgStr("ld"))
		opts = append(opts, WithIncr(d))
	}
	var res Tensor
	var err error
	pan := vCatch(func() { res, err = a.Apply(fn, opts...) })
	vReach("C12.Apply")
	vAssert(!pan, "no-panic")
	if pan {
		return
	}
	if (mode == "reuse" || mode == "incr") && d.RequiresIterator() && err != nil {
		return
	}
	vAssert(err == nil, "no-error")
	if err != nil {
		return
	}
	rd, ok := res.(*Dense)
	vAssert(ok, "result-dense")
	if !ok || rd == nil {
		return
	}
	kfReuse := mode == "reuse" || mode == "incr"
	got := vSnapshot[T](rd)
	for k := range aw {
		want := fn(aw[k])
		if mode == "incr" {
			want = dw[k] + fn(aw[k])
		}
		vAssertKF(vSameBits(got[k], want), "value", "KF-C12-mapreuse", kfReuse)
	}
	if rd != a {
		vC06Unchanged(a, aw, "operand-unchanged")
	}
}

func vhC12Refuse() {
	op := vCfgStr("op")
	var err error
	var pan bool
	switch vCfgStr("dtype") {
	case "bool":
		a, _ := vMkOperand[bool]("a", []int{2, 2}, "C")
		pan = vCatch(func() { _, err = vCallUn(op, a, false, true) })
	case "string":
		a, _ := vMkOperand[string]("a", []int{2}, "C")
		pan = vCatch(func() { _, err = vCallUn(op, a, "a", "b") })
	}
	vReach("C12.Refuse")
	vAssert(!pan, "refuse-no-panic")
	if !pan {
		vAssert(err != nil, "refuse")
	}
}
