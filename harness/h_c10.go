package tensor

// C10 - concatenation, stacking and repetition assemble exactly the operands' elements.

func init() {
	vHarnesses["vhC10Concat"] = vhC10Concat
	vHarnesses["vhC10Stack"] = vhC10Stack
	vHarnesses["vhC10Repeat"] = vhC10Repeat
	vHarnesses["vhC10Refuse"] = vhC10Refuse
}

func vC10Bodies(f1, f2, f3, f4, f5, f6 func()) vBodies {
	return vBodies{}
}

func vhC10Concat() {
	vDispatch(vCfgStr("dtype"), vBodies{b: vC10Concat[bool], i: vC10Concat[int], i8: vC10Concat[int8], i16: vC10Concat[int16], f32: vC10Concat[float32], f64: vC10Concat[float64], c128: vC10Concat[complex128], str: vC10Concat[string]})
}
func vhC10Stack() {
	vDispatch(vCfgStr("dtype"), vBodies{b: vC10Stack[bool], i: vC10Stack[int], i8: vC10Stack[int8], i16: vC10Stack[int16], f32: vC10Stack[float32], f64: vC10Stack[float64], c128: vC10Stack[complex128], str: vC10Stack[string]})
}
func vhC10Repeat() {
	vDispatch(vCfgStr("dtype"), vBodies{b: vC10Repeat[bool], i: vC10Repeat[int], i8: vC10Repeat[int8], i16: vC10Repeat[int16], i32: vC10Repeat[int32], f32: vC10Repeat[float32], f64: vC10Repeat[float64], c128: vC10Repeat[complex128], str: vC10Repeat[string]})
}

// operand k: shape from cfg "shape<k>", layout from the k-th letter group of cfg "layouts" (comma separated)
func vC10Operands[T vScalar](n int) ([]*Dense, [][]T, [][]int) {
	lays := vSplitComma(vCfgStr("layouts"))
	var ts []*Dense
	var ws [][]T
	var shs [][]int
	for k := 0; k < n; k++ {
		sh := vCfgInts("shape" + vItoa(k))
		t, w := vMkOperand[T]("x"+vItoa(k), sh, lays[k])
		ts = append(ts, t)
		ws = append(ws, w)
		shs = append(shs, sh)
	}
	return ts, ws, shs
}

func vSplitComma(s string) []string {
	var out []string
	cur := ""
	for _, c := range s {
		if c == ',' {
			out = append(out, cur)
			cur = ""
		} else {
			cur += string(c)
		}
	}
	return append(out, cur)
}

func vC10OperandsUnchanged[T vScalar](ts []*Dense, ws [][]T, shs [][]int) {
	for k, t := range ts {
		vCheckAll(t, ws[k], shs[k], "operand-unchanged", "", false)
	}
}

func vC10Concat[T vScalar]() {
	n := vCfgInt("n")
	axis := vCfgInt("axis")
	variant := vCfgStr("variant") // concat | func | hstack | vstack
	ts, ws, shs := vC10Operands[T](n)
	var res *Dense
	var err error
	pan := vCatch(func() {
		switch variant {
		case "concat":
			res, err = ts[0].Concat(axis, ts[1:]...)
		case "func":
			others := make([]Tensor, 0, n)
			for _, o := range ts[1:] {
				others = append(others, o)
			}
			var rt Tensor
			rt, err = Concat(axis, ts[0], others...)
			if err == nil {
				res = rt.(*Dense)
			}
		case "hstack":
			res, err = ts[0].Hstack(ts[1:]...)
		case "vstack":
			res, err = ts[0].Vstack(ts[1:]...)
		}
	})
	vReach("C10.Concat")
	// known finding: concatenating along axis 0 reshapes every (1,n) operand IN PLACE to (n) (and fails on strided ones)
	kfRow := false
	if axis == 0 {
		for _, sh := range shs {
			if len(sh) == 2 && sh[0] == 1 {
				kfRow = true
			}
		}
	}
	vAssertKF(!pan, "no-panic", "KF-C10-concat-rowvec", kfRow)
	if pan {
		return
	}
	vAssertKF(err == nil, "no-error", "KF-C10-concat-rowvec", kfRow)
	if err != nil {
		return
	}
	// expected shape and content (numpy.concatenate)
	rshape := vCopyInts(shs[0])
	tot := 0
	for _, s := range shs {
		tot += s[axis]
	}
	rshape[axis] = tot
	want := make([]T, vProd(rshape))
	off := 0
	for k := range ts {
		sk := shs[k]
		wk := ws[k]
		o := off
		vForCoords(sk, func(c []int) {
			rc := vCopyInts(c)
			rc[axis] = c[axis] + o
			want[vRowRank(rshape, rc)] = wk[vRowRank(sk, c)]
		})
		off += sk[axis]
	}
	vCheckAll(res, want, rshape, "place", "KF-C10-concat-rowvec", kfRow)
	for k, t := range ts {
		vCheckAll(t, ws[k], shs[k], "operand-unchanged", "KF-C10-concat-rowvec", kfRow)
	}
}

func vC10Stack[T vScalar]() {
	n := vCfgInt("n")
	axis := vCfgInt("axis")
	ts, ws, shs := vC10Operands[T](n)
	var res *Dense
	var err error
	pan := vCatch(func() {
		if vCfgStr("variant") == "func" {
			others := make([]Tensor, 0, n)
			for _, o := range ts[1:] {
				others = append(others, o)
			}
			var rt Tensor
			rt, err = Stack(axis, ts[0], others...)
			if err == nil {
				res = rt.(*Dense)
			}
		} else {
			res, err = ts[0].Stack(axis, ts[1:]...)
		}
	})
	vReach("C10.Stack")
	// known finding (column-major equivalence, C16): Stack lays the result out in the first operand's data order and
	// copies raw storage of the others
	kfF := false
	for _, l := range vSplitComma(vCfgStr("layouts")) {
		if l == "F" {
			kfF = true
		}
	}
	vAssertKF(!pan, "no-panic", "KF-C16-stack-colmajor", kfF)
	if pan {
		return
	}
	vAssertKF(err == nil, "no-error", "KF-C16-stack-colmajor", kfF)
	if err != nil {
		return
	}
	// numpy.stack: new axis of length n at position `axis`
	base := shs[0]
	rshape := make([]int, 0, len(base)+1)
	rshape = append(rshape, base[:axis]...)
	rshape = append(rshape, n)
	rshape = append(rshape, base[axis:]...)
	want := make([]T, vProd(rshape))
	for k := range ts {
		wk := ws[k]
		kk := k
		vForCoords(base, func(c []int) {
			rc := make([]int, 0, len(rshape))
			rc = append(rc, c[:axis]...)
			rc = append(rc, kk)
			rc = append(rc, c[axis:]...)
			want[vRowRank(rshape, rc)] = wk[vRowRank(base, c)]
		})
	}
	vCheckAll(res, want, rshape, "place", "KF-C16-stack-colmajor", kfF)
	vC10OperandsUnchanged(ts, ws, shs)
}

func vC10Repeat[T vScalar]() {
	shape := vCfgInts("shape0")
	axis := vCfgInt("axis") // -1 = AllAxes
	nrep := vCfgInt("nrep") // number of repeat counts given (1 = broadcast, or the axis length)
	maxc := vCfgInt("maxcount")
	t, w := vMkOperand[T]("x0", shape, vCfgStr("layouts"))
	// symbolic counts, enumerated by the solver (they size the result)
	reps := make([]int, nrep)
	for i := range reps {
		reps[i] = vSplit(vNondet[int]("r"+vItoa(i)), 0, maxc)
	}
	repArg := vCopyInts(reps)
	var res *Dense
	var err error
	pan := vCatch(func() {
		var rt Tensor
		if vCfgStr("variant") == "func" {
			rt, err = Repeat(t, axis, repArg...)
		} else {
			rt, err = t.Repeat(axis, repArg...)
		}
		if err == nil {
			res = rt.(*Dense)
		}
	})
	vReach("C10.Repeat")
	// column-major finding (C16): Repeat walks raw storage with row-major stride arithmetic
	kfRepF := vCfgStr("layouts") == "F"
	vAssertKF(!pan, "no-panic", "KF-C16-repeat", kfRepF)
	if pan {
		return
	}
	// numpy.repeat
	src := w
	sshape := shape
	ax := axis
	if axis == -1 {
		sshape = []int{len(w)}
		ax = 0
	}
	dim := sshape[ax]
	counts := make([]int, dim)
	for j := range counts {
		if nrep == 1 {
			counts[j] = reps[0]
		} else {
			counts[j] = reps[j]
		}
	}
	tot := 0
	for _, c := range counts {
		tot += c
	}
	vAssert(err == nil, "no-error")
	if err != nil {
		return
	}
	rshape := vCopyInts(sshape)
	rshape[ax] = tot
	want := make([]T, vProd(rshape))
	if tot > 0 {
		vForCoords(rshape, func(rc []int) {
			// source index along ax: j with prefix(j) <= r < prefix(j+1)
			r := rc[ax]
			j, acc := 0, 0
			for jj := 0; jj < dim; jj++ {
				if r >= acc && r < acc+counts[jj] {
					j = jj
				}
				acc += counts[jj]
			}
			sc := vCopyInts(rc)
			sc[ax] = j
			want[vRowRank(rshape, rc)] = src[vRowRank(sshape, sc)]
		})
	}
	if tot == 0 {
		// an empty result cannot be represented faithfully; only "no wrong data" is checked
		return
	}
	// known finding: denseRepeat forces stride 1 whenever the source or the result is a 2-D "vector" ((1,n) / (n,1))
	kfVec := len(shape) == 2 && axis == 0 && shape[1] > 1 && (shape[0] == 1 || tot == 1)
	if kfRepF {
		vCheckAll(res, want, rshape, "place", "KF-C16-repeat", true)
	} else {
		vCheckAll(res, want, rshape, "place", "KF-C10-repeat-vec", kfVec)
	}
	vCheckAll(t, w, shape, "operand-unchanged", "", false)
	// the caller's counts are not modified (C19 also checks this)
	for i := range reps {
		vAssert(repArg[i] == reps[i], "repeats-arg-unchanged")
	}
}

// vhC10Refuse: operands whose shapes do not fit are refused with an error.
func vhC10Refuse() {
	kind := vCfgStr("kind")
	a, _ := vMkOperand[float64]("a", []int{2, 3}, "C")
	var err error
	var pan bool
	switch kind {
	case "concat-mismatch":
		b, _ := vMkOperand[float64]("b", []int{3, 2}, "C")
		pan = vCatch(func() { _, err = a.Concat(0, b) })
	case "concat-mismatch-unit": // an operand that is shorter (length one) off the join axis
		b, _ := vMkOperand[float64]("b", []int{1, 3}, "C")
		pan = vCatch(func() { _, err = a.Concat(1, b) })
	case "concat-mismatch-longer":
		b, _ := vMkOperand[float64]("b", []int{3, 3}, "C")
		pan = vCatch(func() { _, err = a.Concat(1, b) })
	case "hstack-mismatch-unit":
		b, _ := vMkOperand[float64]("b", []int{1, 3}, "C")
		pan = vCatch(func() { _, err = a.Hstack(b) })
	case "vstack-mismatch-unit":
		b, _ := vMkOperand[float64]("b", []int{2, 1}, "C")
		pan = vCatch(func() { _, err = a.Vstack(b) })
	case "concat-rank":
		b, _ := vMkOperand[float64]("b", []int{3}, "C")
		pan = vCatch(func() { _, err = a.Concat(1, b) })
	case "concat-axis":
		b, _ := vMkOperand[float64]("b", []int{2, 3}, "C")
		ax := vNondet[int]("axis")
		vAssume(ax >= 2)
		vAssume(ax <= 5)
		pan = vCatch(func() { _, err = a.Concat(ax, b) })
	case "stack-mismatch":
		b, _ := vMkOperand[float64]("b", []int{3, 2}, "C")
		pan = vCatch(func() { _, err = a.Stack(0, b) })
	case "stack-axis":
		b, _ := vMkOperand[float64]("b", []int{2, 3}, "C")
		ax := vNondet[int]("axis")
		vAssume(ax >= 3)
		vAssume(ax <= 6)
		pan = vCatch(func() { _, err = a.Stack(ax, b) })
	case "repeat-counts":
		pan = vCatch(func() { _, err = a.Repeat(1, 1, 2) }) // 2 counts for an axis of length 3
	case "repeat-axis":
		ax := vNondet[int]("axis")
		vAssume(ax >= 2)
		vAssume(ax <= 5)
		pan = vCatch(func() { _, err = a.Repeat(ax, 2) })
	case "vstack-rank1":
		v, _ := vMkOperand[float64]("v", []int{3}, "C")
		pan = vCatch(func() { _, err = v.Vstack(v) })
	}
	vReach("C10.Refuse")
	vAssert(!pan, "refuse-no-panic")
	if !pan {
		vAssert(err != nil, "refuse")
	}
}
