#!/bin/bash
# usage: regress_seeded.sh [ids...]  -- for every seeded change under /verif/seeded: apply it to a scratch worktree of /repo
# HEAD (never to /repo itself), run the demo (must fail) and the property's quick check against that worktree (must exit 1).
# Results: one line per change on stdout. Scratch data lives under /tmp/regr-* and is removed at the end.
export GOFLAGS=-mod=mod GOPROXY=off GOSUMDB=off GOTOOLCHAIN=local
export VERIF_DIR=/verif VERIF_HARNESS_DIR=/verif/harness
ids="$@"; [ -z "$ids" ] && ids=$(ls -d /verif/seeded/C*-m* | xargs -n1 basename)
wt=/tmp/regr-wt-$$; out=/tmp/regr-out-$$
git -C /repo worktree prune; rm -rf $wt $out; mkdir -p $out
git -C /repo worktree add -q --detach $wt HEAD || exit 2
for id in $ids; do
  d=/verif/seeded/$id; prop=${id%%-*}
  git -C $wt reset -q --hard HEAD; git -C $wt clean -fdq
  if ! git -C $wt apply $d/patch.diff 2>/dev/null; then echo "$id: PATCH-DOES-NOT-APPLY"; continue; fi
  tags=$(python3 -c "import json,re;m=json.load(open('$d/meta.json'));r=re.search(r'-tags[ =]([\w,]+)',m.get('demo_run') or '');print(r.group(1) if r else '')")
  dd=$(python3 -c "import json;print(json.load(open('$d/meta.json')).get('demo_dir') or '.')")
  race=$(python3 -c "import json;print('-race' if '-race' in (json.load(open('$d/meta.json')).get('demo_run') or '') else '')")
  cp $d/demo_test.go $wt/$dd/zz_mutdemo_test.go
  if (cd $wt/$dd && go test $race -vet=off -count=1 -tags "$tags" -run "TestMutDemo" . >/dev/null 2>&1); then demo="demo=PASS(change-is-neutral!)"; else demo="demo=fails(ok)"; fi
  rm -f $wt/$dd/zz_mutdemo_test.go
  VERIF_REPO=$wt VERIF_OUT=$out /verif/bin/gosym run -prop $prop -tier quick > $out/$id.log 2>&1; rc=$?
  echo "$id: $demo check_exit=$rc $(grep -c '^VIOLATION' $out/$id.log) violation lines; $(grep "^$prop quick" $out/$id.log | sed 's/.*wall=/wall=/')"
done
git -C /repo worktree remove --force $wt; rm -rf $out
