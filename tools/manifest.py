#!/usr/bin/env python3
"""Regenerate /verif/MANIFEST.json from the table below (claimed checks + not_applicable)."""
import json
props=[json.loads(l) for l in open('/verif/properties.jsonl')]
TECH="bounded symbolic execution of the real Go code (go/ssa) with SMT (z3) discharge of every assertion; counterexamples replayed natively"
NOTE_COMMON=" Trusted: go/ssa front end, the gosym interpreter (checked on every run by a concrete-mode differential against the native build), the intrinsic models listed in the evidence (reflect, sync.Pool, errors/fmt, math UFs), z3. Structure (dtype, shape, layout, mode) is an instantiated finite matrix listed in evidence, not symbolic."
CLAIMED={}
exec(open('/verif/tools/claims.py').read())
m={"version":1,
 "setup_cmd":"cd /verif/gosym && GOFLAGS=-mod=mod GOPROXY=off GOSUMDB=off GOTOOLCHAIN=local go build -o ../bin/gosym .",
 "hooks":{"guard":"verif","enable":"no hooks: harnesses are injected as go/packages overlays (package tensor) at check time and as go test -overlay files for native replay; nothing under /repo is built with the tag","baseline_off_cmd":"cd /repo && GOFLAGS=-mod=mod go test -vet=off -count=1 -timeout 25m ./...","source_commits":[],"add_only":True},
 "engines":[{"name":"gosym","path":"/verif/gosym","serves_properties":sorted(CLAIMED),"kind_free_text":"own symbolic executor for go/ssa (x/tools v0.29.0): real function bodies of /repo executed with symbolic scalars over a concrete heap shape, path forking by re-execution, every obligation discharged by z3 over a pipe; sat models replayed natively with go test -overlay"}],
 "checks":[], "notes":"see DESIGN.md; known findings in known_findings.json; seeded changes in seeded/", "not_applicable":[]}
for p in props:
    pid=p['id']
    if pid in CLAIMED:
        text,note=CLAIMED[pid]
        m['checks'].append({"property_id":pid,"quick_cmd":f"./check {pid} --tier quick","thorough_cmd":f"./check {pid} --tier thorough","evidence_file":f"/verif/evidence/{pid}.json",
          "replay_cmd_template":f"./check {pid} --replay {{path}}","engine":"gosym",
          "level_claimed":{"category":"model_checking","text":text,"design_ref":"DESIGN.md §4 "+pid},"level_note":note+NOTE_COMMON,"technique":TECH})
    else:
        m['not_applicable'].append({"property_id":pid,"reason":NA.get(pid,"check not built yet (engine under construction); no other technique is substituted")})
json.dump(m,open('/verif/MANIFEST.json','w'),indent=1)
print("claimed:",sorted(CLAIMED))
