#!/bin/bash
# usage: adopt_mut.sh <PROP> <suffix> <k-in-agent-output> <new-k> [tags]  -- copy a round-N agent output into /tmp/mut-<PROP>/out as m<new-k>
# (renaming the demo test function) and confirm it with confirm_mut.sh
P=$1; S=$2; K=$3; N=$4; TAGS=${5:-}
src=/tmp/mut-$P$S/out; dst=/tmp/mut-$P/out; mkdir -p $dst
cp $src/m$K.diff $dst/m$N.diff
sed "s/TestMutDemo${P}m$K/TestMutDemo${P}m$N/g" $src/m${K}_demo_test.go > $dst/m${N}_demo_test.go
sed "s/TestMutDemo${P}m$K/TestMutDemo${P}m$N/g" $src/m$K.json > $dst/m$N.json
/verif/tools/confirm_mut.sh $P $N $TAGS
