#!/usr/bin/env python3
"""print the prompt for a mutation sub-agent: only the property text + its scratch worktree"""
import json,sys
pid=sys.argv[1]
p=[json.loads(l) for l in open('/verif/properties.jsonl') if json.loads(l)['id']==pid][0]
print(f"""You are helping test a verification setup for the Go library gorgonia/tensor (an n-dimensional dense tensor library). You have your own scratch git worktree of the library at /tmp/mut-{pid}/wt (module gorgonia.org/tensor). Work ONLY inside /tmp/mut-{pid}/ . Do not read or touch /repo, /verif or any other directory outside /tmp/mut-{pid}/ (the Go module cache and GOROOT are fine to read).

Here is a semantic property the library is supposed to satisfy:

  Property {pid}: {p['title'] if 'title' in p else p.get('name','')}
  Statement: {p['statement']}
  Quantified over: {p['quantifier']['text']}

Your job: produce TWO different, independent, realistic source changes ("seeded bugs") to the library in the worktree, each of which
  (1) still compiles (go build ./... and go vet-less test compile),
  (2) still passes the library's existing test suite:  cd /tmp/mut-{pid}/wt && go test -vet=off -count=1 ./...   (on the unchanged tree TestSaveLoadNumpy fails because there is no python/network; TestDense_SVD and TestFloat32Engine_makeArray/TestFloat64Engine_makeArray are rarely flaky; ignore exactly those),
  (3) breaks the property above for some inputs, and
  (4) needs something SPECIFIC to manifest - an unusual input (particular dtype, a negative/boundary value, a particular shape like a length-one axis, a particular layout such as a sliced or transposed or column-major operand, a particular option mode), a multi-step sequence of operations, or two cooperating sites that each look fine alone - NOT something ordinary use would expose at once.
The two changes should be in different mechanisms/functions (ideally different files), look like plausible slips a maintainer or a code generator could make (off-by-one, wrong variable, swapped operands for one dtype, missing clone, wrong stride, a fast path taken when it should not be, etc.), and each be small (a few lines). Do NOT edit, add or delete any existing *_test.go file. Prefer editing the real .go sources over genlib2 templates (generated files are checked in; edit the generated file directly).

For EACH change K in {{1,2}} (K is the digit 1 or 2 in the file names below) deliver in /tmp/mut-{pid}/out/ :
  - mK.diff   : the change as produced by `git -C /tmp/mut-{pid}/wt diff` (only that one change applied on a clean tree; it must apply with `git apply` on the pristine commit),
  - mK_demo_test.go : a demonstration: a Go test file in package tensor (or the package the change is in; say which and in which directory it must be placed) with one test function named TestMutDemo{pid}mK that FAILS with the change applied and PASSES on the pristine tree. It should check the property through the public API against an independently computed expected value.
  - mK.json   : {{"property":"{pid}","files":[...],"summary":"what was changed","needs":"what specific input / sequence / layout is needed for it to manifest","demo_dir":"directory (relative to repo root) where the demo test file goes","demo_run":"exact go test command"}}
Verify everything yourself before finishing: for each change, on a clean tree (git -C /tmp/mut-{pid}/wt checkout -- . first) apply it, run the full suite (must pass apart from the exceptions above), run the demo (must fail), undo the change, run the demo (must pass). Leave the worktree clean (git checkout -- . ; remove the demo test files from it) when you finish.

Environment: the sandbox has no network. Prefix every go command with:  export GOFLAGS=-mod=mod GOPROXY=off GOSUMDB=off GOTOOLCHAIN=local ;  The full suite takes about 1-2 minutes; use -run to iterate quickly. Be economical: do not explore the whole library; read the code around the mechanism you pick. Finish by replying with a short summary (file names, one line per change, and the observed pass/fail results of the verification runs).""")
