#!/bin/bash
# usage: trymut.sh <diff> <prop> [extra gosym args]  -- apply a seeded change to /repo, run the check, undo
diff=$1; prop=$2; shift 2
cd /repo || exit 2
if ! git apply --check "$diff" 2>/dev/null; then
  if ! git apply --3way "$diff" 2>/dev/null; then echo "PATCH DOES NOT APPLY: $diff"; git checkout -- . ; exit 3; fi
else
  git apply "$diff"
fi
cd /verif && ./bin/gosym run -prop $prop -tier quick "$@" 2>&1 | tail -8
rc=${PIPESTATUS[0]}
git -C /repo reset -q --hard HEAD
echo "exit=$rc"
