#!/usr/bin/env python3
"""Regenerate the generated parts of DESIGN.md (between BEGIN/END markers): findings (section 7b) and seeded changes (section 10)."""
import json,glob,os,re,subprocess
D='/verif/DESIGN.md'
s=open(D).read()
kf=json.load(open('/verif/known_findings.json'))['findings']
fixed=[f for f in kf if f['status']=='fixed']; opn=[f for f in kf if f['status']=='open']
log=subprocess.run(['git','-C','/repo','log','--format=%h %s'],capture_output=True,text=True).stdout.strip().split('\n')
subj={l.split()[0]:' '.join(l.split()[1:]) for l in log}
out=[]
out.append(f"**Repaired ({len(fixed)} `fix:` commits in /repo, oldest first).** Each was reported by the named property's check as a `sat` model, reproduced natively, repaired, and the check now passes on it without a KNOWN-FINDING line; the existing suite passes with every one of them (TestSaveLoadNumpy needs Python and fails on the pinned tree as well).\n")
out.append("| finding | property | commit | what failed |\n|---|---|---|---|")
for f in fixed:
    out.append(f"| {f['id']} | {f['property']} | `{f.get('commit','')}` {subj.get(f.get('commit',''),'')[:70]} | {f['what'][:260]} |")
out.append("")
out.append(f"**Open known findings ({len(opn)}).** Recorded in `/verif/known_findings.json` with region, example and the reason a repair is not small and safe; the owning check excludes exactly the region, re-confirms the failure natively on every run and prints `KNOWN-FINDING`; any violation outside the region is reported.\n")
out.append("| finding | property | what fails (abridged) |\n|---|---|---|")
for f in opn:
    out.append(f"| {f['id']} | {f['property']} | {f['what'][:300]} |")
findings='\n'.join(out)
# seeded table
reg={}
p='/verif/seeded/REGRESSION.txt'
if os.path.exists(p):
    for l in open(p):
        m=re.match(r'(\S+): (.*)',l)
        if m: reg[m.group(1)]=m.group(2)
rows=["| change | what it breaks (abridged) | caught by | quick check on the changed tree |","|---|---|---|---|"]
for d in sorted(glob.glob('/verif/seeded/C*-m*')):
    i=os.path.basename(d); m=json.load(open(d+'/meta.json'))
    r=reg.get(i,'not re-run')
    ok='exit 1' if 'check_exit=1' in r else r
    vl=re.search(r'(\d+) violation lines',r)
    rows.append(f"| {i} | {m['breaks'][:230]} | `./check {m['property']}` | {ok}{', '+vl.group(1)+' VIOLATION lines' if vl else ''} |")
seeded='\n'.join(rows)
def put(s,tag,body):
    b,e=f'<!-- BEGIN:{tag} -->',f'<!-- END:{tag} -->'
    if b in s:
        return s[:s.index(b)+len(b)]+'\n'+body+'\n'+s[s.index(e):]
    raise SystemExit('marker missing: '+tag)
# as-built table from the evidence files
rows2=["| property | tier of last run | harnesses (instances) | paths | obligations (discharged) | non-trivial solver queries | inconclusive | native validations | wall s |","|---|---|---|---|---|---|---|---|---|"]
for f in sorted(glob.glob('/verif/evidence/C*.json')):
    e=json.load(open(f)); c=e['coverage']; inc=c.get('inconclusive',{})
    hs=', '.join(f"{k} ({v})" for k,v in sorted(c.get('instances_by_harness',{}).items()))
    ninc=inc.get('obligations_unknown_or_timeout',0)+sum(inc.get('aborted_paths_by_reason',{}).values())
    rows2.append(f"| {e['property_id']} | {e.get('tier')} | {hs} | {c.get('states')} | {c.get('obligations')} ({c.get('discharged')}) | {c.get('nontrivial_queries')} | {ninc} | {c.get('traces_validated_against_impl')} | {e.get('wall_s')} |")
asbuilt='\n'.join(rows2)
s=put(s,'asbuilt',asbuilt)
s=put(s,'findings',findings)
s=put(s,'seeded',seeded)
open(D,'w').write(s)
print(len(fixed),'fixed',len(opn),'open',len(rows)-2,'seeded')
