#!/bin/bash
# usage: seed_round.sh <PROP> <suffix>  -- prepare /tmp/mut-<PROP><suffix>/{wt,out,prompt.txt} for a fresh seeding sub-agent.
# The prompt contains only the property text, the agent's scratch worktree, and one-line summaries of the changes already
# stored for that property (so that the new ones differ); nothing from /verif's machinery.
P=$1; S=$2; D=/tmp/mut-$P$S
rm -rf $D; git -C /repo worktree prune; mkdir -p $D/out
git -C /repo worktree add -q --detach $D/wt HEAD || exit 2
python3 /verif/tools/mutprompt.py $P | sed "s#/tmp/mut-$P/#$D/#g" > $D/prompt.txt
{
echo
echo "Changes of the following kinds are ALREADY KNOWN for this property - yours must be in different functions and of a different nature:"
for m in /verif/seeded/$P-m*/meta.json; do python3 -c "import json,sys;m=json.load(open('$m'));print(' -',m['breaks'][:200])"; done
} >> $D/prompt.txt
echo $D/prompt.txt
