#!/usr/bin/env python3
"""Merge the region audit of the evidence files into known_findings.json (field closed_in).

Each evidence file written by a run carries, per finding, the instances that lie in the finding's declared region but in
which the failure was not found although everything in the instance was decided (no timeout, no aborted path). For those
instances the finding is closed: the check then asserts the property in full there. Run after a clean quick AND a clean
thorough run of a property (the lists are accumulated; an instance is only ever added, never removed, by this tool; edit
by hand if a listed instance later shows the failure - the check then reports it as a violation, which is the signal)."""
import json,glob,sys
kfp='/verif/known_findings.json'
kf=json.load(open(kfp))
idx={f['id']:f for f in kf['findings']}
added=0
for ev in sorted(glob.glob('/verif/evidence/C*.json')):
    e=json.load(open(ev)); c=e['coverage']
    inc=c.get('inconclusive',{})
    aud=c.get('known_finding_region_audit',{})
    for kid,a in aud.items():
        f=idx.get(kid)
        if not f or f.get('status')!='open': continue
        cur=set(f.get('closed_in',[]))
        for n in (a.get('in_region_without_failure') or []):
            if n not in cur:
                cur.add(n); added+=1
        if cur: f['closed_in']=sorted(cur)
json.dump(kf,open(kfp,'w'),indent=1)
print('instances added:',added)
