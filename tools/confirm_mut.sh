#!/bin/bash
# usage: confirm_mut.sh <PROP> <k>   -- confirm a sub-agent's seeded change against the current /repo HEAD in a scratch worktree,
# then store it under /verif/seeded/<PROP>-m<k>/
export GOFLAGS=-mod=mod GOPROXY=off GOSUMDB=off GOTOOLCHAIN=local
P=$1; K=$2; TAGS=${3:-}; EXTRA=${4:-}
src=/tmp/mut-$P/out
wt=/tmp/confirm-$P-$K
rm -rf $wt; git -C /repo worktree prune; git -C /repo worktree add -q --detach $wt HEAD || exit 2
cd $wt
demo_dir=$(python3 -c "import json;print(json.load(open('$src/m$K.json')).get('demo_dir','.'))")
[ -z "$demo_dir" ] && demo_dir=.
res="applies=no"
if git apply --3way $src/m$K.diff 2>/dev/null; then
  git reset -q   # keep working tree change, clear index
  git diff > /tmp/confirm-$P-$K.diff
  res="applies=yes"
  if go build ./... 2>/dev/null; then res="$res builds=yes"; else res="$res builds=NO"; fi
  suite=$(go test -vet=off -count=1 ./... 2>&1 | grep -- "^--- FAIL" | grep -v "TestSaveLoadNumpy" | tr '\n' ' ')
  res="$res suite_fail=[${suite}]"
  cp $src/m${K}_demo_test.go $demo_dir/zz_mutdemo_test.go
  if go test $EXTRA -vet=off -count=1 -tags "$TAGS" -run "TestMutDemo${P}m${K}\$" ./$demo_dir >/tmp/confirm-$P-$K.demo1 2>&1; then res="$res demo_with=PASS(bad)"; else res="$res demo_with=FAIL(good)"; fi
  git checkout -q -- . 
  if go test $EXTRA -vet=off -count=1 -tags "$TAGS" -run "TestMutDemo${P}m${K}\$" ./$demo_dir >/tmp/confirm-$P-$K.demo2 2>&1; then res="$res demo_without=PASS(good)"; else res="$res demo_without=FAIL(bad)"; fi
fi
echo "$P m$K: $res"
ok=0
case "$res" in *"builds=yes suite_fail=[] demo_with=FAIL(good) demo_without=PASS(good)"*) ok=1;; esac
if [ $ok = 1 ]; then
  d=/verif/seeded/$P-m$K; mkdir -p $d
  cp /tmp/confirm-$P-$K.diff $d/patch.diff
  cp $src/m${K}_demo_test.go $d/demo_test.go
  python3 - <<PY
import json
m=json.load(open('$src/m$K.json'))
meta={"property":"$P","breaks":m.get("summary"),"needs":m.get("needs"),"files":m.get("files"),"demo_dir":m.get("demo_dir","."),
 "demo_run":m.get("demo_run"),"confirmed":"scratch worktree of /repo HEAD $(git -C /repo rev-parse --short HEAD): patch applies, go build ok, full suite passes (except TestSaveLoadNumpy, offline), demo fails with the change and passes without it",
 "origin":"independent sub-agent given only the property text"}
json.dump(meta,open('$d/meta.json','w'),indent=1)
PY
fi
cd /; git -C /repo worktree remove --force $wt
rm -f /tmp/confirm-$P-$K.diff /tmp/confirm-$P-$K.demo1 /tmp/confirm-$P-$K.demo2
exit 0
