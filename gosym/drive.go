package main

// Driver: instance matrices -> parallel symbolic runs -> native replay / validation -> evidence.

import (
	"bufio"
	"encoding/json"
	"flag"
	"fmt"
	"math"
	"math/rand"
	"os"
	"os/exec"
	"path/filepath"
	"sort"
	"strconv"
	"strings"
	"sync"
	"time"
)

type propDef struct {
	KernelLevel bool
	ID        string
	Instances func(tier string, seed int64) []Instance
	Tags      []string // build configurations ("" = default)
	Bounds    map[string]interface{}
	Anchored  []string // substrings of function names that are the property's anchors
	Assume    []string
	NeedReach []string
}

var props = map[string]*propDef{}

func cmdRun(args []string) {
	trimGoCache(12 * 1024)
	fs := flag.NewFlagSet("run", flag.ExitOnError)
	prop := fs.String("prop", "", "property id")
	tier := fs.String("tier", "quick", "quick|thorough")
	jobs := fs.Int("j", 16, "workers")
	filter := fs.String("only", "", "substring filter on instance names")
	solver := fs.String("solver", defaultSolver(), "solver binary")
	noReplay := fs.Bool("noreplay", false, "skip native replay (debug)")
	noValidate := fs.Bool("novalidate", false, "skip translator validation (debug)")
	budget := fs.Duration("budget", 0, "time box for the instance matrix (0 = none)")
	verbose := fs.Bool("v", false, "verbose")
	fs.Parse(args)
	if t := os.Getenv("VERIF_TIER"); t == "quick" || t == "thorough" {
		*tier = t
	}
	seed := int64(1)
	if s := os.Getenv("VERIF_SEED"); s != "" {
		if v, err := strconv.ParseInt(s, 10, 64); err == nil {
			seed = v
		}
	}
	pd := props[*prop]
	if pd == nil {
		fmt.Fprintf(os.Stderr, "unknown property %q\n", *prop)
		os.Exit(2)
	}
	t0 := time.Now()
	kf := loadKnownFindings()
	qto := 20000
	if *tier == "thorough" {
		qto = 60000
	}
	insts := pd.Instances(*tier, seed)
	var kernelStats map[string]interface{}
	if pd.KernelLevel {
		ld0, err := LoadCached("")
		if err != nil {
			fmt.Fprintf(os.Stderr, "LOAD FAILED: %v\n", err)
			os.Exit(2)
		}
		var ki []Instance
		ki, kernelStats = kernelInstances(ld0, *tier)
		insts = append(insts, ki...)
	}
	if *filter != "" {
		var f []Instance
		for _, in := range insts {
			if strings.Contains(in.Name, *filter) {
				f = append(f, in)
			}
		}
		insts = f
	}
	// seeded order so that a time-boxed run is a reproducible prefix
	rng := rand.New(rand.NewSource(seed))
	rng.Shuffle(len(insts), func(i, j int) { insts[i], insts[j] = insts[j], insts[i] })

	// group by build tags
	byTag := map[string][]Instance{}
	for _, in := range insts {
		tg, _ := in.Cfg["tags"].(string)
		byTag[tg] = append(byTag[tg], in)
	}
	var tagKeys []string
	for k := range byTag {
		tagKeys = append(tagKeys, k)
	}
	sort.Strings(tagKeys)

	var results []InstResult
	var loadS float64
	skipped := 0
	for _, tg := range tagKeys {
		ld, err := LoadCached(tg)
		if err != nil {
			fmt.Fprintf(os.Stderr, "LOAD FAILED (tags=%q): %v\n", tg, err)
			os.Exit(2)
		}
		loadS += ld.loadTime.Seconds()
		list := byTag[tg]
		ch := make(chan Instance)
		var mu sync.Mutex
		var wg sync.WaitGroup
		var kfMu sync.Mutex
		kfBase := kf.openSet()
		for w := 0; w < *jobs; w++ {
			wg.Add(1)
			go func() {
				defer wg.Done()
				sol := NewSolver(*solver, qto)
				defer sol.Close()
				for in := range ch {
					it0 := time.Now()
					kfMu.Lock()
					ko := kf.openSetFor(pd.ID+":"+in.Name, kfBase)
					kfMu.Unlock()
					r := runInstance(ld, sol, in, runOpts{kfOpen: ko, collectND: true})
					r.WallS = time.Since(it0).Seconds()
					mu.Lock()
					results = append(results, r)
					mu.Unlock()
					if *verbose {
						fmt.Fprintf(os.Stderr, "  %-60s paths=%d obls=%d %.1fs %v\n", in.Name, r.Paths, len(r.Obls), r.WallS, r.Aborted)
					}
				}
			}()
		}
		for _, in := range list {
			if *budget > 0 && time.Since(t0) > *budget {
				skipped++
				continue
			}
			ch <- in
		}
		close(ch)
		wg.Wait()
		// validation and replay need the loaded program's harness list only
		_ = ld
	}
	sort.Slice(results, func(i, j int) bool { return results[i].Inst.Name < results[j].Inst.Name })

	if pd.ID == "C18" {
		c18CrossCheck(results)
	}
	ev := buildEvidence(pd, *tier, seed, results, kf)
	if pd.ID == "C18" {
		ev.cov["c18_event_log"] = c18Summary(results)
	}
	ev.cov["load_s"] = loadS
	if kernelStats != nil {
		ev.cov["generated_kernel_coverage"] = kernelStats
	}
	ev.cov["instances_skipped_by_budget"] = skipped

	// ---- translator validation (concrete differential against the native build) ----
	validated := 0
	if !*noValidate {
		n := 8
		if *tier == "thorough" {
			n = 64
		}
		v, mism, err := validate(pd, results, n, seed)
		if err != nil {
			fmt.Fprintf(os.Stderr, "VALIDATION ERROR: %v\n", err)
			os.Exit(2)
		}
		validated = v
		if len(mism) > 0 {
			for _, m := range mism {
				fmt.Printf("VALIDATION-MISMATCH %s\n", m)
			}
			ev.cov["validation_mismatches"] = mism
			writeEvidence(pd.ID, ev, *tier, seed, time.Since(t0).Seconds(), 0, validated)
			fmt.Println("translator validation failed: the encoding disagrees with the native build; results are not trusted")
			os.Exit(2)
		}
	}

	// ---- replay of sat models ----
	violations := 0
	var vioLines []string
	kfSeen := map[string]bool{}
	unconfirmed := 0
	if !*noReplay {
		cands := collectCandidates(results)
		conf, err := replayCandidates(pd.ID, cands, kf)
		if err != nil {
			fmt.Fprintf(os.Stderr, "REPLAY ERROR: %v\n", err)
			os.Exit(2)
		}
		for _, c := range conf {
			switch {
			case c.confirmed && c.kf != "":
				kfSeen[c.kf] = true
				validated++
			case c.confirmed:
				violations++
				validated++
				vioLines = append(vioLines, fmt.Sprintf("VIOLATION property=%s replay=%s", pd.ID, c.path))
				fmt.Printf("  violated: %s [%s] assertion %s\n", c.inst, c.harness, c.assert)
			default:
				unconfirmed++
				fmt.Printf("UNCONFIRMED %s %s assertion %s (model does not reproduce natively: %s)\n", c.inst, c.harness, c.assert, c.path)
			}
		}
	} else {
		for _, r := range results {
			for _, o := range r.Obls {
				if o.Verdict == "violated" {
					violations++
					fmt.Printf("  (unreplayed) violated: %s %s %s\n", r.Inst.Name, o.ID, modelString(o.Model))
				}
				if o.Verdict == "known-finding" {
					kfSeen[o.KF] = true
				}
			}
		}
	}
	// ---- undecided obligations: concrete probing of the native build (fallback, reported as such) ----
	if !*noReplay {
		pv, pstat, err := probeUndecided(pd, results, kf, seed)
		if err != nil {
			fmt.Fprintf(os.Stderr, "PROBE ERROR: %v\n", err)
			os.Exit(2)
		}
		ev.cov["undecided_obligations_probed_natively"] = pstat
		for _, c := range pv {
			violations++
			vioLines = append(vioLines, fmt.Sprintf("VIOLATION property=%s replay=%s", pd.ID, c.path))
			fmt.Printf("  violated (concrete probe of an undecided obligation): %s [%s] assertion %s\n", c.inst, c.harness, c.assert)
		}
	}
	var kfIDs []string
	for id := range kfSeen {
		kfIDs = append(kfIDs, id)
	}
	sort.Strings(kfIDs)
	var kfList []map[string]interface{}
	for _, id := range kfIDs {
		what := id
		owner := pd.ID
		if f := kf.get(id); f != nil {
			what = f.What
			owner = f.Property
		}
		if owner == pd.ID {
			fmt.Printf("KNOWN-FINDING: property=%s %s: %s\n", pd.ID, id, what)
		}
		// a finding listed under another property whose region this property's instances re-enter (re-used harnesses)
		// is reported by that property's own check; here its region is only excluded (and recorded in the evidence)
		kfList = append(kfList, map[string]interface{}{"id": id, "reproduced": true, "listed_under": owner})
	}
	ev.cov["known_findings"] = kfList
	// region audit: instances that enter a finding's region vs instances in which the failure was actually found there
	// (a region much wider than what fails could hide a new defect; narrowed regions are documented in DESIGN.md)
	type ra struct{ in, hit map[string]bool }
	audit := map[string]*ra{}
	for _, r := range results {
		undecided := len(r.Aborted) > 0 || r.PathLimit || r.UnknownBr > 0 || r.KFUndecided
		for _, o := range r.Obls {
			if o.Verdict == "inconclusive" {
				undecided = true
			}
		}
		for _, o := range r.Obls {
			if o.KF == "" {
				continue
			}
			if undecided {
				// an instance with anything undecided is never reported as "no failure in the region"
				if audit[o.KF] == nil {
					audit[o.KF] = &ra{map[string]bool{}, map[string]bool{}}
				}
				audit[o.KF].in[r.Inst.Name] = true
				audit[o.KF].hit[r.Inst.Name] = true
				continue
			}
			a := audit[o.KF]
			if a == nil {
				a = &ra{map[string]bool{}, map[string]bool{}}
				audit[o.KF] = a
			}
			a.in[r.Inst.Name] = true
			if o.Verdict == "known-finding" {
				a.hit[r.Inst.Name] = true
			}
		}
	}
	regionAudit := map[string]interface{}{}
	for id, a := range audit {
		var quiet []string
		for n := range a.in {
			if !a.hit[n] {
				quiet = append(quiet, n)
			}
		}
		sort.Strings(quiet)
		for i := range quiet {
			quiet[i] = pd.ID + ":" + quiet[i] // (instance names are only unique within a property)
		}
		regionAudit[id] = map[string]interface{}{"instances_in_region": len(a.in), "instances_where_the_failure_was_found": len(a.hit), "in_region_without_failure": quiet}
		if os.Getenv("GOSYM_KFAUDIT") != "" && len(quiet) > 0 {
			fmt.Printf("KF-AUDIT %s: %d of %d instances in the region show no failure there: %v\n", id, len(quiet), len(a.in), quiet)
		}
	}
	ev.cov["known_finding_region_audit"] = regionAudit
	ev.cov["unconfirmed_models"] = unconfirmed
	vacuous := ev.vacuous
	wall := time.Since(t0).Seconds()
	writeEvidence(pd.ID, ev, *tier, seed, wall, violations, validated)
	fmt.Printf("%s %s: instances=%d paths=%d obligations=%d discharged=%d inconclusive=%d violated=%d queries=%d (nontrivial %d) solver=%.1fs wall=%.1fs validated=%d\n",
		pd.ID, *tier, len(results), ev.paths, ev.obls, ev.discharged, ev.inconclusive, violations, ev.queries, ev.queries-ev.trivial, ev.solverS, wall, validated)
	for _, l := range ev.inconcLines {
		fmt.Println(l)
	}
	if len(vacuous) > 0 {
		for _, v := range vacuous {
			fmt.Printf("VACUOUS %s\n", v)
		}
		fmt.Println("vacuity check failed: a harness never reached its assertions")
		os.Exit(2)
	}
	if violations > 0 {
		for _, l := range vioLines {
			fmt.Println(l)
		}
		os.Exit(1)
	}
	os.Exit(0)
}

type evidenceAcc struct {
	cov          map[string]interface{}
	paths        int
	obls         int
	discharged   int
	inconclusive int
	queries      int
	trivial      int
	solverS      float64
	steps        int64
	vacuous      []string
	inconcLines  []string
}

func buildEvidence(pd *propDef, tier string, seed int64, results []InstResult, kf *KFFile) *evidenceAcc {
	ev := &evidenceAcc{cov: map[string]interface{}{}}
	funcs := map[string]bool{}
	intr := map[string]int{}
	aborted := map[string]int{}
	var samples []interface{}
	concreteOnly := 0
	unknownBr := 0
	byHarness := map[string]int{}
	reachedBy := map[string]map[string]bool{}
	pathLimited := 0
	for _, r := range results {
		ev.paths += r.Paths
		ev.steps += r.Steps
		ev.queries += r.Queries
		ev.trivial += r.Trivial
		ev.solverS += r.SolverS
		unknownBr += r.UnknownBr
		hk := r.Inst.Harness
		if i := strings.Index(hk, ":"); i > 0 {
			hk = hk[:i] // all kernels form one harness family
		}
		byHarness[hk]++
		if r.PathLimit {
			pathLimited++
		}
		if reachedBy[hk] == nil {
			reachedBy[hk] = map[string]bool{}
		}
		for k := range r.Reached {
			reachedBy[hk][k] = true
		}
		for _, f := range r.Funcs {
			funcs[f] = true
		}
		for k, v := range r.Intr {
			intr[k] += v
		}
		for k, v := range r.Aborted {
			aborted[k] += v
		}
		if r.Err != "" {
			aborted["ERR "+r.Err]++
		}
		nontriv := 0
		var sampleQ string
		for _, o := range r.Obls {
			if o.Verdict == "known-finding" {
				continue
			}
			ev.obls++
			switch o.Verdict {
			case "discharged":
				ev.discharged++
			case "inconclusive":
				ev.inconclusive++
				if len(ev.inconcLines) < 20 {
					ev.inconcLines = append(ev.inconcLines, fmt.Sprintf("INCONCLUSIVE %s %s (solver unknown/timeout)", r.Inst.Name, o.ID))
				}
			}
			if !o.Trivial {
				nontriv++
				if sampleQ == "" {
					sampleQ = o.Query
				}
			}
		}
		if nontriv == 0 && len(r.Obls) > 0 {
			concreteOnly++
		}
		if len(samples) < 6 && nontriv > 0 {
			samples = append(samples, map[string]interface{}{"harness": r.Inst.Harness, "instance": r.Inst.Name, "cfg": r.Inst.Cfg,
				"paths": r.Paths, "obligations": len(r.Obls), "nontrivial_obligations": nontriv, "symbolic_inputs": r.NDNames, "query": sampleQ, "solver_s": r.SolverS})
		}
	}
	if len(samples) == 0 {
		for _, r := range results {
			if len(samples) < 3 {
				samples = append(samples, map[string]interface{}{"harness": r.Inst.Harness, "instance": r.Inst.Name, "paths": r.Paths, "obligations": len(r.Obls)})
			}
		}
	}
	for k, v := range aborted {
		if len(ev.inconcLines) < 40 {
			ev.inconcLines = append(ev.inconcLines, fmt.Sprintf("INCONCLUSIVE-PATHS x%d: %s", v, k))
		}
	}
	// vacuity: every harness must reach its witnesses on some instance
	for h := range byHarness {
		if len(reachedBy[h]) == 0 {
			ev.vacuous = append(ev.vacuous, h+": no reach witness hit on any instance")
		}
	}
	var fl, anchored []string
	for f := range funcs {
		fl = append(fl, f)
		for _, a := range pd.Anchored {
			if strings.Contains(f, a) {
				anchored = append(anchored, f)
				break
			}
		}
	}
	sort.Strings(fl)
	sort.Strings(anchored)
	var il []string
	for k := range intr {
		il = append(il, k)
	}
	sort.Strings(il)
	ev.cov["states"] = ev.paths
	ev.cov["transitions"] = ev.steps
	ev.cov["samples"] = samples
	ev.cov["instances"] = len(results)
	ev.cov["instances_by_harness"] = byHarness
	ev.cov["obligations"] = ev.obls
	ev.cov["discharged"] = ev.discharged
	ev.cov["trivial_queries"] = ev.trivial
	ev.cov["nontrivial_queries"] = ev.queries - ev.trivial
	ev.cov["queries"] = ev.queries
	ev.cov["solver_time_s"] = math.Round(ev.solverS*100) / 100
	ev.cov["concrete_only_instances"] = concreteOnly
	ev.cov["inconclusive"] = map[string]interface{}{"obligations_unknown_or_timeout": ev.inconclusive, "aborted_paths_by_reason": aborted, "branch_feasibility_unknown": unknownBr, "instances_hitting_path_limit": pathLimited}
	ev.cov["functions_encoded"] = map[string]interface{}{"count": len(fl), "anchored": anchored, "all": fl}
	ev.cov["intrinsics_hit"] = il
	ev.cov["bounds"] = pd.Bounds
	ev.cov["exhaustive"] = false
	ev.cov["solver"] = defaultSolver() + " (-in, push/pop, no set-logic; z3-new = z3 5.1.0, z3 = 4.8.12)"
	return ev
}

func writeEvidence(id string, ev *evidenceAcc, tier string, seed int64, wall float64, violations, validated int) {
	ev.cov["traces_validated_against_impl"] = validated
	pd := props[id]
	out := map[string]interface{}{
		"property_id": id, "tier": tier, "seed": seed, "level": "model_checking",
		"coverage": ev.cov, "wall_s": math.Round(wall*10) / 10, "violations": violations,
		"assumptions": append([]string{"amd64 sizes and alignment", "go/ssa (x/tools v0.29.0) as front end", "intrinsic models listed in coverage.intrinsics_hit",
			"structure (dtype, shape, layout, mode) instantiated per instance; data symbolic"}, pd.Assume...),
	}
	dir := filepath.Join(outDir(), "evidence")
	os.MkdirAll(dir, 0o755)
	b, _ := json.MarshalIndent(out, "", " ")
	os.WriteFile(filepath.Join(dir, id+".json"), b, 0o644)
}

// ---------- candidates and native replay ----------

type candidate struct {
	inst, harness, assert, kf string
	cfg                       map[string]interface{}
	model                     map[string]string
	path                      string
	confirmed                 bool
	ring                      bool
}

func collectCandidates(results []InstResult) []*candidate {
	var out []*candidate
	seen := map[string]int{}
	for _, r := range results {
		for _, o := range r.Obls {
			if o.Verdict != "violated" && o.Verdict != "known-finding" {
				continue
			}
			kfid := ""
			if o.Verdict == "known-finding" {
				kfid = o.KF
			}
			key := r.Inst.Harness + "|" + o.ID + "|" + kfid
			limit := 3
			if kfid != "" {
				// a finding is re-confirmed from several different instances (one model per instance, at most two per element
				// type, eight in all): a single unlucky model (e.g. one the native stand-in for an uninterpreted function maps to
				// the same value) must not leave a listed finding unreported
				dt, _ := r.Inst.Cfg["dtype"].(string)
				ik, dk := key+"|inst|"+r.Inst.Name, key+"|dt|"+dt
				if seen[ik] >= 1 || seen[dk] >= 2 {
					continue
				}
				seen[ik]++
				seen[dk]++
				limit = 8
			}
			if seen[key] >= limit {
				continue
			}
			seen[key]++
			out = append(out, &candidate{inst: r.Inst.Name, harness: r.Inst.Harness, assert: o.ID, kf: kfid, cfg: r.Inst.Cfg, model: o.Model, ring: r.Inst.Ring})
		}
	}
	return out
}

func replayCandidates(prop string, cands []*candidate, kf *KFFile) ([]*candidate, error) {
	if len(cands) == 0 {
		return nil, nil
	}
	dir := filepath.Join(outDir(), "replays", prop)
	os.MkdirAll(dir, 0o755)
	old, _ := filepath.Glob(filepath.Join(dir, "*.json"))
	for _, f := range old {
		os.Remove(f)
	}
	var open []string
	for id := range kf.openSet() {
		open = append(open, id)
	}
	sort.Strings(open)
	byTags := map[string][]*candidate{}
	for i, c := range cands {
		c.path = filepath.Join(dir, fmt.Sprintf("%s-%d.json", c.harness, i))
		hname := c.harness
		if strings.HasPrefix(hname, "@asm:") {
			hname = "vhC20Divmod" // counterexamples of the assembly encoding are replayed against the real assembly
		}
		rf := map[string]interface{}{"harness": hname, "cfg": c.cfg, "model": ringModel(c.model, c.ring, c.cfg), "assert": c.assert, "kf_open": open, "instance": c.inst}
		b, _ := json.MarshalIndent(rf, "", " ")
		os.WriteFile(c.path, b, 0o644)
		tg, _ := c.cfg["tags"].(string)
		byTags[tg] = append(byTags[tg], c)
	}
	for tg, list := range byTags {
		var paths []string
		var rest []*candidate
		var kld *Loaded
		for _, c := range list {
			if strings.HasPrefix(c.harness, "@kernel:") {
				if kld == nil {
					var err error
					if kld, err = Load(tg); err != nil {
						return nil, err
					}
				}
				ok, why := confirmKernel(kld, c)
				c.confirmed = ok
				if !ok && why != "" {
					fmt.Printf("  kernel replay %s: %s\n", c.harness, why)
				}
				continue
			}
			paths = append(paths, c.path)
			rest = append(rest, c)
		}
		list = rest
		if len(paths) == 0 {
			continue
		}
		// C18 event obligations are confirmed by the race detector on a concurrent native run of the same instance
		var plain []string
		for _, c := range list {
			if isEventObl(c.assert) {
				if done, ok := raceDone[c.inst]; ok {
					c.confirmed = done
					continue
				}
				raced, out := nativeRace(c.path, tg)
				raceDone[c.inst] = raced
				c.confirmed = raced
				if !raced {
					fmt.Printf("  race replay %s: no report from the race detector\n%s\n", c.inst, tail(out, 600))
				}
				continue
			}
			plain = append(plain, c.path)
		}
		paths = plain
		if len(paths) == 0 {
			continue
		}
		res, err := nativeBatch(paths, tg)
		if err != nil {
			return nil, err
		}
		for _, c := range list {
			r, ok := res[c.path]
			if !ok {
				continue
			}
			want := c.assert
			if c.kf != "" {
				want = c.assert + "@" + c.kf
			}
			if c.assert == "no-uncaught-panic" {
				c.confirmed = r.panicked
				continue
			}
			for _, f := range r.failures {
				if f == want {
					c.confirmed = true
				}
			}
		}
	}
	return cands, nil
}

// ringModel converts ring-mode integer values to float bit patterns for native replay.
func ringModel(m map[string]string, ring bool, cfg map[string]interface{}) map[string]string {
	if !ring {
		return m
	}
	dt, _ := cfg["dtype"].(string)
	w32 := dt == "float32" || dt == "complex64"
	out := map[string]string{}
	for k, v := range m {
		if strings.HasPrefix(v, "ring:") {
			n, _ := strconv.ParseUint(v[5:], 10, 64)
			if w32 {
				out[k] = fmt.Sprintf("f32:%d", math.Float32bits(float32(int64(n))))
			} else {
				out[k] = fmt.Sprintf("f64:%d", math.Float64bits(float64(int64(n))))
			}
		} else {
			out[k] = v
		}
	}
	return out
}

type nativeResult struct {
	failures []string
	panicked bool
	assumeKO bool
	observed string
	panicMsg string
}

var raceDone = map[string]bool{}

// nativeRace runs TestVRace for one replay file under the race detector; true when a data race was reported.
func nativeRace(path string, tags string) (bool, string) {
	om, err := overlayMap()
	if err != nil {
		return false, err.Error()
	}
	tmp, err := os.MkdirTemp("", "gosym-race")
	if err != nil {
		return false, err.Error()
	}
	defer os.RemoveAll(tmp)
	repl := map[string]string{}
	for v, r := range om {
		repl[v] = r
	}
	repl[filepath.Join(repoDir, "zz_verif_replay_test.go")] = filepath.Join(harnessDir(), "native", "replay_test.go.txt")
	ob, _ := json.Marshal(map[string]interface{}{"Replace": repl})
	ovf := filepath.Join(tmp, "overlay.json")
	os.WriteFile(ovf, ob, 0o644)
	args := []string{"test", "-race", "-vet=off", "-count=1", "-timeout", "20m", "-overlay", ovf, "-run", "^TestVRace$", "-v"}
	if tags != "" {
		args = append(args, "-tags", tags)
	}
	args = append(args, ".")
	cmd := exec.Command("go", args...)
	cmd.Dir = repoDir
	cmd.Env = append(os.Environ(), "GOFLAGS=-mod=mod", "GOPROXY=off", "GOSUMDB=off", "GOTOOLCHAIN=local", "VERIF_RACE="+path, "CGO_ENABLED=1")
	out, _ := cmd.CombinedOutput()
	s := string(out)
	return strings.Contains(s, "WARNING: DATA RACE"), s
}

// nativeBatch runs the harnesses natively (go test -overlay) on a list of replay files. Replay files of harnesses that live
// in package native ("native.*") are run by a test of that package, all others by a test of package tensor.
func nativeBatch(paths []string, tags string) (map[string]nativeResult, error) {
	var pt, pn []string
	for _, p := range paths {
		var rf struct {
			Harness string `json:"harness"`
		}
		if b, err := os.ReadFile(p); err == nil {
			json.Unmarshal(b, &rf)
		}
		if strings.HasPrefix(rf.Harness, "native.") {
			pn = append(pn, p)
		} else {
			pt = append(pt, p)
		}
	}
	res := map[string]nativeResult{}
	for _, part := range []struct {
		paths        []string
		sub, testSrc string
	}{{pt, "", "replay_test.go.txt"}, {pn, "native", "native_replay_test.go.txt"}} {
		if len(part.paths) == 0 {
			continue
		}
		r, err := nativeBatchIn(part.paths, tags, part.sub, part.testSrc)
		if err != nil {
			return nil, err
		}
		for k, v := range r {
			res[k] = v
		}
	}
	return res, nil
}

func nativeBatchIn(paths []string, tags string, sub string, testName string) (map[string]nativeResult, error) {
	om, err := overlayMap()
	if err != nil {
		return nil, err
	}
	tmp, err := os.MkdirTemp("", "gosym-replay")
	if err != nil {
		return nil, err
	}
	defer os.RemoveAll(tmp)
	testSrc := filepath.Join(harnessDir(), "native", testName)
	repl := map[string]string{}
	for v, r := range om {
		repl[v] = r
	}
	repl[filepath.Join(repoDir, sub, "zz_verif_replay_test.go")] = testSrc
	ob, _ := json.Marshal(map[string]interface{}{"Replace": repl})
	ovf := filepath.Join(tmp, "overlay.json")
	os.WriteFile(ovf, ob, 0o644)
	batch := filepath.Join(tmp, "batch.txt")
	os.WriteFile(batch, []byte(strings.Join(paths, "\n")+"\n"), 0o644)
	args := []string{"test", "-vet=off", "-count=1", "-timeout", "20m", "-overlay", ovf, "-run", "^TestVBatch$", "-v"}
	if tags != "" {
		args = append(args, "-tags", tags)
	}
	if sub == "" {
		args = append(args, ".")
	} else {
		args = append(args, "./"+sub)
	}
	cmd := exec.Command("go", args...)
	cmd.Dir = repoDir
	cmd.Env = append(os.Environ(), "GOFLAGS=-mod=mod", "GOPROXY=off", "GOSUMDB=off", "GOTOOLCHAIN=local", "VERIF_BATCH="+batch)
	out, _ := cmd.CombinedOutput()
	res := map[string]nativeResult{}
	sc := bufio.NewScanner(strings.NewReader(string(out)))
	sc.Buffer(make([]byte, 1<<20), 1<<26)
	for sc.Scan() {
		line := sc.Text()
		if !strings.HasPrefix(line, "VRESULT\t") {
			continue
		}
		f := strings.Split(line, "\t")
		if len(f) < 7 {
			continue
		}
		r := nativeResult{panicked: f[3] == "true", assumeKO: f[4] == "true", observed: f[5], panicMsg: f[6]}
		if f[2] != "" {
			r.failures = strings.Split(f[2], ",")
		}
		res[f[1]] = r
	}
	if len(res) == 0 {
		return nil, fmt.Errorf("native batch produced no results:\n%s", tail(string(out), 3000))
	}
	return res, nil
}

func tail(s string, n int) string {
	if len(s) > n {
		return s[len(s)-n:]
	}
	return s
}

// ---------- translator validation ----------

// validate runs each harness on seeded concrete vectors in gosym's concrete mode and natively; results must agree.
func validate(pd *propDef, results []InstResult, n int, seed int64) (int, []string, error) {
	// choose instances: spread over harnesses
	byH := map[string][]InstResult{}
	var kernelRes []InstResult
	for _, r := range results {
		if strings.HasPrefix(r.Inst.Harness, "@kernel:") {
			if len(r.NDNames) > 0 && r.Err == "" && len(r.Aborted) == 0 {
				kernelRes = append(kernelRes, r)
			}
			continue
		}
		if strings.HasPrefix(r.Inst.Harness, "@asm:") {
			continue
		}
		if len(r.NDNames) > 0 && r.Err == "" {
			byH[r.Inst.Harness] = append(byH[r.Inst.Harness], r)
		}
	}
	var hs []string
	for h := range byH {
		hs = append(hs, h)
	}
	sort.Strings(hs)
	rng := rand.New(rand.NewSource(seed * 7919))
	kvalidated := 0
	var kmism []string
	if len(kernelRes) > 0 {
		kld, err := LoadCached("")
		if err != nil {
			return 0, nil, err
		}
		for i := 0; i < n && i < len(kernelRes); i++ {
			r := kernelRes[rng.Intn(len(kernelRes))]
			m := map[string]string{}
			for j, name := range r.NDNames {
				m[name] = randomLiteral(rng, r.NDSorts[j], name)
			}
			c := &candidate{inst: r.Inst.Name, harness: r.Inst.Harness, cfg: r.Inst.Cfg, model: m, assert: "kernel-table"}
			_, why := confirmKernel(kld, c)
			if strings.HasPrefix(why, "engine/native disagreement") {
				kmism = append(kmism, r.Inst.Name+": "+why+" model{"+modelString(m)+"}")
			} else if !strings.HasPrefix(why, "concrete re-execution aborted") {
				kvalidated++
			}
		}
	}
	if len(hs) == 0 {
		return kvalidated, kmism, nil
	}
	type vec struct {
		inst  Instance
		model map[string]string
		path  string
	}
	var vecs []vec
	for i := 0; i < n; i++ {
		h := hs[i%len(hs)]
		rs := byH[h]
		r := rs[rng.Intn(len(rs))]
		m := map[string]string{}
		for j, name := range r.NDNames {
			m[name] = randomLiteral(rng, r.NDSorts[j], name)
		}
		vecs = append(vecs, vec{inst: r.Inst, model: m})
	}
	dir, err := os.MkdirTemp("", "gosym-validate")
	if err != nil {
		return 0, nil, err
	}
	defer os.RemoveAll(dir)
	byTags := map[string][]int{}
	for i := range vecs {
		vecs[i].path = filepath.Join(dir, fmt.Sprintf("v%d.json", i))
		rf := map[string]interface{}{"harness": vecs[i].inst.Harness, "cfg": vecs[i].inst.Cfg, "model": ringModel(vecs[i].model, vecs[i].inst.Ring, vecs[i].inst.Cfg), "assert": "", "kf_open": []string{}}
		b, _ := json.Marshal(rf)
		os.WriteFile(vecs[i].path, b, 0o644)
		tg, _ := vecs[i].inst.Cfg["tags"].(string)
		byTags[tg] = append(byTags[tg], i)
	}
	validated := kvalidated
	mism := kmism
	for tg, idxs := range byTags {
		var paths []string
		for _, i := range idxs {
			paths = append(paths, vecs[i].path)
		}
		nat, err := nativeBatch(paths, tg)
		if err != nil {
			return 0, nil, err
		}
		ld, err := LoadCached(tg)
		if err != nil {
			return 0, nil, err
		}
		sol := NewSolver(defaultSolver(), 10000)
		for _, i := range idxs {
			v := vecs[i]
			r := runInstance(ld, sol, v.inst, runOpts{concrete: v.model, kfOpen: map[string]bool{}})
			var fails []string
			panicked := false
			for _, o := range r.Obls {
				if o.Verdict == "violated" {
					if o.ID == "no-uncaught-panic" {
						panicked = true
					} else if !isEventObl(o.ID) {
						// (event obligations exist in the executor only; they are confirmed by the race detector, not here)
						fails = append(fails, o.ID)
					}
				}
			}
			nr, ok := nat[v.path]
			if !ok {
				mism = append(mism, fmt.Sprintf("%s: no native result", v.inst.Name))
				continue
			}
			if len(r.Aborted) > 0 {
				// engine could not run the vector concretely: not a mismatch, but not validated either
				continue
			}
			assumeKO := r.Dropped > 0
			// (which assertions fail is compared, not how often: the native harness and the executor may stop repeating an
			// assertion inside a loop at different points)
			fails, nr.failures = uniqSorted(fails), uniqSorted(nr.failures)
			sym := fmt.Sprintf("fail=%v panic=%v assumeKO=%v obs=%s", fails, panicked, assumeKO, strings.Join(r.Observe, " "))
			natS := fmt.Sprintf("fail=%v panic=%v assumeKO=%v obs=%s", nr.failures, nr.panicked, nr.assumeKO, nr.observed)
			if len(fails) == 0 {
				sym = fmt.Sprintf("fail=[] panic=%v assumeKO=%v obs=%s", panicked, assumeKO, strings.Join(r.Observe, " "))
			}
			if len(nr.failures) == 0 {
				natS = fmt.Sprintf("fail=[] panic=%v assumeKO=%v obs=%s", nr.panicked, nr.assumeKO, nr.observed)
			}
			if sym != natS {
				mism = append(mism, fmt.Sprintf("%s model{%s}\n   gosym : %s\n   native: %s (%s)", v.inst.Name, modelString(v.model), sym, natS, nr.panicMsg))
			} else {
				validated++
			}
		}
		sol.Close()
	}
	return validated, mism, nil
}

func randomLiteral(rng *rand.Rand, tag string, name string) string {
	switch {
	case tag == "b":
		return fmt.Sprintf("b:%d", rng.Intn(2))
	case strings.HasPrefix(tag, "u"):
		w, _ := strconv.Atoi(tag[1:])
		var v uint64
		switch rng.Intn(4) {
		case 0:
			v = rng.Uint64()
		default:
			v = uint64(int64(rng.Intn(9) - 2))
		}
		return fmt.Sprintf("%s:%d", tag, v&maskW(w))
	case tag == "f32":
		fs := []float32{0, float32(math.Copysign(0, -1)), 1, -1, 2.5, -3, float32(math.Inf(1)), float32(math.NaN()), 7, 100}
		return fmt.Sprintf("f32:%d", math.Float32bits(fs[rng.Intn(len(fs))]))
	case tag == "f64":
		fs := []float64{0, math.Copysign(0, -1), 1, -1, 2.5, -3, math.Inf(1), math.NaN(), 7, 100}
		return fmt.Sprintf("f64:%d", math.Float64bits(fs[rng.Intn(len(fs))]))
	case tag == "?":
		return "s_" + string(rune('a'+rng.Intn(4)))
	case tag == "ring":
		return fmt.Sprintf("ring:%d", uint64(int64(rng.Intn(9)-3)))
	}
	return "u64:0"
}

// cmdReplay re-runs one replay file against the native build: exit 1 if the recorded assertion fails natively.
func cmdReplay(args []string) {
	if len(args) < 1 {
		fmt.Fprintln(os.Stderr, "usage: gosym replay <file.json>")
		os.Exit(2)
	}
	b, err := os.ReadFile(args[0])
	if err != nil {
		fmt.Fprintln(os.Stderr, err)
		os.Exit(2)
	}
	var rf struct {
		Harness string                 `json:"harness"`
		Cfg     map[string]interface{} `json:"cfg"`
		Assert  string                 `json:"assert"`
	}
	json.Unmarshal(b, &rf)
	tg, _ := rf.Cfg["tags"].(string)
	abs, _ := filepath.Abs(args[0])
	if strings.HasPrefix(rf.Harness, "@kernel:") {
		fmt.Println("kernel-level counterexamples are replayed by the check itself (generated execution_test); re-run the check")
		os.Exit(2)
	}
	if isEventObl(rf.Assert) {
		raced, out := nativeRace(abs, tg)
		fmt.Printf("harness=%s assert=%s native: 4 goroutines x 25 runs under the race detector: data race reported=%v\n", rf.Harness, rf.Assert, raced)
		if raced {
			i := strings.Index(out, "WARNING: DATA RACE")
			fmt.Println(tail(out[i:], 1500))
			fmt.Println("REPRODUCED")
			os.Exit(1)
		}
		fmt.Println("not reproduced")
		return
	}
	res, err := nativeBatch([]string{abs}, tg)
	if err != nil {
		fmt.Fprintln(os.Stderr, err)
		os.Exit(2)
	}
	r := res[abs]
	fmt.Printf("harness=%s assert=%s native: failures=%v panicked=%v %s\n", rf.Harness, rf.Assert, r.failures, r.panicked, r.panicMsg)
	for _, f := range r.failures {
		if f == rf.Assert || strings.HasPrefix(f, rf.Assert+"@") {
			fmt.Println("REPRODUCED")
			os.Exit(1)
		}
	}
	if rf.Assert == "no-uncaught-panic" && r.panicked {
		fmt.Println("REPRODUCED")
		os.Exit(1)
	}
	fmt.Println("not reproduced")
}

// outDir is where evidence and replay files go: /verif, or $VERIF_OUT for regression runs that must not overwrite them.
func outDir() string {
	if d := os.Getenv("VERIF_OUT"); d != "" {
		return d
	}
	return verifDir()
}

// c18CrossCheck: an operation that reads library-global state outside a mutex races with any operation of the menu that
// writes the same state (the writer holding a mutex does not help the unlocked reader). Conflicts are added as violated
// obligations to the reading instance, with the writer named in the replay configuration (op2).
func c18CrossCheck(results []InstResult) {
	type wr struct {
		inst int
		ctx  string
	}
	writes := map[string]wr{}
	for i, r := range results {
		for l, ctx := range r.C18Writes {
			if _, ok := writes[l]; !ok {
				writes[l] = wr{i, ctx}
			}
		}
	}
	for i := range results {
		r := &results[i]
		for _, l := range r.C18Reads {
			w, ok := writes[l]
			if !ok {
				continue
			}
			cfg := map[string]interface{}{}
			for k, v := range r.Inst.Cfg {
				cfg[k] = v
			}
			cfg["op2"] = results[w.inst].Inst.Cfg["op"]
			r.Inst.Cfg = cfg
			model := map[string]string{}
			for _, o := range r.Obls {
				if len(o.Model) > 0 {
					model = o.Model
					break
				}
			}
			r.Obls = append(r.Obls, Obligation{ID: "global-state-written-only-under-mutex", Verdict: "violated", Model: model,
				Query: fmt.Sprintf("%s is read outside any mutex here and written (lock context %q) by %s", l, w.ctx, results[w.inst].Inst.Name)})
		}
	}
}

func c18Summary(results []InstResult) map[string]interface{} {
	events := 0
	reads := map[string]bool{}
	writes := map[string]string{}
	notes := map[string]int{}
	for _, r := range results {
		events += r.C18Events
		for _, l := range r.C18Reads {
			reads[l] = true
		}
		for l, c := range r.C18Writes {
			writes[l] = c
		}
		for n, k := range r.C18Notes {
			notes[n] += k
		}
	}
	var rl []string
	for l := range reads {
		rl = append(rl, l)
	}
	sort.Strings(rl)
	return map[string]interface{}{"shared_or_global_accesses_logged": events, "global_state_read_outside_mutex": rl, "global_state_written": writes, "writes_to_shared_operands": notes,
		"atomic_by_model": []string{"sync.Pool Get/Put", "channel send/receive/select (densePool, headerPool, boolsPool)", "sync.Mutex Lock/Unlock"}}
}

func isEventObl(id string) bool {
	return id == "shared-operand-not-written" || id == "global-state-written-only-under-mutex" || id == "pool-object-not-put-twice"
}

func uniqSorted(a []string) []string {
	m := map[string]bool{}
	var out []string
	for _, x := range a {
		if !m[x] {
			m[x] = true
			out = append(out, x)
		}
	}
	sort.Strings(out)
	return out
}

// probeUndecided: an obligation the solver could not decide within its time limit (typically 64-bit floating-point division or
// long FP sums) is reported as inconclusive - never as held. As a fallback the instances that have such obligations are also
// run natively on seeded concrete vectors (the same harness, compiled natively, is its own oracle); a vector on which an
// assertion fails outside the open findings' regions is a violation with a replay file. This is sampling, used only where
// the solver gave no verdict, and is reported separately in the evidence.
func probeUndecided(pd *propDef, results []InstResult, kf *KFFile, seed int64) ([]*candidate, map[string]interface{}, error) {
	stat := map[string]interface{}{"instances": 0, "vectors": 0, "violations": 0}
	var insts []InstResult
	for _, r := range results {
		if strings.HasPrefix(r.Inst.Harness, "@") || len(r.NDNames) == 0 {
			continue
		}
		und := false
		for _, o := range r.Obls {
			if o.Verdict == "inconclusive" {
				und = true
			}
		}
		if und {
			insts = append(insts, r)
		}
	}
	if len(insts) == 0 {
		return nil, stat, nil
	}
	if len(insts) > 24 {
		step := len(insts) / 24
		var sel []InstResult
		for i := 0; i < len(insts) && len(sel) < 24; i += step {
			sel = append(sel, insts[i])
		}
		insts = sel
	}
	const perInst = 12
	dir := filepath.Join(outDir(), "replays", pd.ID)
	os.MkdirAll(dir, 0o755)
	rng := rand.New(rand.NewSource(seed*104729 + 17))
	base := kf.openSet()
	type pr struct {
		r    InstResult
		path string
	}
	byTags := map[string][]pr{}
	n := 0
	for ii, r := range insts {
		ko := kf.openSetFor(pd.ID+":"+r.Inst.Name, base)
		var open []string
		for id := range ko {
			open = append(open, id)
		}
		sort.Strings(open)
		for k := 0; k < perInst; k++ {
			m := map[string]string{}
			for j, name := range r.NDNames {
				m[name] = probeLiteral(rng, r.NDSorts[j])
			}
			path := filepath.Join(dir, fmt.Sprintf("probe-%d-%d.json", ii, k))
			rf := map[string]interface{}{"harness": r.Inst.Harness, "cfg": r.Inst.Cfg, "model": ringModel(m, r.Inst.Ring, r.Inst.Cfg), "assert": "", "kf_open": open, "instance": r.Inst.Name, "origin": "concrete probe of an undecided obligation"}
			b, _ := json.MarshalIndent(rf, "", " ")
			os.WriteFile(path, b, 0o644)
			tg, _ := r.Inst.Cfg["tags"].(string)
			byTags[tg] = append(byTags[tg], pr{r, path})
			n++
		}
	}
	stat["instances"], stat["vectors"] = len(insts), n
	var out []*candidate
	for tg, list := range byTags {
		var paths []string
		for _, p := range list {
			paths = append(paths, p.path)
		}
		nat, err := nativeBatch(paths, tg)
		if err != nil {
			return nil, stat, err
		}
		for _, p := range list {
			res, ok := nat[p.path]
			bad := ""
			if ok && !res.assumeKO {
				if res.panicked {
					bad = "no-uncaught-panic"
				}
				for _, f := range res.failures {
					if !strings.Contains(f, "@") { // (failures inside an open finding's region carry "@<finding>")
						bad = f
					}
				}
			}
			if bad == "" {
				os.Remove(p.path)
				continue
			}
			if len(out) < 6 {
				// record the failing assertion in the replay file (for `check --replay`)
				if b, err := os.ReadFile(p.path); err == nil {
					var rf map[string]interface{}
					if json.Unmarshal(b, &rf) == nil {
						rf["assert"] = bad
						nb, _ := json.MarshalIndent(rf, "", " ")
						os.WriteFile(p.path, nb, 0o644)
					}
				}
				out = append(out, &candidate{inst: p.r.Inst.Name, harness: p.r.Inst.Harness, assert: bad, cfg: p.r.Inst.Cfg, path: p.path, confirmed: true})
			} else {
				os.Remove(p.path)
			}
		}
	}
	stat["violations"] = len(out)
	return out, stat, nil
}

// probeLiteral: a richer distribution than the translator-validation vectors (which favour special values).
func probeLiteral(rng *rand.Rand, tag string) string {
	switch {
	case tag == "f32" || tag == "f64":
		var x float64
		switch rng.Intn(10) {
		case 0:
			return randomLiteral(rng, tag, "")
		case 1:
			x = float64(rng.Intn(21) - 10)
		default:
			x = (rng.Float64()*2 - 1) * math.Pow(10, float64(rng.Intn(9)-4))
		}
		if tag == "f32" {
			return fmt.Sprintf("f32:%d", math.Float32bits(float32(x)))
		}
		return fmt.Sprintf("f64:%d", math.Float64bits(x))
	case strings.HasPrefix(tag, "u") && rng.Intn(2) == 0:
		w, _ := strconv.Atoi(tag[1:])
		return fmt.Sprintf("%s:%d", tag, rng.Uint64()&maskW(w))
	}
	return randomLiteral(rng, tag, "")
}

// trimGoCache: every native replay / validation batch compiles a test binary of package tensor with the harness overlay; the
// Go build cache keeps those artefacts (tens of MB per run). When the cache has grown beyond limitMB it is emptied - the
// checks do not depend on it (they only get slower once).
func trimGoCache(limitMB int64) {
	out, err := exec.Command("go", "env", "GOCACHE").Output()
	if err != nil {
		return
	}
	dir := strings.TrimSpace(string(out))
	if dir == "" || dir == "off" {
		return
	}
	du, err := exec.Command("du", "-sm", dir).Output()
	if err != nil {
		return
	}
	f := strings.Fields(string(du))
	if len(f) == 0 {
		return
	}
	mb, err := strconv.ParseInt(f[0], 10, 64)
	if err != nil || mb < limitMB {
		return
	}
	fmt.Fprintf(os.Stderr, "go build cache is %d MB (> %d MB): cleaning it\n", mb, limitMB)
	exec.Command("go", "clean", "-cache").Run()
}
