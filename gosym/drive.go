package main

func cmdRun(args []string)    {}
func cmdReplay(args []string) {}
