package main

// Interpreter values and the memory model (concrete heap shape, symbolic scalars).

import (
	"fmt"
	"go/token"
	"go/types"

	"golang.org/x/tools/go/ssa"
)

// V is any interpreter value:
//
//	*Term            scalar (bool, ints, floats, uintptr without provenance)
//	Cplx             complex number
//	StrV             string
//	Struct           struct value (value semantics: copied on load)
//	ArrV             array value (backed by a Buf; copied on load)
//	Slice            slice header over a Buf
//	Ptr              pointer (slot pointer, buffer pointer, or nil)
//	ProvInt          uintptr with provenance
//	Iface            interface value
//	*Closure, *ssa.Function, *ssa.Builtin   function values
//	*MapV, *ChanV    reference types
//	Tuple            multiple results
//	RType            a reflect.Type (dynamic value inside an Iface)
//	RVal             a reflect.Value
//	*ErrObj          opaque error object
type V interface{}

type Cplx struct{ Re, Im *Term }

type StrV struct {
	S string
	T *Term // non-nil: symbolic string (sort Str)
}

type Struct []V

type ArrV struct{ B *Buf }

type Tuple []V

type Slice struct {
	B             *Buf // nil => nil slice
	Off, Len, Cap *Term
}

type Ptr struct {
	S   *V    // slot pointer
	B   *Buf  // buffer pointer (with Off)
	Off *Term // byte offset in B
	Fn  bool  // unused
	// origin of a slot pointer that addresses a cell of a buffer of non-numeric elements (&strs[i]): lets a SliceHeader whose
	// Data was taken from such a pointer be turned back into a slice of that buffer
	OB   *Buf
	OOff *Term
}

func (p Ptr) IsNil() bool { return p.S == nil && p.B == nil }

type ProvInt struct {
	P   Ptr
	Add *Term // BV64 added to the pointer
}

type Iface struct {
	T types.Type // nil => nil interface
	V V
}

type Closure struct {
	Fn  *ssa.Function
	Env []V
}

type MapV struct {
	Keys []V
	Vals []V
	KT   types.Type
}

type ChanV struct {
	Buf []V
	Cap int
}

type RType struct{ T types.Type }

type RVal struct {
	T    types.Type
	V    V   // value (if not addressable)
	Addr Ptr // address (if addressable)
	Has  bool
}

// NativeV wraps a host object of an out-of-scope library (e.g. *regexp.Regexp) used with concrete arguments only.
type NativeV struct{ X interface{} }

type ErrObj struct {
	Msg   string
	Cause V
}

// Buf is a byte-addressed allocation made of equally sized cells.
type Buf struct {
	id    int
	cellW int // bytes per cell
	cells []V
	bool_ bool // cells are Bool-sorted terms (cellW==1)
	what  string
}

func (b *Buf) Size() int { return b.cellW * len(b.cells) }

// ---- type helpers ----

var sizes = types.SizesFor("gc", "amd64")

func sizeof(t types.Type) int { return int(sizes.Sizeof(t)) }

type numInfo struct {
	ok      bool
	w       int // bytes
	signed  bool
	float   bool
	boolean bool
	cplx    bool
}

func numKind(t types.Type) numInfo {
	b, ok := t.Underlying().(*types.Basic)
	if !ok {
		return numInfo{}
	}
	switch b.Kind() {
	case types.Bool, types.UntypedBool:
		return numInfo{ok: true, w: 1, boolean: true}
	case types.Int, types.Int64, types.UntypedInt:
		return numInfo{ok: true, w: 8, signed: true}
	case types.Int8:
		return numInfo{ok: true, w: 1, signed: true}
	case types.Int16:
		return numInfo{ok: true, w: 2, signed: true}
	case types.Int32, types.UntypedRune:
		return numInfo{ok: true, w: 4, signed: true}
	case types.Uint, types.Uint64, types.Uintptr:
		return numInfo{ok: true, w: 8}
	case types.Uint8:
		return numInfo{ok: true, w: 1}
	case types.Uint16:
		return numInfo{ok: true, w: 2}
	case types.Uint32:
		return numInfo{ok: true, w: 4}
	case types.Float32:
		return numInfo{ok: true, w: 4, float: true}
	case types.Float64, types.UntypedFloat:
		return numInfo{ok: true, w: 8, float: true}
	case types.Complex64:
		return numInfo{ok: true, w: 8, cplx: true}
	case types.Complex128, types.UntypedComplex:
		return numInfo{ok: true, w: 16, cplx: true}
	}
	return numInfo{}
}

// sortOf gives the term sort for a scalar Go type.
func (ex *Exec) sortOf(t types.Type) Sort {
	n := numKind(t)
	switch {
	case n.boolean:
		return sortBool
	case n.float:
		if ex.ring {
			return sortInt
		}
		if n.w == 4 {
			return sortF32
		}
		return sortF64
	case n.ok && !n.cplx:
		return bvSort(n.w * 8)
	}
	panic(fmt.Sprintf("sortOf(%s)", t))
}

func (ex *Exec) floatSort(w int) Sort {
	if ex.ring {
		return sortInt
	}
	if w == 4 {
		return sortF32
	}
	return sortF64
}

// zero returns the zero value of a type.
func (ex *Exec) zero(t types.Type) V {
	switch u := t.Underlying().(type) {
	case *types.Basic:
		n := numKind(u)
		switch {
		case n.cplx:
			z := ex.ts.Zero(ex.floatSort(n.w / 2))
			return Cplx{z, z}
		case n.ok:
			return ex.ts.Zero(ex.sortOf(u))
		case u.Kind() == types.String || u.Kind() == types.UntypedString:
			return StrV{}
		case u.Kind() == types.UnsafePointer:
			return Ptr{}
		case u.Kind() == types.UntypedNil:
			return nil
		}
		panic("zero basic " + u.String())
	case *types.Pointer:
		return Ptr{}
	case *types.Struct:
		s := make(Struct, u.NumFields())
		for i := range s {
			s[i] = ex.zero(u.Field(i).Type())
		}
		return s
	case *types.Array:
		return ArrV{ex.newBuf(u.Elem(), int(u.Len()))}
	case *types.Slice:
		return Slice{}
	case *types.Interface:
		return Iface{}
	case *types.Map:
		return (*MapV)(nil)
	case *types.Chan:
		return (*ChanV)(nil)
	case *types.Signature:
		return (*Closure)(nil)
	case *types.Tuple:
		tu := make(Tuple, u.Len())
		for i := range tu {
			tu[i] = ex.zero(u.At(i).Type())
		}
		return tu
	}
	panic(fmt.Sprintf("zero(%s)", t))
}

// newBuf allocates a buffer of n elements of type et (zeroed).
func (ex *Exec) newBuf(et types.Type, n int) *Buf {
	ex.bufID++
	b := &Buf{id: ex.bufID, what: et.String()}
	nk := numKind(et)
	switch {
	case nk.cplx:
		b.cellW = nk.w / 2
		z := ex.ts.Zero(ex.floatSort(b.cellW))
		b.cells = make([]V, 2*n)
		for i := range b.cells {
			b.cells[i] = z
		}
	case nk.ok:
		b.cellW = nk.w
		b.bool_ = nk.boolean
		z := ex.ts.Zero(ex.sortOf(et))
		b.cells = make([]V, n)
		for i := range b.cells {
			b.cells[i] = z
		}
	default:
		b.cellW = sizeof(et)
		if b.cellW == 0 {
			b.cellW = 1 // zero-sized elements: keep distinct cells anyway
		}
		b.cells = make([]V, n)
		for i := range b.cells {
			b.cells[i] = ex.zero(et)
		}
	}
	return b
}

// copyV implements value semantics for aggregates.
func (ex *Exec) copyV(v V) V {
	switch x := v.(type) {
	case Struct:
		n := make(Struct, len(x))
		for i := range x {
			n[i] = ex.copyV(x[i])
		}
		return n
	case ArrV:
		ex.bufID++
		nb := &Buf{id: ex.bufID, cellW: x.B.cellW, bool_: x.B.bool_, what: x.B.what, cells: make([]V, len(x.B.cells))}
		for i, c := range x.B.cells {
			nb.cells[i] = ex.copyV(c)
		}
		return ArrV{nb}
	case Tuple:
		n := make(Tuple, len(x))
		for i := range x {
			n[i] = ex.copyV(x[i])
		}
		return n
	}
	return v
}

func (ex *Exec) c64(v int64) *Term { return ex.ts.BV(64, uint64(v)) }

func termConstInt(t *Term) (int64, bool) {
	if t != nil && t.IsConst() && t.Sort.K == SBV {
		return sext(t.Bits, int(t.Sort.W)), true
	}
	return 0, false
}

// mkSlice builds a slice covering a whole buffer of n elements with element size es.
func (ex *Exec) mkSlice(b *Buf, n int) Slice {
	return Slice{B: b, Off: ex.c64(0), Len: ex.c64(int64(n)), Cap: ex.c64(int64(n))}
}

// ---- typed access into buffers ----

// asSort coerces a cell term to the sort wanted by a typed access of the same width.
func (ex *Exec) asSort(t *Term, s Sort, w int) *Term {
	if t.Sort == s {
		return t
	}
	ts := ex.ts
	switch {
	case t.Sort.K == SBV && (isFP(s) || s.K == SInt):
		return ts.BVToF(t, s)
	case (isFP(t.Sort) || t.Sort.K == SInt) && s.K == SBV:
		return ts.FToBV(t, w*8)
	case t.Sort.K == SBool && s.K == SBV:
		return ts.Ite(t, ts.BV(8, 1), ts.BV(8, 0))
	case t.Sort.K == SBV && s.K == SBool:
		return ts.Not(ts.Eq(t, ts.BV(int(t.Sort.W), 0)))
	case isFP(t.Sort) && isFP(s):
		// same width impossible; fallthrough
	case t.Sort.K == SInt && isFP(s), isFP(t.Sort) && s.K == SInt:
		panic(abortPath{"mixing ring-mode and FP-mode float values"})
	}
	panic(abortPath{fmt.Sprintf("cannot reinterpret %v as %v", t.Sort, s)})
}

// cellBits returns the cell as a bit-vector of cellW*8 bits.
func (ex *Exec) cellBits(b *Buf, i int) *Term {
	t, ok := b.cells[i].(*Term)
	if !ok {
		panic(abortPath{"byte access to non-numeric cell in " + b.what})
	}
	return ex.asSort(t, bvSort(b.cellW*8), b.cellW)
}

// recell changes the cell width of a numeric buffer (little endian).
func (ex *Exec) recell(b *Buf, w int) {
	if b.cellW == w {
		return
	}
	size := b.Size()
	if size%w != 0 {
		panic(abortPath{fmt.Sprintf("recell %s size %d to width %d", b.what, size, w)})
	}
	ts := ex.ts
	n := size / w
	nc := make([]V, n)
	if w > b.cellW {
		if w%b.cellW != 0 {
			panic(abortPath{"recell: incompatible widths"})
		}
		k := w / b.cellW
		for i := 0; i < n; i++ {
			acc := ex.cellBits(b, i*k+k-1)
			for j := k - 2; j >= 0; j-- {
				acc = ts.Concat(acc, ex.cellBits(b, i*k+j))
			}
			nc[i] = acc
		}
	} else {
		if b.cellW%w != 0 {
			panic(abortPath{"recell: incompatible widths"})
		}
		k := b.cellW / w
		for i := 0; i < len(b.cells); i++ {
			full := ex.cellBits(b, i)
			for j := 0; j < k; j++ {
				nc[i*k+j] = ts.Extract(full, (j+1)*w*8-1, j*w*8)
			}
		}
	}
	b.cells = nc
	b.cellW = w
	b.bool_ = false
}

func isNumCellBuf(b *Buf) bool {
	if len(b.cells) == 0 {
		return true
	}
	_, ok := b.cells[0].(*Term)
	return ok
}

// loadNum reads a scalar of sort s and width w bytes at byte offset off.
func (ex *Exec) loadNum(b *Buf, off *Term, s Sort, w int) *Term {
	ts := ex.ts
	if ex.evlog != nil {
		ex.evLoadBuf(b)
	}
	if !isNumCellBuf(b) {
		panic(abortPath{"numeric load from non-numeric buffer " + b.what})
	}
	if b.cellW < w {
		ex.recell(b, w)
	}
	if o, ok := ex.constInt(off); ok {
		if o < 0 || int(o)+w > b.Size() {
			panic(abortPath{fmt.Sprintf("raw load out of buffer (%s off %d w %d size %d)", b.what, o, w, b.Size())})
		}
		ci, sub := int(o)/b.cellW, int(o)%b.cellW
		if b.cellW == w {
			if sub != 0 {
				panic(abortPath{"unaligned load"})
			}
			return ex.asSort(b.cells[ci].(*Term), s, w)
		}
		if sub%w != 0 {
			panic(abortPath{"unaligned sub-cell load"})
		}
		bits := ts.Extract(ex.cellBits(b, ci), (sub+w)*8-1, sub*8)
		return ex.asSort(bits, s, w)
	}
	// symbolic offset: ite chain over all aligned positions
	ex.symLoads++
	var res *Term
	n := b.Size() / w
	for k := n - 1; k >= 0; k-- {
		var v *Term
		if b.cellW == w {
			v = ex.asSort(b.cells[k].(*Term), s, w)
		} else {
			per := b.cellW / w
			v = ex.asSort(ts.Extract(ex.cellBits(b, k/per), (k%per+1)*w*8-1, (k%per)*w*8), s, w)
		}
		if res == nil {
			res = v
		} else {
			res = ts.Ite(ts.Eq(off, ex.c64(int64(k*w))), v, res)
		}
	}
	if res == nil {
		panic(abortPath{"load from empty buffer"})
	}
	return res
}

// storeNum writes a scalar of width w bytes at byte offset off. guard (may be nil) makes the store conditional.
func (ex *Exec) storeNum(b *Buf, off *Term, val *Term, w int, guard *Term) {
	ts := ex.ts
	if ex.evlog != nil {
		ex.evStoreBuf(b, guard)
	}
	if !isNumCellBuf(b) {
		panic(abortPath{"numeric store to non-numeric buffer " + b.what})
	}
	if b.cellW < w {
		ex.recell(b, w)
	}
	put := func(ci int, sub int, cond *Term) {
		old := b.cells[ci].(*Term)
		var nv *Term
		if b.cellW == w {
			nv = val
			if b.bool_ && val.Sort.K != SBool {
				nv = ex.asSort(val, sortBool, 1)
			}
			// keep cell sort stable where possible
			if old.Sort != nv.Sort && cond != nil {
				nv = ex.asSort(nv, old.Sort, w)
			}
		} else {
			full := ex.cellBits(b, ci)
			vb := ex.asSort(val, bvSort(w*8), w)
			lo, hi := sub*8, (sub+w)*8-1
			nv = vb
			if lo > 0 {
				nv = ts.Concat(nv, ts.Extract(full, lo-1, 0))
			}
			if hi < b.cellW*8-1 {
				nv = ts.Concat(ts.Extract(full, b.cellW*8-1, hi+1), nv)
			}
			if old.Sort != nv.Sort {
				nv = ex.asSort(nv, old.Sort, b.cellW)
			}
		}
		if cond != nil {
			nv = ts.Ite(cond, nv, old)
		}
		b.cells[ci] = nv
	}
	if o, ok := ex.constInt(off); ok {
		if o < 0 || int(o)+w > b.Size() {
			panic(abortPath{fmt.Sprintf("raw store out of buffer (%s off %d w %d size %d)", b.what, o, w, b.Size())})
		}
		if int(o)%w != 0 {
			panic(abortPath{"unaligned store"})
		}
		put(int(o)/b.cellW, int(o)%b.cellW, guard)
		return
	}
	ex.symStores++
	n := b.Size() / w
	for k := 0; k < n; k++ {
		c := ts.Eq(off, ex.c64(int64(k*w)))
		if guard != nil {
			c = ts.And(guard, c)
		}
		if b.cellW == w {
			put(k, 0, c)
		} else {
			per := b.cellW / w
			put(k/per, (k%per)*w, c)
		}
	}
}

// bufLoad reads a value of Go type t at byte offset off.
func (ex *Exec) bufLoad(b *Buf, off *Term, t types.Type) V {
	n := numKind(t)
	switch {
	case n.cplx:
		h := n.w / 2
		fs := ex.floatSort(h)
		re := ex.loadNum(b, off, fs, h)
		im := ex.loadNum(b, ex.ts.BvBin(OAdd, off, ex.c64(int64(h))), fs, h)
		return Cplx{re, im}
	case n.ok:
		return ex.loadNum(b, off, ex.sortOf(t), n.w)
	}
	ci := ex.genCell(b, off, t)
	return ex.copyV(b.cells[ci])
}

// genCell resolves a non-numeric cell index.
func (ex *Exec) genCell(b *Buf, off *Term, t types.Type) int {
	o, ok := ex.constInt(off)
	if !ok {
		// one path per feasible position (objects cannot be merged with ite)
		o = ex.concretize(off, 0, int64(b.Size()), "index into "+b.what, token.NoPos, nil)
	}
	sz := sizeof(t)
	if sz == 0 {
		sz = 1
	}
	if isNumCellBuf(b) && len(b.cells) > 0 {
		// fresh bytes viewed as objects (e.g. make([]byte,n) used as []string): convert if all zero
		ex.bytesToObjects(b, t, sz)
	}
	if b.cellW != sz || int(o)%sz != 0 || o < 0 || int(o)/sz >= len(b.cells) {
		panic(abortPath{fmt.Sprintf("object access (%s, size %d) at %d into buffer %s cellW %d n %d", t, sz, o, b.what, b.cellW, len(b.cells))})
	}
	return int(o) / sz
}

func (ex *Exec) bytesToObjects(b *Buf, t types.Type, sz int) {
	for _, c := range b.cells {
		ct := c.(*Term)
		if !ct.IsConst() || ct.Bits != 0 {
			panic(abortPath{"non-zero bytes reinterpreted as " + t.String()})
		}
	}
	size := b.Size()
	if size%sz != 0 {
		panic(abortPath{"bytesToObjects size"})
	}
	n := size / sz
	b.cells = make([]V, n)
	for i := range b.cells {
		b.cells[i] = ex.zero(t)
	}
	b.cellW = sz
	b.bool_ = false
	b.what = t.String()
}

func (ex *Exec) bufStore(b *Buf, off *Term, t types.Type, v V, guard *Term) {
	n := numKind(t)
	switch {
	case n.cplx:
		h := n.w / 2
		c := v.(Cplx)
		ex.storeNum(b, off, c.Re, h, guard)
		ex.storeNum(b, ex.ts.BvBin(OAdd, off, ex.c64(int64(h))), c.Im, h, guard)
		return
	case n.ok:
		ex.storeNum(b, off, v.(*Term), n.w, guard)
		return
	}
	if guard != nil {
		panic(abortPath{"guarded store of non-numeric value"})
	}
	ci := ex.genCell(b, off, t)
	if ex.evlog != nil {
		ex.evStoreBuf(b, guard)
	}
	ex.storeInto(&b.cells[ci], t, v)
}

// storeInto stores v into slot (in place for aggregates so that interior pointers stay valid).
func (ex *Exec) storeInto(slot *V, t types.Type, v V) {
	switch u := t.Underlying().(type) {
	case *types.Struct:
		if lhs, ok := (*slot).(Struct); ok {
			rhs, ok2 := v.(Struct)
			if !ok2 {
				panic(abortPath{fmt.Sprintf("struct store of %T", v)})
			}
			for i := range lhs {
				ex.storeInto(&lhs[i], u.Field(i).Type(), rhs[i])
			}
			return
		}
	case *types.Array:
		if lhs, ok := (*slot).(ArrV); ok {
			rhs := v.(ArrV)
			if len(lhs.B.cells) != len(rhs.B.cells) {
				lhs.B.cells = make([]V, len(rhs.B.cells))
			}
			for i := range rhs.B.cells {
				lhs.B.cells[i] = ex.copyV(rhs.B.cells[i])
			}
			lhs.B.cellW = rhs.B.cellW
			lhs.B.bool_ = rhs.B.bool_
			return
		}
	}
	*slot = ex.copyV(v)
}
