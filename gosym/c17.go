package main

// C17 kernel level: every generated per-type kernel of internal/execution is enumerated from the SSA package, its name
// is parsed into (operation, variant, element type), it is executed on symbolic slices / scalars / iterators, and every
// cell of every argument afterwards is compared with ONE type-generic definition of (operation, variant) held in the
// table below, instantiated at that element type through the engine's encoding of Go's operators.

import (
	"fmt"
	"go/token"
	"go/types"
	"sort"
	"strings"

	"golang.org/x/tools/go/ssa"
)

type kparse struct {
	op                      string
	vec, sv, vs, incr, iter bool
	same, recv              bool
	dt                      string
	family                  string // arith | cmp | minmax | unary | arg
}

var kDtypeSuffixes = []string{"C128", "C64", "F64", "F32", "I64", "I32", "I16", "I8", "U64", "U32", "U16", "U8", "Uintptr", "UnsafePointer", "Str", "I", "U", "B"}

var kArith = map[string]token.Token{"Add": token.ADD, "Sub": token.SUB, "Mul": token.MUL, "Div": token.QUO, "Mod": token.REM}
var kCmp = map[string]token.Token{"Gt": token.GTR, "Gte": token.GEQ, "Lt": token.LSS, "Lte": token.LEQ, "Eq": token.EQL, "Ne": token.NEQ}
var kUnary = map[string]bool{"Neg": true, "Inv": true, "Square": true, "Cube": true, "Abs": true, "Sign": true, "Clamp": true, "Sqrt": true, "InvSqrt": true,
	"Exp": true, "Log": true, "Log2": true, "Log10": true, "Tanh": true, "Cbrt": true}

func parseKernelName(name string) (kparse, bool) {
	var k kparse
	rest := name
	found := false
	for _, s := range kDtypeSuffixes {
		if strings.HasSuffix(rest, s) {
			k.dt = s
			rest = strings.TrimSuffix(rest, s)
			found = true
			break
		}
	}
	if !found {
		return k, false
	}
	if strings.HasSuffix(rest, "SV") {
		k.sv = true
		rest = strings.TrimSuffix(rest, "SV")
	} else if strings.HasSuffix(rest, "VS") {
		k.vs = true
		rest = strings.TrimSuffix(rest, "VS")
	}
	if strings.HasPrefix(rest, "Vec") {
		k.vec = true
		rest = strings.TrimPrefix(rest, "Vec")
	}
	if strings.Contains(rest, "Recv") {
		k.recv = true
		rest = strings.Replace(rest, "Recv", "", 1)
	}
	for _, tok := range []string{"Incr", "Iter", "Same"} {
		if strings.Contains(rest, tok) {
			switch tok {
			case "Incr":
				k.incr = true
			case "Iter":
				k.iter = true
			case "Same":
				k.same = true
			}
			rest = strings.Replace(rest, tok, "", 1)
		}
	}
	k.op = rest
	switch {
	case kArith[rest] != 0 || rest == "Pow":
		k.family = "arith"
	case kCmp[rest] != 0:
		k.family = "cmp"
	case rest == "Min" || rest == "Max":
		k.family = "minmax"
	case kUnary[rest]:
		k.family = "unary"
	case rest == "Argmax" || rest == "Argmin":
		k.family = "arg"
	default:
		return k, false
	}
	return k, true
}

// kernelFunctions lists the generated kernels (functions with at least one slice parameter) in internal/execution.
func kernelFunctions(ld *Loaded) (all []*ssa.Function) {
	pkg := ld.pkgs["gorgonia.org/tensor/internal/execution"]
	for _, m := range pkg.Members {
		fn, ok := m.(*ssa.Function)
		if !ok || fn.Signature.Recv() != nil || fn.Blocks == nil {
			continue
		}
		pos := ld.prog.Fset.Position(fn.Pos())
		if !strings.Contains(pos.Filename, "generic_") {
			continue
		}
		all = append(all, fn)
	}
	sort.Slice(all, func(i, j int) bool { return all[i].Name() < all[j].Name() })
	return
}

type kArg struct {
	name    string
	slice   bool
	et      types.Type
	buf     *Buf
	init    []V // initial cells (scalars as V)
	scalar  V
	iterFor string
}

// runKernel is the path entry for one kernel: builds the arguments, calls the kernel, compares every cell.
func runKernel(ex *Exec, fn *ssa.Function) {
	ld := ex.ld
	k, ok := parseKernelName(fn.Name())
	if !ok {
		panic(abortPath{"kernel name not parsed: " + fn.Name()})
	}
	n := 3
	patA := []int{0, 1, 2}
	patB := []int{0, 1, 2}
	if k.iter {
		n = 4
		patA = []int{0, 1, 2, 3} // contiguous (4)
		patB = []int{0, 2, 1, 3} // (2,2) with strides [1,2]: a lazily transposed matrix
	}
	ts := ex.ts
	var args []V
	var kargs []*kArg
	byName := map[string]*kArg{}
	var elemT types.Type
	params := fn.Params
	for _, p := range params {
		ka := &kArg{name: p.Name()}
		switch pt := p.Type().Underlying().(type) {
		case *types.Slice:
			ka.slice = true
			ka.et = pt.Elem()
			if b, isB := ka.et.Underlying().(*types.Basic); isB && b.Kind() == types.String {
				panic(abortPath{"string kernels are not executed (ordering of symbolic strings is not encoded)"})
			}
			ka.buf = ex.newBuf(ka.et, n)
			for i := 0; i < n; i++ {
				v := ex.nondet(fmt.Sprintf("%s_%d", p.Name(), i), ka.et)
				ex.store(ex.elemPtr(ka.buf, ex.c64(0), ex.c64(int64(i)), ka.et), ka.et, v, nil)
				ka.init = append(ka.init, v)
			}
			args = append(args, ex.mkSlice(ka.buf, n))
			if p.Name() == "a" || p.Name() == "b" {
				elemT = ka.et
			}
		case *types.Basic:
			if pt.Kind() == types.String {
				panic(abortPath{"string kernels are not executed"})
			}
			ka.et = p.Type()
			ka.scalar = ex.nondet("s_"+p.Name(), p.Type())
			args = append(args, ka.scalar)
			if elemT == nil {
				elemT = p.Type()
			}
		case *types.Interface: // Iterator
			var pat []int
			switch p.Name() {
			case "bit":
				pat = patB
			default:
				pat = patA
			}
			args = append(args, ex.mkFlatIterator(pat))
			ka.iterFor = p.Name()
		default:
			panic(abortPath{fmt.Sprintf("kernel parameter %s of type %s", p.Name(), p.Type())})
		}
		kargs = append(kargs, ka)
		byName[p.Name()] = ka
	}
	_ = ld
	a, b := byName["a"], byName["b"]
	if a == nil {
		panic(abortPath{"kernel without parameter a"})
	}
	et := a.et
	if !a.slice && b != nil && b.slice {
		et = b.et
	}
	nk := numKind(et)
	isInt := nk.ok && !nk.float && !nk.cplx && !nk.boolean

	// operand value of element position p
	aAt := func(i int) V {
		if a.slice {
			return a.init[i]
		}
		return a.scalar
	}
	bAt := func(j int) V {
		if b == nil {
			return nil
		}
		if b.slice {
			return b.init[j]
		}
		return b.scalar
	}
	// assumptions that keep the statement defined
	if k.family == "arith" && (k.op == "Div" || k.op == "Mod") && isInt {
		for j := 0; j < n; j++ {
			y := bAt(j).(*Term)
			ex.assume(ts.Not(ts.Eq(y, ts.Zero(y.Sort))))
			if !b.slice {
				break
			}
		}
	}
	if k.family == "unary" && k.op == "Inv" && isInt {
		for i := 0; i < n; i++ {
			x := aAt(i).(*Term)
			ex.assume(ts.Not(ts.Eq(x, ts.Zero(x.Sort))))
		}
	}
	if (k.family == "minmax" || k.family == "arg" || (k.family == "unary" && k.op == "Clamp")) && nk.float {
		for _, ka := range kargs {
			for _, v := range ka.init {
				ex.assume(ts.Not(ts.FIsNaN(v.(*Term))))
			}
			if ka.scalar != nil {
				if t, ok := ka.scalar.(*Term); ok && isFP(t.Sort) {
					ex.assume(ts.Not(ts.FIsNaN(t)))
				}
			}
		}
	}
	var lo, hi V
	if k.op == "Clamp" {
		lo, hi = byName["min"].scalar, byName["max"].scalar
		ex.assume(ts.Not(ex.binop(token.LSS, et, hi, lo, et).(*Term)))
	}

	res := ex.callFn(nil, fn, args, nil)
	ex.hooks.reached["C17.kernel"] = true

	// the error result (if any) must be nil under the assumptions above
	if fn.Signature.Results().Len() == 1 {
		if i, isI := res.(Iface); isI {
			ex.assertObl(ts.Bool(i.T == nil), "kernel-no-error", "", nil)
		}
	}

	one := func() V {
		if nk.boolean {
			return ts.tru
		}
		if nk.cplx {
			z := ex.zero(et).(Cplx)
			o := ex.convert(types.Typ[types.Int], floatTypeOf(nk.w/2), ex.c64(1))
			return Cplx{o.(*Term), z.Im}
		}
		return ex.convert(types.Typ[types.Int], et, ex.c64(1))
	}
	applyBin := func(x, y V) V {
		switch k.family {
		case "arith":
			if k.op == "Pow" {
				return nil // checked by predicate below
			}
			if k.op == "Mod" && nk.float {
				pkg := "math."
				if nk.w == 4 {
					pkg = "github.com/chewxy/math32."
				}
				return ex.intr[pkg+"Mod"](ex, nil, []V{x, y})
			}
			return ex.binop(kArith[k.op], et, x, y, et)
		case "cmp":
			c := ex.binop(kCmp[k.op], et, x, y, et).(*Term)
			if k.same {
				return ex.iteV(c, one(), ex.zero(et))
			}
			return c
		case "minmax":
			var c *Term
			if k.op == "Min" {
				c = ex.binop(token.LSS, et, y, x, et).(*Term)
			} else {
				c = ex.binop(token.GTR, et, y, x, et).(*Term)
			}
			return ex.iteV(c, y, x)
		}
		return nil
	}
	// open finding KF-C06-fdiv0 at kernel level: the vecf32/vecf64 division maps x/0 to +Inf
	fdivRegion := map[int]*Term{}
	// expected final contents per slice argument
	expected := map[string][]V{}
	for _, ka := range kargs {
		if ka.slice {
			expected[ka.name] = append([]V(nil), ka.init...)
		}
	}
	destName := ""
	switch k.family {
	case "arith", "minmax", "cmp":
		switch {
		case k.recv:
			destName = "recv"
		case k.incr:
			destName = "incr"
		case k.family == "cmp" && !k.same:
			destName = "retVal"
		case k.sv:
			destName = "b"
		default:
			destName = "a"
		}
		dest := byName[destName]
		if dest == nil {
			panic(abortPath{"destination parameter " + destName + " not found in " + fn.Name()})
		}
		for p := 0; p < n; p++ {
			i, j, r := p, p, p
			if k.iter {
				i, j, r = patA[p], patB[p], patA[p]
				if k.sv { // only b has an iterator
					j = patB[p]
				}
			}
			x, y := aAt(i), bAt(j)
			di := i
			switch destName {
			case "b":
				di = j
			case "incr", "retVal", "recv":
				di = r
			}
			val := applyBin(x, y)
			if k.family == "arith" && k.op == "Pow" {
				// float power: the routine's value or one of the exact small-exponent identities
				got := ex.load(ex.elemPtr(dest.buf, ex.c64(0), ex.c64(int64(di)), dest.et), dest.et)
				ex.assertObl(ex.powMatch(got, x, y, et, k.incr, dest.init[di]), "kernel-table", "", nil)
				expected[destName][di] = got
				continue
			}
			if k.family == "minmax" && nk.float {
				got := ex.load(ex.elemPtr(dest.buf, ex.c64(0), ex.c64(int64(di)), dest.et), dest.et).(*Term)
				xt, yt := x.(*Term), y.(*Term)
				pick := ts.Or(ts.Eq(got, xt), ts.Eq(got, yt))
				var bound *Term
				if k.op == "Min" {
					bound = ts.And(ts.FCmp(OFLe, got, xt), ts.FCmp(OFLe, got, yt))
				} else {
					bound = ts.And(ts.FCmp(OFLe, xt, got), ts.FCmp(OFLe, yt, got))
				}
				ex.assertObl(ts.And(pick, bound), "kernel-table", "", nil)
				expected[destName][di] = got
				continue
			}
			if k.incr {
				val = ex.binop(token.ADD, et, dest.init[di], val, et)
			}
			if k.family == "arith" && k.op == "Div" && nk.float {
				yt := y.(*Term)
				fdivRegion[di] = ts.FCmp(OFEq, yt, ts.Zero(yt.Sort))
			}
			expected[destName][di] = val
		}
	case "unary":
		destName = "a"
		for p := 0; p < n; p++ {
			x := a.init[p]
			expected["a"][p] = ex.unaryExpect(k.op, et, x, lo, hi, one())
		}
	case "arg":
		// first index of the extreme value
		if len(kargs) != 1 {
			panic(abortPath{"masked arg kernels are checked at the tensor level (C15/C08)"})
		}
		best, bi := a.init[0].(*Term), ex.c64(0)
		for j := 1; j < n; j++ {
			var c *Term
			if k.op == "Argmax" {
				c = ex.binop(token.GTR, et, a.init[j], best, et).(*Term)
			} else {
				c = ex.binop(token.LSS, et, a.init[j], best, et).(*Term)
			}
			best = ts.Ite(c, a.init[j].(*Term), best)
			bi = ts.Ite(c, ex.c64(int64(j)), bi)
		}
		region := ts.fls
		if nk.float {
			// open finding KF-C08-arginf: repeated extreme infinities
			cnt := ex.c64(0)
			for j := 0; j < n; j++ {
				x := a.init[j].(*Term)
				zero := ts.Zero(x.Sort)
				var ext *Term
				if k.op == "Argmax" {
					ext = ts.And(ts.FIsInf(x), ts.FCmp(OFLt, zero, x))
				} else {
					ext = ts.And(ts.FIsInf(x), ts.FCmp(OFLt, x, zero))
				}
				cnt = ts.BvBin(OAdd, cnt, ts.Ite(ext, ex.c64(1), ex.c64(0)))
			}
			region = ts.BvCmp(OSLe, ex.c64(2), cnt)
		}
		ex.assertObl(ts.Eq(res.(*Term), bi), "kernel-table", "KF-C08-arginf", region)
	}
	// compare every cell of every slice argument
	for _, ka := range kargs {
		if !ka.slice {
			continue
		}
		for i := 0; i < n; i++ {
			got := ex.load(ex.elemPtr(ka.buf, ex.c64(0), ex.c64(int64(i)), ka.et), ka.et)
			if ex.hooks.concrete != nil {
				ex.hooks.observeLog = append(ex.hooks.observeLog, fmt.Sprintf("%s_%d=%s", ka.name, i, ex.showV(got)))
			}
			want := expected[ka.name][i]
			id := "kernel-frame"
			if ka.name == destName {
				id = "kernel-table"
				if rg, ok := fdivRegion[i]; ok {
					ex.assertObl(ex.sameBits(got, want), id, "KF-C06-fdiv0", rg)
					continue
				}
			}
			ex.assertObl(ex.sameBits(got, want), id, "", nil)
		}
	}
}

func floatTypeOf(w int) types.Type {
	if w == 4 {
		return types.Typ[types.Float32]
	}
	return types.Typ[types.Float64]
}

// unaryExpect: the type-generic definition of a unary operation.
func (ex *Exec) unaryExpect(op string, et types.Type, x V, lo, hi, one V) V {
	ts := ex.ts
	nk := numKind(et)
	zero := ex.zero(et)
	lt := func(p, q V) *Term { return ex.binop(token.LSS, et, p, q, et).(*Term) }
	neg := func(p V) V { return ex.binop(token.SUB, et, zero, p, et) }
	negExact := func(p V) V {
		switch v := p.(type) {
		case *Term:
			if v.Sort.K == SBV {
				return ts.BvNeg(v)
			}
			return ts.FUn(OFNeg, v)
		case Cplx:
			return Cplx{ts.FUn(OFNeg, v.Re), ts.FUn(OFNeg, v.Im)}
		}
		return neg(p)
	}
	mathFn := func(name string) V {
		pkg := "math."
		if nk.w == 4 && nk.float {
			pkg = "github.com/chewxy/math32."
		}
		if nk.cplx {
			pkg = "math/cmplx."
			if nk.w == 8 { // complex64 kernels convert through complex128
				c := x.(Cplx)
				c128 := Cplx{ts.FToF(c.Re, ex.floatSort(8)), ts.FToF(c.Im, ex.floatSort(8))}
				r := ex.intr[pkg+name](ex, nil, []V{c128}).(Cplx)
				return Cplx{ts.FToF(r.Re, ex.floatSort(4)), ts.FToF(r.Im, ex.floatSort(4))}
			}
		}
		return ex.intr[pkg+name](ex, nil, []V{x})
	}
	switch op {
	case "Neg":
		return negExact(x)
	case "Inv":
		return ex.binop(token.QUO, et, one, x, et)
	case "Square":
		return ex.binop(token.MUL, et, x, x, et)
	case "Cube":
		return ex.binop(token.MUL, et, ex.binop(token.MUL, et, x, x, et), x, et)
	case "Abs":
		if nk.float {
			return ts.FUn(OFAbs, x.(*Term))
		}
		return ex.iteV(lt(x, zero), negExact(x), x)
	case "Sign":
		return ex.iteV(lt(x, zero), negExact(one), ex.iteV(lt(zero, x), one, x))
	case "Clamp":
		return ex.iteV(lt(x, lo), lo, ex.iteV(lt(hi, x), hi, x))
	case "Sqrt":
		if nk.float {
			return ts.FUn(OFSqrt, x.(*Term))
		}
		return mathFn("Sqrt")
	case "InvSqrt":
		return ex.binop(token.QUO, et, one, ts.FUn(OFSqrt, x.(*Term)), et)
	case "Exp", "Log", "Log2", "Log10", "Tanh", "Cbrt":
		return mathFn(op)
	}
	panic(abortPath{"no generic definition for unary " + op})
}

// powMatch: got is pow(x,y) of the element type's routine (or an exact small-exponent identity for floats).
func (ex *Exec) powMatch(got, x, y V, et types.Type, incr bool, old V) *Term {
	ts := ex.ts
	nk := numKind(et)
	add := func(v V) V {
		if incr {
			return ex.binop(token.ADD, et, old, v, et)
		}
		return v
	}
	if nk.cplx {
		var r V
		if nk.w == 8 {
			cx, cy := x.(Cplx), y.(Cplx)
			up := func(c Cplx) Cplx { return Cplx{ts.FToF(c.Re, ex.floatSort(8)), ts.FToF(c.Im, ex.floatSort(8))} }
			rr := ex.intr["math/cmplx.Pow"](ex, nil, []V{up(cx), up(cy)}).(Cplx)
			r = Cplx{ts.FToF(rr.Re, ex.floatSort(4)), ts.FToF(rr.Im, ex.floatSort(4))}
		} else {
			r = ex.intr["math/cmplx.Pow"](ex, nil, []V{x, y})
		}
		return ex.sameBits(got, add(r))
	}
	if !nk.float {
		panic(abortPath{"integer Pow kernels do not exist"})
	}
	pkg := "math."
	if nk.w == 4 {
		pkg = "github.com/chewxy/math32."
	}
	xt, yt := x.(*Term), y.(*Term)
	r := ex.intr[pkg+"Pow"](ex, nil, []V{x, y})
	okc := ex.sameBits(got, add(r))
	c := func(f float64) *Term { return ex.floatConst(f, nk.w) }
	okc = ts.Or(okc, ts.And(ts.FCmp(OFEq, yt, c(0)), ex.sameBits(got, add(c(1)))))
	okc = ts.Or(okc, ts.And(ts.FCmp(OFEq, yt, c(1)), ex.sameBits(got, add(xt))))
	sq := ts.FBin(OFMul, xt, xt)
	okc = ts.Or(okc, ts.And(ts.FCmp(OFEq, yt, c(2)), ex.sameBits(got, add(sq))))
	okc = ts.Or(okc, ts.And(ts.FCmp(OFEq, yt, c(3)), ex.sameBits(got, add(ts.FBin(OFMul, sq, xt)))))
	return okc
}

// mkFlatIterator builds a real tensor.FlatIterator yielding the given offsets: pattern [0,1,2,3] = contiguous (4),
// [0,2,1,3] = shape (2,2) strides [1,2].
func (ex *Exec) mkFlatIterator(pat []int) V {
	ld := ex.ld
	var shape, strides []int
	if pat[1] == 1 {
		shape, strides = []int{len(pat)}, []int{1}
	} else {
		shape, strides = []int{2, 2}, []int{1, 2}
	}
	mk := func(xs []int) V {
		b := ex.newBuf(types.Typ[types.Int], len(xs))
		for i, x := range xs {
			b.cells[i] = ex.c64(int64(x))
		}
		return ex.mkSlice(b, len(xs))
	}
	makeAP := ld.tensor.Func("MakeAP")
	ap := ex.callFn(nil, makeAP, []V{mk(shape), mk(strides), ex.zero(makeAP.Params[2].Type()), ex.zero(makeAP.Params[3].Type())}, nil)
	slot := new(V)
	*slot = ap
	nfi := ld.tensor.Func("newFlatIterator")
	it := ex.callFn(nil, nfi, []V{Ptr{S: slot}}, nil)
	return Iface{T: nfi.Signature.Results().At(0).Type(), V: it}
}

// kernelInstances: one instance per generated kernel whose name parses; the rest is counted and listed.
func kernelInstances(ld *Loaded, tier string) ([]Instance, map[string]interface{}) {
	all := kernelFunctions(ld)
	var out []Instance
	var unparsed, skippedStr, helper []string
	byFamily := map[string]int{}
	for _, fn := range all {
		hasSlice := false
		isStr := false
		for _, p := range fn.Params {
			if sl, ok := p.Type().Underlying().(*types.Slice); ok {
				hasSlice = true
				if b, ok := sl.Elem().Underlying().(*types.Basic); ok && b.Kind() == types.String {
					isStr = true
				}
			}
		}
		k, ok := parseKernelName(fn.Name())
		switch {
		case !hasSlice:
			helper = append(helper, fn.Name()) // scalar helpers (AddI, MaxF64 ...) are exercised through the kernels
		case isStr || strings.HasSuffix(fn.Name(), "UnsafePointer"):
			skippedStr = append(skippedStr, fn.Name())
		case !ok:
			unparsed = append(unparsed, fn.Name())
		case k.family == "arg" && len(fn.Params) != 1:
			unparsed = append(unparsed, fn.Name()) // masked arg kernels: tensor level
		default:
			byFamily[k.family]++
			out = append(out, Instance{Harness: "@kernel:" + fn.Name(), Cfg: map[string]interface{}{}, Name: "@kernel/" + k.family + "/" + fn.Name()})
		}
	}
	stats := map[string]interface{}{"generated_functions_total": len(all), "checked_against_table": len(out), "by_family": byFamily,
		"scalar_helpers_not_separately_checked": len(helper), "string_and_unsafe_pointer_kernels_skipped": len(skippedStr), "not_parsed_or_other_family": len(unparsed),
		"not_parsed_names": unparsed}
	return out, stats
}
