package main

import (
	"sort"
	"encoding/json"
	"flag"
	"fmt"
	"os"
	"runtime/debug"
	"strings"
)

// Instance is one concrete instantiation of a harness (structure concrete, data symbolic).
type Instance struct {
	Harness string                 `json:"harness"`
	Cfg     map[string]interface{} `json:"cfg"`
	Ring    bool                   `json:"ring,omitempty"`
	Name    string                 `json:"name"`
}

type InstResult struct {
	Inst      Instance
	Obls      []Obligation
	Paths     int
	Dropped   int
	Aborted   map[string]int
	Reached   map[string]bool
	Steps     int64
	Queries   int
	Trivial   int
	SolverS   float64
	WallS     float64
	Funcs     []string
	Intr      map[string]int
	UnknownBr int
	PathLimit bool
	Err       string
	Observe   []string
	NDNames   []string
	NDSorts   []string
	C18Reads  []string          // global state read outside any mutex
	C18Writes map[string]string // global state written -> lock context
	C18Notes  map[string]int
	C18Events int
	KFUndecided bool
}

// runInstance explores all paths of one instance.
func runInstance(ld *Loaded, sol *Solver, inst Instance, opt runOpts) (res InstResult) {
	res.Inst = inst
	ex := NewExec(ld, sol)
	ex.ring = inst.Ring
	ex.cfg = inst.Cfg
	ex.trace = opt.trace
	ex.stepLimit = opt.stepLimit
	h := &runHooks{aborted: map[string]int{}, reached: map[string]bool{}, kfOpen: opt.kfOpen, concrete: opt.concrete}
	ex.hooks = h
	var entry func(ex *Exec)
	if inst.Harness == "@asm:divmod" {
		entry = func(ex *Exec) { runAsmDivmod(ex) }
	} else if strings.HasPrefix(inst.Harness, "@kernel:") {
		kn := strings.TrimPrefix(inst.Harness, "@kernel:")
		kfn := ld.pkgs["gorgonia.org/tensor/internal/execution"].Func(kn)
		if kfn == nil {
			res.Err = "kernel not found: " + kn
			return
		}
		entry = func(ex *Exec) { runKernel(ex, kfn) }
	} else {
		fn := ld.tensor.Func(inst.Harness)
		if strings.HasPrefix(inst.Harness, "native.") {
			// harnesses of package native (overlay files native__*.go)
			fn = nil
			if np := ld.pkgs["gorgonia.org/tensor/native"]; np != nil {
				fn = np.Func(strings.TrimPrefix(inst.Harness, "native."))
			}
		}
		if fn == nil {
			res.Err = "harness not found: " + inst.Harness
			return
		}
		entry = func(ex *Exec) { ex.callFn(nil, fn, nil, nil) }
	}
	q0, t0, tm0 := sol.Queries, sol.Trivial, sol.Time
	work := [][]decision{nil}
	ndSeen := map[string]bool{}
	maxPaths := opt.maxPaths
	if maxPaths == 0 {
		maxPaths = 4000
	}
	for len(work) > 0 {
		if h.paths >= maxPaths {
			res.PathLimit = true
			h.aborted["path limit reached"] += len(work)
			break
		}
		prefix := work[len(work)-1]
		work = work[:len(work)-1]
		h.pathNo = h.paths
		h.paths++
		ex.resetPath(prefix)
		runPath(ex, entry)
		if lg := ex.evlog; lg != nil {
			if h.c18reads == nil {
				h.c18reads, h.c18writes = map[string]bool{}, map[string]string{}
			}
			for l := range lg.reads {
				h.c18reads[l] = true
			}
			for l, ctx := range lg.writes {
				if old, ok := h.c18writes[l]; !ok || (old != "" && ctx == "") {
					h.c18writes[l] = ctx
				}
			}
			res.C18Events += lg.nEvents
		}
		work = append(work, ex.path.forks...)
		for i, n := range ex.path.ndNames {
			if !ndSeen[n] {
				ndSeen[n] = true
				res.NDNames = append(res.NDNames, n)
				res.NDSorts = append(res.NDSorts, sortTag(ex.path.nondets[i].Sort))
			}
		}
	}
	res.Obls = h.obls
	res.Paths = h.paths
	res.Dropped = h.dropped
	res.Aborted = h.aborted
	res.Reached = h.reached
	res.Steps = ex.steps
	res.Queries = sol.Queries - q0
	res.Trivial = sol.Trivial - t0
	res.SolverS = (sol.Time - tm0).Seconds()
	res.Intr = ex.intrHit
	res.UnknownBr = h.unknownBr
	res.Observe = h.observeLog
	res.KFUndecided = h.kfUndecided
	for l := range h.c18reads {
		res.C18Reads = append(res.C18Reads, l)
	}
	sort.Strings(res.C18Reads)
	res.C18Writes = h.c18writes
	res.C18Notes = h.c18notes
	for f := range ex.funcsSeen {
		res.Funcs = append(res.Funcs, f.String())
	}
	return
}

func runPath(ex *Exec, entry func(ex *Exec)) {
	h := ex.hooks
	defer func() {
		r := recover()
		switch x := r.(type) {
		case nil:
		case pathEnd:
			if strings.HasPrefix(x.why, "assertion") {
				h.endedByAssert++
			} else {
				h.dropped++
			}
		case abortPath:
			h.aborted[x.why]++
		case goPanic:
			// uncaught panic of the target program on a feasible path: an observable failure
			ob := Obligation{ID: "no-uncaught-panic", PathNo: h.pathNo, Verdict: "violated", Query: x.msg}
			if h.concrete == nil {
				vd, model := ex.sol.Check(nil, ex.nondetVars())
				if vd == Unsat {
					h.dropped++
					return
				}
				ob.Model = ex.completeModel(model)
				if vd == Unknown {
					ob.Verdict = "inconclusive"
				}
			}
			h.obls = append(h.obls, ob)
		default:
			msg := fmt.Sprintf("ENGINE: %v", r)
			if os.Getenv("GOSYM_DEBUG") != "" {
				fmt.Fprintf(os.Stderr, "%s\n%s\n", msg, debug.Stack())
			}
			if len(msg) > 300 {
				msg = msg[:300]
			}
			h.aborted[msg]++
		}
	}()
	entry(ex)
}

func fnName(fn interface{}) string {
	type namer interface{ Name() string }
	return fn.(namer).Name()
}

type runOpts struct {
	trace     bool
	stepLimit int64
	maxPaths  int
	kfOpen    map[string]bool
	concrete  map[string]string
	collectND bool
}

func main() {
	if len(os.Args) < 2 {
		fmt.Fprintln(os.Stderr, "usage: gosym run|one|replay ...")
		os.Exit(2)
	}
	switch os.Args[1] {
	case "one":
		cmdOne(os.Args[2:])
	case "run":
		cmdRun(os.Args[2:])
	case "replay":
		cmdReplay(os.Args[2:])
	default:
		fmt.Fprintln(os.Stderr, "unknown command")
		os.Exit(2)
	}
}

// cmdOne runs a single instance given on the command line (debugging aid).
func cmdOne(args []string) {
	fs := flag.NewFlagSet("one", flag.ExitOnError)
	harness := fs.String("h", "", "harness function")
	cfgs := fs.String("cfg", "{}", "cfg json")
	trace := fs.Bool("trace", false, "trace instructions")
	ring := fs.Bool("ring", false, "ring mode")
	tags := fs.String("tags", "", "build tags")
	solver := fs.String("solver", defaultSolver(), "solver binary")
	slog := fs.String("smtlog", "", "log smt to file")
	maxp := fs.Int("maxpaths", 0, "")
	conc := fs.String("concrete", "", "replay json: run the harness in concrete mode with this model")
	fs.Parse(args)
	ld, err := Load(*tags)
	if err != nil {
		fmt.Fprintln(os.Stderr, err)
		os.Exit(2)
	}
	fmt.Fprintf(os.Stderr, "loaded in %v\n", ld.loadTime)
	var cfg map[string]interface{}
	if err := json.Unmarshal([]byte(*cfgs), &cfg); err != nil {
		fmt.Fprintln(os.Stderr, "cfg:", err)
		os.Exit(2)
	}
	sol := NewSolver(*solver, 10000)
	if *slog != "" {
		f, _ := os.Create(*slog)
		sol.log = f
	}
	kf := loadKnownFindings()
	ro := runOpts{trace: *trace, maxPaths: *maxp, kfOpen: kf.openSet()}
	if *conc != "" {
		b, err := os.ReadFile(*conc)
		if err != nil {
			fmt.Fprintln(os.Stderr, err)
			os.Exit(2)
		}
		var rf struct {
			Harness string                 `json:"harness"`
			Cfg     map[string]interface{} `json:"cfg"`
			Model   map[string]string      `json:"model"`
		}
		json.Unmarshal(b, &rf)
		*harness, cfg, ro.concrete = rf.Harness, rf.Cfg, rf.Model
	}
	res := runInstance(ld, sol, Instance{Harness: *harness, Cfg: cfg, Ring: *ring, Name: *harness}, ro)
	fmt.Printf("paths=%d dropped=%d steps=%d queries=%d (trivial %d) solver=%.2fs funcs=%d\n", res.Paths, res.Dropped, res.Steps, res.Queries, res.Trivial, res.SolverS, len(res.Funcs))
	for k, v := range res.Aborted {
		fmt.Printf("ABORTED x%d: %s\n", v, k)
	}
	for k := range res.Reached {
		fmt.Printf("reached %s\n", k)
	}
	for k, n := range res.C18Notes {
		fmt.Printf("C18 note x%d: %s\n", n, k)
	}
	if len(res.C18Reads) > 0 || len(res.C18Writes) > 0 {
		fmt.Printf("C18 events=%d unlocked-global-reads=%v global-writes=%v\n", res.C18Events, res.C18Reads, res.C18Writes)
	}
	cnt := map[string]int{}
	ms := map[string]float64{}
	for _, o := range res.Obls {
		cnt[o.ID+" "+o.Verdict]++
		ms[o.ID+" "+o.Verdict] += o.Ms
		if o.Verdict != "discharged" {
			fmt.Printf("OBL %s %s path=%d %s\n   model: %s\n", o.ID, o.Verdict, o.PathNo, o.Query, modelString(o.Model))
		}
	}
	for k, v := range cnt {
		fmt.Printf("  %-50s x%d  %.0fms\n", k, v, ms[k])
	}
	if res.Err != "" {
		fmt.Println("ERR", res.Err)
	}
	if len(res.Observe) > 0 {
		fmt.Println("observe:", strings.Join(res.Observe, " "))
	}
}
