package main

// The SSA interpreter: frames, instructions, calls, defers, panics.

import (
	"fmt"
	"go/constant"
	"go/token"
	"go/types"
	"os"
	"strings"
	"unicode/utf8"

	"golang.org/x/tools/go/ssa"
)

// control-flow signals (Go panics used for unwinding)
type abortPath struct{ why string } // path cannot be continued (unsupported feature): inconclusive
type pathEnd struct{ why string }   // path ends normally (assumption infeasible, etc.)
type goPanic struct {               // a Go-level panic in the target program
	v   V
	msg string
}

type deferred struct {
	fn   V
	args []V
	next *deferred
}

type frame struct {
	ex        *Exec
	caller    *frame
	fn        *ssa.Function
	block     *ssa.BasicBlock
	prevBlock *ssa.BasicBlock
	env       map[ssa.Value]V
	defers    *deferred
	result    V
	panicking bool
	panicv    interface{}
	phitemps  []V
	skipPhis  bool
	retByIfc  bool
}

type Exec struct {
	prog    *ssa.Program
	ld      *Loaded
	ts      *TermStore
	sol     *Solver
	ring    bool
	globals map[*ssa.Global]*V
	inited  map[*ssa.Package]bool
	bufID   int
	path    *Path
	consts  map[*ssa.Const]V
	intr    map[string]intrinsic
	pools   map[*V][]V // sync.Pool models
	slotIDs map[*V]int64
	gobTab  []gobItem // encoding/gob FIFO model (per path)
	csvTab  [][]V     // encoding/csv record FIFO model (per path)
	evlog   *evLog    // C18 memory-event log (nil unless the harness called vShareBarrier)
	oblNoAssume bool

	// if-conversion
	ipdomCache map[*ssa.Function]map[*ssa.BasicBlock]*ssa.BasicBlock
	undo       *[]undoRec
	ifcDepth   int
	ifcBails   int
	ifcDone    int
	noIfConv   bool
	depth   int

	// stats
	steps     int64
	symLoads  int
	symStores int
	funcsSeen map[*ssa.Function]bool
	intrHit   map[string]int
	trace     bool
	stepLimit int64
	cfg       map[string]interface{}
	hooks     *runHooks
}

func (fr *frame) get(key ssa.Value) V {
	switch key := key.(type) {
	case nil:
		return nil
	case *ssa.Function, *ssa.Builtin:
		return key
	case *ssa.Const:
		return fr.ex.constV(key)
	case *ssa.Global:
		return Ptr{S: fr.ex.global(key)}
	}
	if r, ok := fr.env[key]; ok {
		return r
	}
	panic(fmt.Sprintf("get: no value for %T: %v in %s", key, key.Name(), fr.fn))
}

func (ex *Exec) global(g *ssa.Global) *V {
	if p, ok := ex.globals[g]; ok {
		return p
	}
	ex.ensureInit(g.Pkg)
	if p, ok := ex.globals[g]; ok {
		ex.ioSentinel(g, p)
		return p
	}
	defer func() { ex.ioSentinel(g, ex.globals[g]) }()
	p := new(V)
	*p = ex.zero(mustDeref(g.Type()))
	ex.globals[g] = p
	return p
}

// ioErrors: package io's initialiser is not run (skipInitPkgs); its sentinel errors are created on first use so that
// comparisons like err == io.EOF are not comparisons with nil.
func (ex *Exec) ioSentinel(g *ssa.Global, p *V) {
	if g.Pkg != nil && g.Pkg.Pkg.Path() == "io" && types.Identical(mustDeref(g.Type()), types.Universe.Lookup("error").Type()) {
		if x, ok := (*p).(Iface); ok && x.T == nil {
			*p = ex.mkError(g.Name())
		}
	}
}

func mustDeref(t types.Type) types.Type {
	if p, ok := t.Underlying().(*types.Pointer); ok {
		return p.Elem()
	}
	panic("mustDeref " + t.String())
}

// ensureInit lazily runs the package's own initialiser (dependencies are initialised when touched).
func (ex *Exec) ensureInit(pkg *ssa.Package) {
	if pkg == nil || ex.inited[pkg] {
		return
	}
	ex.inited[pkg] = true
	if skipInitPkgs[pkg.Pkg.Path()] {
		return
	}
	// allocate all globals first
	for _, m := range pkg.Members {
		if g, ok := m.(*ssa.Global); ok {
			if _, ok := ex.globals[g]; !ok {
				p := new(V)
				*p = ex.zero(mustDeref(g.Type()))
				ex.globals[g] = p
			}
		}
	}
	initFn := pkg.Func("init")
	if initFn != nil && initFn.Blocks != nil {
		ex.callFn(nil, initFn, nil, nil)
	}
}

func (ex *Exec) constV(c *ssa.Const) V {
	if v, ok := ex.consts[c]; ok {
		return v
	}
	v := ex.constV0(c)
	ex.consts[c] = v
	return v
}

func (ex *Exec) constV0(c *ssa.Const) V {
	if c.Value == nil {
		return ex.zero(c.Type())
	}
	t := c.Type().Underlying()
	if _, ok := t.(*types.Interface); ok {
		panic("const of interface type with value")
	}
	b, ok := t.(*types.Basic)
	if !ok {
		// type parameter instantiated etc.
		return ex.zero(c.Type())
	}
	n := numKind(b)
	ts := ex.ts
	switch {
	case n.boolean:
		return ts.Bool(constant.BoolVal(c.Value))
	case n.cplx:
		re, _ := constant.Float64Val(constant.Real(c.Value))
		im, _ := constant.Float64Val(constant.Imag(c.Value))
		return Cplx{ex.floatConst(re, n.w/2), ex.floatConst(im, n.w/2)}
	case n.float:
		f, _ := constant.Float64Val(c.Value)
		return ex.floatConst(f, n.w)
	case n.ok:
		if n.signed {
			return ts.BV(n.w*8, uint64(c.Int64()))
		}
		return ts.BV(n.w*8, c.Uint64())
	case b.Kind() == types.String || b.Kind() == types.UntypedString:
		return StrV{S: constant.StringVal(c.Value)}
	case b.Kind() == types.UnsafePointer:
		return Ptr{}
	}
	panic("constV: " + c.String())
}

func (ex *Exec) floatConst(f float64, w int) *Term {
	if ex.ring {
		if f != float64(int64(f)) {
			panic(abortPath{fmt.Sprintf("non-integer float constant %v in ring mode", f)})
		}
		return ex.ts.IntC(int64(f))
	}
	if w == 4 {
		return ex.ts.F32(float32(f))
	}
	return ex.ts.F64(f)
}

func (ex *Exec) loc(pos token.Pos) string {
	if !pos.IsValid() {
		return "?"
	}
	p := ex.prog.Fset.Position(pos)
	f := p.Filename
	if i := strings.LastIndex(f, "/"); i >= 0 {
		f = f[i+1:]
	}
	return fmt.Sprintf("%s:%d", f, p.Line)
}

// ---- calls ----

func (ex *Exec) callV(caller *frame, fn V, args []V, pos token.Pos) V {
	switch f := fn.(type) {
	case *ssa.Function:
		if f == nil {
			ex.throw("call of nil function")
		}
		return ex.callFn(caller, f, args, nil)
	case *Closure:
		if f == nil {
			ex.throw("call of nil closure")
		}
		return ex.callFn(caller, f.Fn, args, f.Env)
	case *ssa.Builtin:
		return ex.callBuiltin(caller, f, args, pos)
	case *boundIntr:
		return f.f(ex, caller, append([]V{f.recv}, args...))
	}
	panic(abortPath{fmt.Sprintf("call of %T", fn)})
}

// throw raises a Go runtime panic in the target program.
func (ex *Exec) throw(msg string) {
	if os.Getenv("GOSYM_PANICDEBUG") != "" {
		fmt.Fprintf(os.Stderr, "THROW: %s\n", msg)
	}
	panic(goPanic{v: Iface{T: ex.ld.runtimeErrType, V: StrV{S: msg}}, msg: msg})
}

func (ex *Exec) callFn(caller *frame, fn *ssa.Function, args []V, env []V) V {
	if caller != nil && fn.Pkg != nil && fn.Name() == "init" && fn == fn.Pkg.Func("init") {
		return nil // package initialisers are run lazily, when the package is first touched
	}
	if fn.Parent() == nil {
		name := fn.String()
		if h, ok := ex.intr[name]; ok && !(name == "gorgonia.org/tensor.divmod" && fn.Blocks != nil) {
			// (divmod: the model stands for the assembly only; under the noasm tag the Go body is the code)
			ex.intrHit[name]++
			return h(ex, caller, args)
		}
		if fn.Pkg != nil && fn.Blocks != nil {
			ex.ensureInit(fn.Pkg)
		}
	}
	if fn.Pkg != nil && isBoundaryPkg(fn.Pkg.Pkg.Path()) {
		panic(abortPath{"UNSUPPORTED boundary call: " + fn.String()})
	}
	if fn.Blocks == nil && fn.Pkg != nil {
		fn.Pkg.Build() // lazily build dependency packages (idempotent)
	}
	if fn.Blocks == nil {
		// instantiated generic or wrapper without package: try origin intrinsic
		if o := fn.Origin(); o != nil {
			if h, ok := ex.intr[o.String()]; ok {
				ex.intrHit[o.String()]++
				return h(ex, caller, append(args, typeArgsV(fn)...))
			}
		}
		panic(abortPath{"UNSUPPORTED call (no body): " + fn.String()})
	}
	if o := fn.Origin(); o != nil {
		if h, ok := ex.intr[o.String()]; ok {
			ex.intrHit[o.String()]++
			return h(ex, caller, append(args, typeArgsV(fn)...))
		}
	}
	if ex.depth > 400 {
		panic(abortPath{"call depth exceeded"})
	}
	ex.depth++
	defer func() { ex.depth-- }()
	if !ex.funcsSeen[fn] {
		ex.funcsSeen[fn] = true
	}
	fr := &frame{ex: ex, caller: caller, fn: fn}
	fr.env = make(map[ssa.Value]V, 16)
	fr.block = fn.Blocks[0]
	for _, l := range fn.Locals {
		p := new(V)
		*p = ex.zero(mustDeref(l.Type()))
		fr.env[l] = Ptr{S: p}
	}
	for i, p := range fn.Params {
		fr.env[p] = args[i]
	}
	for i, fv := range fn.FreeVars {
		fr.env[fv] = env[i]
	}
	for fr.block != nil {
		fr.run()
	}
	return fr.result
}

type typeArgV struct{ T types.Type }

func typeArgsV(fn *ssa.Function) []V {
	var r []V
	for _, t := range fn.TypeArgs() {
		r = append(r, typeArgV{t})
	}
	return r
}

func (fr *frame) run() {
	defer func() {
		if fr.block == nil {
			return
		}
		r := recover()
		if _, ok := r.(goPanic); !ok {
			panic(r) // engine signals and engine bugs pass through untouched
		}
		fr.panicking = true
		fr.panicv = r
		fr.runDefers()
		fr.block = fr.fn.Recover
		if fr.block == nil {
			// recovered panic in a function without named results: return zero value
			fr.result = fr.ex.zeroResults(fr.fn)
		}
	}()
	ex := fr.ex
	for {
		// phis
		instrs := fr.block.Instrs
		np := 0
		for np < len(instrs) {
			if _, ok := instrs[np].(*ssa.Phi); !ok {
				break
			}
			np++
		}
		if fr.skipPhis {
			fr.skipPhis = false
		} else if np > 0 {
			pi := -1
			for i, p := range fr.block.Preds {
				if p == fr.prevBlock {
					pi = i
					break
				}
			}
			fr.phitemps = fr.phitemps[:0]
			for _, in := range instrs[:np] {
				fr.phitemps = append(fr.phitemps, fr.get(in.(*ssa.Phi).Edges[pi]))
			}
			for i, in := range instrs[:np] {
				fr.env[in.(*ssa.Phi)] = fr.phitemps[i]
			}
		}
		jumped := false
		for _, in := range instrs[np:] {
			ex.steps++
			if ex.stepLimit > 0 && ex.steps > ex.stepLimit {
				panic(abortPath{"step limit exceeded"})
			}
			if ex.trace {
				if v, ok := in.(ssa.Value); ok {
					fmt.Fprintf(os.Stderr, "  [%s] %s = %s\n", fr.fn.Name(), v.Name(), in)
				} else {
					fmt.Fprintf(os.Stderr, "  [%s] %s\n", fr.fn.Name(), in)
				}
			}
			switch fr.visit(in) {
			case kReturn:
				return
			case kJump:
				jumped = true
			}
			if jumped {
				break
			}
		}
	}
}

func (ex *Exec) zeroResults(fn *ssa.Function) V {
	res := fn.Signature.Results()
	switch res.Len() {
	case 0:
		return nil
	case 1:
		return ex.zero(res.At(0).Type())
	}
	return ex.zero(res)
}

func (fr *frame) runDefers() {
	for d := fr.defers; d != nil; d = d.next {
		fr.runDefer(d)
	}
	fr.defers = nil
	if fr.panicking {
		panic(fr.panicv) // not recovered: keep unwinding
	}
}

func (fr *frame) runDefer(d *deferred) {
	var ok bool
	defer func() {
		if !ok {
			r := recover()
			if _, isGo := r.(goPanic); !isGo {
				panic(r)
			}
			// deferred call itself panicked: replaces the current panic
			fr.panicking = true
			fr.panicv = r
		}
	}()
	fr.ex.callV(fr, d.fn, d.args, token.NoPos)
	ok = true
}

const (
	kNext = iota
	kReturn
	kJump
)

func (fr *frame) visit(instr ssa.Instruction) int {
	ex := fr.ex
	switch in := instr.(type) {
	case *ssa.DebugRef:
	case *ssa.UnOp:
		fr.env[in] = ex.unop(fr, in)
	case *ssa.BinOp:
		fr.env[in] = ex.binop(in.Op, in.X.Type(), fr.get(in.X), fr.get(in.Y), in.Y.Type())
	case *ssa.Call:
		fn, args := fr.prepareCall(&in.Call)
		fr.env[in] = ex.callV(fr, fn, args, in.Pos())
	case *ssa.ChangeInterface:
		fr.env[in] = fr.get(in.X)
	case *ssa.ChangeType:
		fr.env[in] = fr.get(in.X)
	case *ssa.Convert:
		fr.env[in] = ex.convert(in.X.Type(), in.Type(), fr.get(in.X))
	case *ssa.MultiConvert:
		fr.env[in] = ex.convert(in.X.Type(), in.Type(), fr.get(in.X))
	case *ssa.SliceToArrayPointer:
		panic(abortPath{"SliceToArrayPointer"})
	case *ssa.MakeInterface:
		fr.env[in] = Iface{T: in.X.Type(), V: fr.get(in.X)}
	case *ssa.Extract:
		fr.env[in] = fr.get(in.Tuple).(Tuple)[in.Index]
	case *ssa.Slice:
		fr.env[in] = ex.sliceOp(fr, in)
	case *ssa.Return:
		switch len(in.Results) {
		case 0:
		case 1:
			fr.result = fr.get(in.Results[0])
		default:
			res := make(Tuple, len(in.Results))
			for i, r := range in.Results {
				res[i] = fr.get(r)
			}
			fr.result = res
		}
		fr.block = nil
		return kReturn
	case *ssa.RunDefers:
		fr.runDefers()
	case *ssa.Panic:
		v := fr.get(in.X)
		if os.Getenv("GOSYM_PANICDEBUG") != "" {
			fmt.Fprintf(os.Stderr, "PANIC instr in %s at %s: %s\n", fr.fn.Name(), ex.loc(in.Pos()), ex.panicMsg(v))
		}
		panic(goPanic{v: v, msg: ex.panicMsg(v)})
	case *ssa.Send:
		ch := fr.get(in.Chan).(*ChanV)
		if ch == nil {
			panic(abortPath{"send on nil channel"})
		}
		if len(ch.Buf) >= ch.Cap {
			panic(abortPath{"send would block"})
		}
		ex.evPoolPut(ch.Buf, fr.get(in.X), "channel pool")
		ch.Buf = append(ch.Buf, fr.get(in.X))
	case *ssa.Store:
		ex.store(fr.get(in.Addr).(Ptr), mustDeref(in.Addr.Type()), fr.get(in.Val), nil)
	case *ssa.If:
		c := fr.get(in.Cond).(*Term)
		if !c.IsConst() {
			c = ex.simp(c)
			if _, known := ex.path.known[c.id]; !c.IsConst() && !known && (ex.path.pos >= len(ex.path.prefix) || true) {
				if fr.tryIfConvert(in, c) {
					if fr.retByIfc {
						return kReturn
					}
					return kJump
				}
			}
		}
		succ := 1
		if ex.branch(c, in.Pos(), fr) {
			succ = 0
		}
		fr.prevBlock, fr.block = fr.block, fr.block.Succs[succ]
		return kJump
	case *ssa.Jump:
		fr.prevBlock, fr.block = fr.block, fr.block.Succs[0]
		return kJump
	case *ssa.Defer:
		fn, args := fr.prepareCall(&in.Call)
		fr.defers = &deferred{fn: fn, args: args, next: fr.defers}
	case *ssa.Go:
		panic(abortPath{"UNSUPPORTED go statement"})
	case *ssa.MakeChan:
		sz, ok := termConstInt(fr.get(in.Size).(*Term))
		if !ok {
			panic(abortPath{"symbolic chan size"})
		}
		fr.env[in] = &ChanV{Cap: int(sz)}
	case *ssa.Alloc:
		p := new(V)
		*p = ex.zero(mustDeref(in.Type()))
		if in.Heap {
			fr.env[in] = Ptr{S: p}
		} else {
			// local: re-zero the existing slot
			old := fr.env[in].(Ptr)
			*old.S = *p
		}
	case *ssa.MakeSlice:
		fr.env[in] = ex.makeSlice(fr, in)
	case *ssa.MakeMap:
		fr.env[in] = &MapV{}
	case *ssa.Range:
		switch x := fr.get(in.X).(type) {
		case StrV:
			if x.T != nil {
				panic(abortPath{"range over symbolic string"})
			}
			fr.env[in] = &rangeIter{str: x.S, isStr: true}
		case *MapV:
			it := &rangeIter{}
			if x != nil {
				it.keys = append(it.keys, x.Keys...)
				it.vals = append(it.vals, x.Vals...)
			}
			fr.env[in] = it
		default:
			panic(abortPath{"UNSUPPORTED range"})
		}
	case *ssa.Next:
		it := fr.get(in.Iter).(*rangeIter)
		if in.IsString {
			if it.pos >= len(it.str) {
				fr.env[in] = Tuple{ex.ts.fls, ex.c64(0), ex.ts.BV(32, 0)}
			} else {
				r, sz := utf8.DecodeRuneInString(it.str[it.pos:])
				fr.env[in] = Tuple{ex.ts.tru, ex.c64(int64(it.pos)), ex.ts.BV(32, uint64(r))}
				it.pos += sz
			}
		} else {
			if it.pos >= len(it.keys) {
				fr.env[in] = Tuple{ex.ts.fls, nil, nil}
			} else {
				fr.env[in] = Tuple{ex.ts.tru, it.keys[it.pos], it.vals[it.pos]}
				it.pos++
			}
		}
	case *ssa.FieldAddr:
		fr.env[in] = ex.fieldAddr(fr.get(in.X).(Ptr), in.Field, in)
	case *ssa.Field:
		x := fr.get(in.X).(Struct)
		fr.env[in] = ex.copyV(x[in.Field])
	case *ssa.IndexAddr:
		fr.env[in] = ex.indexAddr(fr, in)
	case *ssa.Index:
		fr.env[in] = ex.indexOp(fr, in)
	case *ssa.Lookup:
		fr.env[in] = ex.lookup(fr, in)
	case *ssa.MapUpdate:
		m := fr.get(in.Map).(*MapV)
		if ex.evlog != nil {
			ex.evMap(m, true)
		}
		if m == nil {
			ex.throw("assignment to entry in nil map")
		}
		ex.mapSet(m, fr.get(in.Key), fr.get(in.Value))
	case *ssa.TypeAssert:
		fr.env[in] = ex.typeAssert(in, fr.get(in.X).(Iface))
	case *ssa.MakeClosure:
		var bindings []V
		for _, b := range in.Bindings {
			bindings = append(bindings, fr.get(b))
		}
		fr.env[in] = &Closure{Fn: in.Fn.(*ssa.Function), Env: bindings}
	case *ssa.Phi:
		panic("unexpected phi")
	case *ssa.Select:
		fr.env[in] = ex.selectOp(fr, in)
	default:
		panic(abortPath{fmt.Sprintf("UNSUPPORTED instruction %T", instr)})
	}
	return kNext
}

func (ex *Exec) panicMsg(v V) string {
	if i, ok := v.(Iface); ok {
		switch x := i.V.(type) {
		case StrV:
			return x.S
		case Ptr:
			if x.S != nil {
				if s, ok := (*x.S).(Struct); ok && len(s) > 0 {
					if m, ok := s[0].(StrV); ok {
						return "error: " + m.S
					}
				}
			}
		}
		if i.T != nil {
			return "panic value of type " + i.T.String()
		}
	}
	return fmt.Sprintf("%T", v)
}

func (fr *frame) prepareCall(call *ssa.CallCommon) (V, []V) {
	ex := fr.ex
	v := fr.get(call.Value)
	var fn V
	var args []V
	if call.Method == nil {
		fn = v
	} else {
		recv := v.(Iface)
		if recv.T == nil {
			ex.throw("method value: interface conversion: interface is nil (calling " + call.Method.Name() + ")")
		}
		if bi := ex.dynIntrinsic(recv, call.Method.Name()); bi != nil {
			fn = bi
		} else {
			f := ex.lookupMethod(recv.T, call.Method)
			if f == nil {
				panic(abortPath{fmt.Sprintf("method %s not found on %s", call.Method.Name(), recv.T)})
			}
			fn = f
			args = append(args, recv.V)
		}
	}
	for _, a := range call.Args {
		args = append(args, fr.get(a))
	}
	return fn, args
}

func (ex *Exec) lookupMethod(t types.Type, meth *types.Func) *ssa.Function {
	return ex.prog.LookupMethod(t, meth.Pkg(), meth.Name())
}

// ---- memory instructions ----

func (ex *Exec) load(p Ptr, t types.Type) V {
	switch {
	case p.S != nil:
		if ex.evlog != nil {
			ex.evLoadSlot(p.S)
		}
		return ex.coerceLoad(*p.S, t)
	case p.B != nil:
		return ex.bufLoad(p.B, p.Off, t)
	}
	ex.throw("nil pointer dereference")
	return nil
}

// coerceLoad handles the unsafe punning idioms when a slot is read at another static type.
func (ex *Exec) coerceLoad(v V, t types.Type) V {
	switch u := t.Underlying().(type) {
	case *types.Slice:
		switch x := v.(type) {
		case Slice:
			return x
		case Struct: // reflect.SliceHeader{Data, Len, Cap}
			if len(x) == 3 {
				return ex.sliceFromHeader(x, u.Elem())
			}
		}
		panic(abortPath{fmt.Sprintf("load of %s from slot holding %T", t, v)})
	case *types.Basic:
		if n := numKind(u); n.ok && !n.cplx {
			if tv, ok := v.(*Term); ok {
				s := ex.sortOf(u)
				if tv.Sort != s {
					if tv.Sort.Bits() == s.Bits() || (tv.Sort.K == SInt) || s.K == SInt {
						return ex.asSort(tv, s, n.w)
					}
					panic(abortPath{fmt.Sprintf("load of %s from slot holding %v", t, tv.Sort)})
				}
				return tv
			}
			if pi, ok := v.(ProvInt); ok {
				return pi
			}
			if p, ok := v.(Ptr); ok && u.Kind() == types.Uintptr {
				return ProvInt{P: p, Add: ex.c64(0)}
			}
		}
	case *types.Struct:
		if s, ok := v.(Slice); ok && u.NumFields() == 3 {
			// slice read as a reflect.SliceHeader
			var data V = ProvInt{P: Ptr{B: s.B, Off: s.Off}, Add: ex.c64(0)}
			if s.B == nil {
				data = ex.c64(0)
			}
			ln, cp := s.Len, s.Cap
			if ln == nil {
				ln, cp = ex.c64(0), ex.c64(0)
			}
			return Struct{data, ln, cp}
		}
	}
	return ex.copyV(v)
}

func (ex *Exec) sliceFromHeader(h Struct, elem types.Type) V {
	ln := h[1].(*Term)
	cp := h[2].(*Term)
	switch d := h[0].(type) {
	case ProvInt:
		p := ex.provToPtr(d)
		if p.B == nil && p.OB != nil {
			p = Ptr{B: p.OB, Off: p.OOff}
		}
		if p.B == nil {
			panic(abortPath{"SliceHeader.Data does not point into a buffer"})
		}
		return Slice{B: p.B, Off: p.Off, Len: ln, Cap: cp}
	case *Term:
		if d.IsConst() && d.Bits == 0 {
			return Slice{}
		}
	}
	panic(abortPath{"SliceHeader.Data without provenance"})
}

func (ex *Exec) provToPtr(d ProvInt) Ptr {
	if d.P.B != nil {
		return Ptr{B: d.P.B, Off: ex.ts.BvBin(OAdd, d.P.Off, d.Add)}
	}
	if a, ok := termConstInt(d.Add); ok && a == 0 {
		return d.P
	}
	panic(abortPath{"pointer arithmetic on a non-buffer pointer"})
}

func (ex *Exec) store(p Ptr, t types.Type, v V, guard *Term) {
	switch {
	case p.S != nil:
		if ex.evlog != nil {
			ex.evStoreSlot(p.S, guard)
		}
		if guard != nil {
			old := *p.S
			ot, ok1 := old.(*Term)
			nt, ok2 := v.(*Term)
			if ok1 && ok2 && ot.Sort == nt.Sort {
				*p.S = ex.ts.Ite(guard, nt, ot)
				return
			}
			*p.S = ex.iteGeneral(guard, v, old)
			return
		}
		// storing a slice into a slot viewed as SliceHeader etc: just keep the value
		ex.storeInto(p.S, t, v)
	case p.B != nil:
		ex.bufStore(p.B, p.Off, t, v, guard)
	default:
		ex.throw("nil pointer dereference (store)")
	}
}

func (ex *Exec) fieldAddr(p Ptr, field int, in *ssa.FieldAddr) Ptr {
	st := mustDeref(in.X.Type()).Underlying().(*types.Struct)
	switch {
	case p.S != nil:
		s, ok := (*p.S).(Struct)
		if sl, isSl := (*p.S).(Slice); !ok && isSl && st.NumFields() == 3 {
			// field-wise access to a slice through (*reflect.SliceHeader)(unsafe.Pointer(&slice)): the slot switches to its
			// header view {Data, Len, Cap}; later loads at the slice type go back through sliceFromHeader
			*p.S = ex.coerceLoad(sl, st)
			s, ok = (*p.S).(Struct)
		}
		if !ok {
			// struct view of something else (e.g. (*reflect.SliceHeader)(unsafe.Pointer(&slice)))
			panic(abortPath{fmt.Sprintf("FieldAddr on slot holding %T at %s", *p.S, ex.loc(in.Pos()))})
		}
		return Ptr{S: &s[field]}
	case p.B != nil:
		if isNumCellBuf(p.B) && len(p.B.cells) > 0 {
			// struct of numeric fields laid over raw memory: field pointer by byte offset
			offs := sizes.Offsetsof(structFields(st))
			return Ptr{B: p.B, Off: ex.ts.BvBin(OAdd, p.Off, ex.c64(offs[field]))}
		}
		ci := ex.genCell(p.B, p.Off, mustDeref(in.X.Type()))
		s := p.B.cells[ci].(Struct)
		return Ptr{S: &s[field]}
	}
	ex.throw("nil pointer dereference (field " + st.Field(field).Name() + ") at " + ex.loc(in.Pos()))
	return Ptr{}
}

func structFields(st *types.Struct) []*types.Var {
	fs := make([]*types.Var, st.NumFields())
	for i := range fs {
		fs[i] = st.Field(i)
	}
	return fs
}

// elemPtr gives the pointer to element idx (term) of a buffer region starting at byte offset off.
func (ex *Exec) elemPtr(b *Buf, off *Term, idx *Term, et types.Type) Ptr {
	sz := sizeof(et)
	boff := ex.ts.BvBin(OAdd, off, ex.ts.BvBin(OMul, idx, ex.c64(int64(sz))))
	if nk := numKind(et); nk.ok {
		return Ptr{B: b, Off: boff}
	}
	// non numeric element: slot pointer to the cell (keeps interior pointers simple)
	ci := ex.genCell(b, boff, et)
	return Ptr{S: &b.cells[ci], OB: b, OOff: boff}
}

// boundsCheck forks a panic path when idx may be outside [0,n).
func (ex *Exec) boundsCheck(idx, n *Term, what string, pos token.Pos, fr *frame) {
	ts := ex.ts
	inb := ex.simp(ts.BvCmp(OULt, idx, n)) // unsigned compare covers negative idx
	if inb.IsConst() {
		if inb.cBool() {
			return
		}
		ex.throw(fmt.Sprintf("runtime error: index out of range (%s) at %s", what, ex.loc(pos)))
	}
	if !ex.branch(inb, pos, fr) {
		ex.throw(fmt.Sprintf("runtime error: index out of range (%s) at %s", what, ex.loc(pos)))
	}
}

func (ex *Exec) toIdx(v V, t types.Type) *Term {
	x, ok := v.(*Term)
	if !ok {
		panic(abortPath{fmt.Sprintf("index of kind %T", v)})
	}
	n := numKind(t)
	if n.w == 8 {
		return x
	}
	if n.signed {
		return ex.ts.SExt(x, 64)
	}
	return ex.ts.ZExt(x, 64)
}

func (ex *Exec) indexAddr(fr *frame, in *ssa.IndexAddr) V {
	x := fr.get(in.X)
	idx := ex.toIdx(fr.get(in.Index), in.Index.Type())
	switch xt := in.X.Type().Underlying().(type) {
	case *types.Slice:
		s := x.(Slice)
		if s.B == nil {
			ex.throw("runtime error: index out of range (nil slice) at " + ex.loc(in.Pos()))
		}
		ex.boundsCheck(idx, s.Len, "slice", in.Pos(), fr)
		return ex.elemPtr(s.B, s.Off, idx, xt.Elem())
	case *types.Pointer: // *array
		at := xt.Elem().Underlying().(*types.Array)
		p := x.(Ptr)
		var b *Buf
		off := ex.c64(0)
		switch {
		case p.S != nil:
			b = (*p.S).(ArrV).B
		case p.B != nil:
			// array embedded in a buffer cell / raw memory
			if isNumCellBuf(p.B) {
				b, off = p.B, p.Off
			} else {
				ci := ex.genCell(p.B, p.Off, at)
				b = p.B.cells[ci].(ArrV).B
			}
		default:
			ex.throw("nil pointer dereference (array index)")
		}
		ex.boundsCheck(idx, ex.c64(at.Len()), "array", in.Pos(), fr)
		return ex.elemPtr(b, off, idx, at.Elem())
	}
	panic(abortPath{"IndexAddr on " + in.X.Type().String()})
}

func (ex *Exec) indexOp(fr *frame, in *ssa.Index) V {
	x := fr.get(in.X)
	idx := ex.toIdx(fr.get(in.Index), in.Index.Type())
	switch xt := in.X.Type().Underlying().(type) {
	case *types.Array:
		a := x.(ArrV)
		ex.boundsCheck(idx, ex.c64(xt.Len()), "array", in.Pos(), fr)
		p := ex.elemPtr(a.B, ex.c64(0), idx, xt.Elem())
		return ex.load(p, xt.Elem())
	case *types.Basic: // string
		s := x.(StrV)
		if s.T != nil {
			panic(abortPath{"index of symbolic string"})
		}
		i, ok := termConstInt(idx)
		if !ok {
			panic(abortPath{"symbolic index of string"})
		}
		if i < 0 || int(i) >= len(s.S) {
			ex.throw("runtime error: string index out of range")
		}
		return ex.ts.BV(8, uint64(s.S[i]))
	}
	panic(abortPath{"Index on " + in.X.Type().String()})
}

func (ex *Exec) makeSlice(fr *frame, in *ssa.MakeSlice) V {
	et := in.Type().Underlying().(*types.Slice).Elem()
	ln := ex.toIdx(fr.get(in.Len), in.Len.Type())
	cp := ex.toIdx(fr.get(in.Cap), in.Cap.Type())
	c, ok := termConstInt(cp)
	if !ok {
		// concretise the capacity by splitting on its feasible values
		c = ex.concretize(cp, 0, 64, "make cap", in.Pos(), fr)
		cp = ex.c64(c)
		if l2, ok2 := termConstInt(ex.simplifyUnderPC(ln)); ok2 {
			ln = ex.c64(l2)
		}
	}
	if c < 0 {
		ex.throw("runtime error: makeslice: cap out of range")
	}
	if c > 1<<20 {
		panic(abortPath{fmt.Sprintf("make of %d elements", c)})
	}
	if l, ok := termConstInt(ln); ok {
		if l < 0 || l > c {
			ex.throw("runtime error: makeslice: len out of range")
		}
	} else {
		okc := ex.ts.BvCmp(OULe, ln, cp)
		if !ex.branch(okc, in.Pos(), fr) {
			ex.throw("runtime error: makeslice: len out of range")
		}
	}
	b := ex.newBuf(et, int(c))
	return Slice{B: b, Off: ex.c64(0), Len: ln, Cap: cp}
}

func (ex *Exec) sliceOp(fr *frame, in *ssa.Slice) V {
	ts := ex.ts
	x := fr.get(in.X)
	var lo, hi, max *Term
	if in.Low != nil {
		lo = ex.toIdx(fr.get(in.Low), in.Low.Type())
	}
	if in.High != nil {
		hi = ex.toIdx(fr.get(in.High), in.High.Type())
	}
	if in.Max != nil {
		max = ex.toIdx(fr.get(in.Max), in.Max.Type())
	}
	var b *Buf
	var off, ln, cp *Term
	var et types.Type
	switch xt := in.X.Type().Underlying().(type) {
	case *types.Basic: // string
		s := x.(StrV)
		if s.T != nil {
			panic(abortPath{"slice of symbolic string"})
		}
		l, h := int64(0), int64(len(s.S))
		var ok bool
		if lo != nil {
			if l, ok = termConstInt(lo); !ok {
				panic(abortPath{"symbolic string slice"})
			}
		}
		if hi != nil {
			if h, ok = termConstInt(hi); !ok {
				panic(abortPath{"symbolic string slice"})
			}
		}
		if l < 0 || h < l || h > int64(len(s.S)) {
			ex.throw("runtime error: slice bounds out of range (string)")
		}
		return StrV{S: s.S[l:h]}
	case *types.Slice:
		s := x.(Slice)
		et = xt.Elem()
		if s.B == nil {
			// nil slice: only [0:0] is valid
			z := ex.c64(0)
			for _, v := range []*Term{lo, hi, max} {
				if v != nil {
					if c, ok := termConstInt(v); !ok || c != 0 {
						if !ok {
							if ex.branch(ts.Eq(v, z), in.Pos(), fr) {
								continue
							}
						}
						ex.throw("runtime error: slice bounds out of range (nil slice) at " + ex.loc(in.Pos()))
					}
				}
			}
			return Slice{}
		}
		b, off, ln, cp = s.B, s.Off, s.Len, s.Cap
	case *types.Pointer:
		at := xt.Elem().Underlying().(*types.Array)
		et = at.Elem()
		p := x.(Ptr)
		switch {
		case p.S != nil:
			b = (*p.S).(ArrV).B
			off = ex.c64(0)
		case p.B != nil && isNumCellBuf(p.B):
			b, off = p.B, p.Off
		default:
			panic(abortPath{"slice of array pointer"})
		}
		ln, cp = ex.c64(at.Len()), ex.c64(at.Len())
	default:
		panic(abortPath{"Slice on " + in.X.Type().String()})
	}
	if lo == nil {
		lo = ex.c64(0)
	}
	if hi == nil {
		hi = ln
	}
	if max == nil {
		max = cp
	}
	// 0 <= lo <= hi <= max <= cap
	ok := ts.And(ts.BvCmp(OULe, lo, hi), ts.And(ts.BvCmp(OULe, hi, max), ts.BvCmp(OULe, max, cp)))
	if ok.IsConst() {
		if !ok.cBool() {
			ex.throw(fmt.Sprintf("runtime error: slice bounds out of range at %s", ex.loc(in.Pos())))
		}
	} else if !ex.branch(ok, in.Pos(), fr) {
		ex.throw(fmt.Sprintf("runtime error: slice bounds out of range at %s", ex.loc(in.Pos())))
	}
	sz := sizeof(et)
	noff := ts.BvBin(OAdd, off, ts.BvBin(OMul, lo, ex.c64(int64(sz))))
	return Slice{B: b, Off: noff, Len: ts.BvBin(OSub, hi, lo), Cap: ts.BvBin(OSub, max, lo)}
}

func (ex *Exec) unop(fr *frame, in *ssa.UnOp) V {
	x := fr.get(in.X)
	ts := ex.ts
	switch in.Op {
	case token.MUL: // load
		return ex.load(x.(Ptr), in.Type())
	case token.NOT:
		return ts.Not(x.(*Term))
	case token.SUB:
		switch v := x.(type) {
		case *Term:
			if v.Sort.K == SBV {
				return ts.BvNeg(v)
			}
			return ts.FUn(OFNeg, v)
		case Cplx:
			return Cplx{ts.FUn(OFNeg, v.Re), ts.FUn(OFNeg, v.Im)}
		}
	case token.XOR:
		return ts.BvNot(x.(*Term))
	case token.ARROW:
		ch := x.(*ChanV)
		if ch == nil || len(ch.Buf) == 0 {
			panic(abortPath{"receive would block"})
		}
		v := ch.Buf[0]
		ch.Buf = ch.Buf[1:]
		if in.CommaOk {
			return Tuple{v, ts.tru}
		}
		return v
	}
	panic(abortPath{fmt.Sprintf("unop %s on %T", in.Op, x)})
}

func (ex *Exec) selectOp(fr *frame, in *ssa.Select) V {
	if in.Blocking {
		panic(abortPath{"blocking select"})
	}
	res := Tuple{ex.c64(-1), ex.ts.fls}
	for _, st := range in.States {
		if st.Dir == types.RecvOnly {
			res = append(res, ex.zero(st.Chan.Type().Underlying().(*types.Chan).Elem()))
		}
	}
	ri := 2
	for i, st := range in.States {
		ch := fr.get(st.Chan).(*ChanV)
		if st.Dir == types.RecvOnly {
			if ch != nil && len(ch.Buf) > 0 {
				res[0] = ex.c64(int64(i))
				res[1] = ex.ts.tru
				res[ri] = ch.Buf[0]
				ch.Buf = ch.Buf[1:]
				return res
			}
			ri++
		} else {
			if ch != nil && len(ch.Buf) < ch.Cap {
				ch.Buf = append(ch.Buf, fr.get(st.Send))
				res[0] = ex.c64(int64(i))
				return res
			}
		}
	}
	return res
}

// ---- maps ----

func (ex *Exec) mapFind(m *MapV, k V) int {
	for i, kk := range m.Keys {
		e := ex.equalV(kk, k)
		if e.IsConst() {
			if e.cBool() {
				return i
			}
			continue
		}
		if ex.branch(e, token.NoPos, nil) {
			return i
		}
	}
	return -1
}

func (ex *Exec) mapSet(m *MapV, k, v V) {
	if i := ex.mapFind(m, k); i >= 0 {
		m.Vals[i] = v
		return
	}
	m.Keys = append(m.Keys, k)
	m.Vals = append(m.Vals, v)
}

func (ex *Exec) lookup(fr *frame, in *ssa.Lookup) V {
	x := fr.get(in.X)
	switch xt := in.X.Type().Underlying().(type) {
	case *types.Map:
		m := x.(*MapV)
		if ex.evlog != nil {
			ex.evMap(m, false)
		}
		var v V
		found := false
		if m != nil {
			if i := ex.mapFind(m, fr.get(in.Index)); i >= 0 {
				v, found = ex.copyV(m.Vals[i]), true
			}
		}
		if !found {
			v = ex.zero(xt.Elem())
		}
		if in.CommaOk {
			return Tuple{v, ex.ts.Bool(found)}
		}
		return v
	case *types.Basic:
		s := x.(StrV)
		i, ok := termConstInt(ex.toIdx(fr.get(in.Index), in.Index.Type()))
		if !ok || s.T != nil {
			panic(abortPath{"symbolic string lookup"})
		}
		if i < 0 || int(i) >= len(s.S) {
			ex.throw("runtime error: string index out of range")
		}
		return ex.ts.BV(8, uint64(s.S[i]))
	}
	panic(abortPath{"lookup"})
}

// ---- interfaces ----

func (ex *Exec) typeAssert(in *ssa.TypeAssert, x Iface) V {
	ok := false
	var v V
	if it, isI := in.AssertedType.Underlying().(*types.Interface); isI {
		if x.T != nil && ex.implements(x.T, it) {
			ok = true
			v = x
		}
	} else if x.T != nil && types.Identical(x.T, in.AssertedType) {
		ok = true
		v = x.V
	}
	if in.CommaOk {
		if !ok {
			v = ex.zero(in.AssertedType)
		}
		return Tuple{v, ex.ts.Bool(ok)}
	}
	if !ok {
		have := "nil"
		if x.T != nil {
			have = x.T.String()
		}
		ex.throw(fmt.Sprintf("interface conversion: interface is %s, not %s (at %s)", have, in.AssertedType, ex.loc(in.Pos())))
	}
	return v
}

func (ex *Exec) implements(t types.Type, it *types.Interface) bool {
	return types.Implements(t, it)
}

var boundaryPkgs = []string{"encoding/gob", "fmt", "reflect", "sync", "runtime", "os", "regexp", "gonum.org/", "github.com/apache/arrow",
	"github.com/gogo/protobuf", "github.com/golang/protobuf", "google.golang.org/protobuf", "math/rand", "time",
	"internal/", "syscall", "log", "io", "bufio", "encoding/csv", "encoding/binary", "testing", "github.com/pkg/errors", "unsafe"}

func isBoundaryPkg(path string) bool {
	for _, b := range boundaryPkgs {
		if path == b || strings.HasPrefix(path, b+"/") || (strings.HasSuffix(b, "/") && strings.HasPrefix(path, b)) {
			return true
		}
	}
	return false
}

type rangeIter struct {
	isStr bool
	str   string
	keys  []V
	vals  []V
	pos   int
}
