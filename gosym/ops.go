package main

// Operators, conversions, equality and built-ins.

import (
	"fmt"
	"go/token"
	"go/types"
	"strings"

	"golang.org/x/tools/go/ssa"
)

func (ex *Exec) binop(op token.Token, xt types.Type, x, y V, yt types.Type) V {
	ts := ex.ts
	switch op {
	case token.EQL:
		return ex.equalTyped(xt, x, y)
	case token.NEQ:
		return ts.Not(ex.equalTyped(xt, x, y))
	}
	switch a := x.(type) {
	case *Term:
		b, ok := y.(*Term)
		if !ok {
			if pi, ok := y.(ProvInt); ok {
				return ex.provArith(op, ProvInt{}, a, pi)
			}
			panic(abortPath{fmt.Sprintf("binop %s on *Term and %T", op, y)})
		}
		n := numKind(xt)
		switch {
		case n.boolean:
			switch op {
			case token.LAND, token.AND:
				return ts.And(a, b)
			case token.LOR, token.OR:
				return ts.Or(a, b)
			}
		case n.float:
			switch op {
			case token.ADD:
				return ts.FBin(OFAdd, a, b)
			case token.SUB:
				return ts.FBin(OFSub, a, b)
			case token.MUL:
				return ts.FBin(OFMul, a, b)
			case token.QUO:
				return ts.FBin(OFDiv, a, b)
			case token.LSS:
				return ts.FCmp(OFLt, a, b)
			case token.LEQ:
				return ts.FCmp(OFLe, a, b)
			case token.GTR:
				return ts.FCmp(OFLt, b, a)
			case token.GEQ:
				return ts.FCmp(OFLe, b, a)
			}
		case n.ok:
			return ex.intBinop(op, n, a, b, yt)
		}
	case Cplx:
		b := y.(Cplx)
		switch op {
		case token.ADD:
			return Cplx{ts.FBin(OFAdd, a.Re, b.Re), ts.FBin(OFAdd, a.Im, b.Im)}
		case token.SUB:
			return Cplx{ts.FBin(OFSub, a.Re, b.Re), ts.FBin(OFSub, a.Im, b.Im)}
		case token.MUL:
			// gc on amd64 compiles complex multiplication inline without FMA: (ac-bd, ad+bc)
			return Cplx{
				ts.FBin(OFSub, ts.FBin(OFMul, a.Re, b.Re), ts.FBin(OFMul, a.Im, b.Im)),
				ts.FBin(OFAdd, ts.FBin(OFMul, a.Re, b.Im), ts.FBin(OFMul, a.Im, b.Re)),
			}
		case token.QUO:
			s := a.Re.Sort
			nm := "cdiv64"
			if s.K == SFP32 {
				nm = "cdiv32"
			}
			return Cplx{ts.UF(nm+"_re", s, a.Re, a.Im, b.Re, b.Im), ts.UF(nm+"_im", s, a.Re, a.Im, b.Re, b.Im)}
		}
	case StrV:
		b := y.(StrV)
		if a.T != nil || b.T != nil {
			panic(abortPath{"operator " + op.String() + " on symbolic string"})
		}
		switch op {
		case token.ADD:
			return StrV{S: a.S + b.S}
		case token.LSS:
			return ts.Bool(a.S < b.S)
		case token.LEQ:
			return ts.Bool(a.S <= b.S)
		case token.GTR:
			return ts.Bool(a.S > b.S)
		case token.GEQ:
			return ts.Bool(a.S >= b.S)
		}
	case ProvInt:
		switch b := y.(type) {
		case *Term:
			return ex.provArith(op, a, b, ProvInt{})
		case ProvInt:
			return ex.provArith2(op, a, b)
		}
	}
	panic(abortPath{fmt.Sprintf("binop %s on %T (%s)", op, x, xt)})
}

// fake base address of a buffer for pointer comparisons
func (ex *Exec) provAddr(p ProvInt) *Term {
	ts := ex.ts
	switch {
	case p.P.B != nil:
		base := ex.c64(int64(p.P.B.id) << 32)
		return ts.BvBin(OAdd, ts.BvBin(OAdd, base, p.P.Off), p.Add)
	case p.P.S != nil:
		// slots get fake, distinct, non-zero addresses (only equality/ordering of such integers is meaningful)
		if ex.slotIDs == nil {
			ex.slotIDs = map[*V]int64{}
		}
		id, ok := ex.slotIDs[p.P.S]
		if !ok {
			id = int64(len(ex.slotIDs) + 1)
			ex.slotIDs[p.P.S] = id
		}
		return ts.BvBin(OAdd, ex.c64(1<<48+id<<12), p.Add)
	}
	return p.Add
}

func (ex *Exec) provArith(op token.Token, a ProvInt, t *Term, b ProvInt) V {
	ts := ex.ts
	if a.Add != nil { // a op t
		switch op {
		case token.ADD:
			return ProvInt{P: a.P, Add: ts.BvBin(OAdd, a.Add, t)}
		case token.SUB:
			return ProvInt{P: a.P, Add: ts.BvBin(OSub, a.Add, t)}
		}
		return ex.intBinop(op, numInfo{ok: true, w: 8}, ex.provAddr(a), t, types.Typ[types.Uintptr])
	}
	// t op b
	if op == token.ADD {
		return ProvInt{P: b.P, Add: ts.BvBin(OAdd, b.Add, t)}
	}
	return ex.intBinop(op, numInfo{ok: true, w: 8}, t, ex.provAddr(b), types.Typ[types.Uintptr])
}

func (ex *Exec) provArith2(op token.Token, a, b ProvInt) V {
	return ex.intBinop(op, numInfo{ok: true, w: 8}, ex.provAddr(a), ex.provAddr(b), types.Typ[types.Uintptr])
}

func (ex *Exec) intBinop(op token.Token, n numInfo, a, b *Term, yt types.Type) V {
	ts := ex.ts
	w := n.w * 8
	switch op {
	case token.ADD:
		return ts.BvBin(OAdd, a, b)
	case token.SUB:
		return ts.BvBin(OSub, a, b)
	case token.MUL:
		return ts.BvBin(OMul, a, b)
	case token.QUO, token.REM:
		z := ts.Eq(b, ts.BV(w, 0))
		if z.IsConst() {
			if z.cBool() {
				ex.throw("runtime error: integer divide by zero")
			}
		} else if ex.branch(z, token.NoPos, nil) {
			ex.throw("runtime error: integer divide by zero")
		}
		if op == token.QUO {
			if n.signed {
				return ts.BvBin(OSDiv, a, b)
			}
			return ts.BvBin(OUDiv, a, b)
		}
		if n.signed {
			return ts.BvBin(OSRem, a, b)
		}
		return ts.BvBin(OURem, a, b)
	case token.AND:
		return ts.BvBin(OAnd, a, b)
	case token.OR:
		return ts.BvBin(OOr, a, b)
	case token.XOR:
		return ts.BvBin(OXor, a, b)
	case token.AND_NOT:
		return ts.BvBin(OAnd, a, ts.BvNot(b))
	case token.SHL, token.SHR:
		// normalise the count to the width of a, saturating
		yw := int(b.Sort.W)
		cnt := b
		if yw < w {
			cnt = ts.ZExt(b, w)
		} else if yw > w {
			big := ts.BvCmp(OULe, ts.BV(yw, uint64(w)), b)
			cnt = ts.Ite(big, ts.BV(w, uint64(w)), ts.Extract(b, w-1, 0))
		}
		if op == token.SHL {
			return ts.BvBin(OShl, a, cnt)
		}
		if n.signed {
			return ts.BvBin(OAShr, a, cnt)
		}
		return ts.BvBin(OLShr, a, cnt)
	case token.LSS:
		if n.signed {
			return ts.BvCmp(OSLt, a, b)
		}
		return ts.BvCmp(OULt, a, b)
	case token.LEQ:
		if n.signed {
			return ts.BvCmp(OSLe, a, b)
		}
		return ts.BvCmp(OULe, a, b)
	case token.GTR:
		if n.signed {
			return ts.BvCmp(OSLt, b, a)
		}
		return ts.BvCmp(OULt, b, a)
	case token.GEQ:
		if n.signed {
			return ts.BvCmp(OSLe, b, a)
		}
		return ts.BvCmp(OULe, b, a)
	}
	panic(abortPath{"int binop " + op.String()})
}

// equalTyped implements == for the static operand type xt.
func (ex *Exec) equalTyped(xt types.Type, x, y V) *Term {
	if n := numKind(xt); n.float {
		return ex.ts.FCmp(OFEq, x.(*Term), y.(*Term))
	}
	if n := numKind(xt); n.cplx {
		a, b := x.(Cplx), y.(Cplx)
		return ex.ts.And(ex.ts.FCmp(OFEq, a.Re, b.Re), ex.ts.FCmp(OFEq, a.Im, b.Im))
	}
	return ex.equalV(x, y)
}

// equalV is Go's == on dynamic values (floats inside interfaces/structs compare with IEEE ==).
func (ex *Exec) equalV(x, y V) *Term {
	ts := ex.ts
	switch a := x.(type) {
	case nil:
		return ts.Bool(isNilV(y))
	case *Term:
		switch b := y.(type) {
		case *Term:
			if a.Sort != b.Sort {
				return ts.fls
			}
			if isFP(a.Sort) {
				return ts.FCmp(OFEq, a, b)
			}
			return ts.Eq(a, b)
		case ProvInt:
			return ts.Eq(a, ex.provAddr(b))
		}
		return ts.fls
	case ProvInt:
		switch b := y.(type) {
		case ProvInt:
			return ts.Eq(ex.provAddr(a), ex.provAddr(b))
		case *Term:
			return ts.Eq(ex.provAddr(a), b)
		}
		return ts.fls
	case Cplx:
		b, ok := y.(Cplx)
		if !ok {
			return ts.fls
		}
		return ts.And(ex.equalV(a.Re, b.Re), ex.equalV(a.Im, b.Im))
	case StrV:
		b, ok := y.(StrV)
		if !ok {
			return ts.fls
		}
		if a.T == nil && b.T == nil {
			return ts.Bool(a.S == b.S)
		}
		return ts.Eq(ex.strTerm(a), ex.strTerm(b))
	case Struct:
		b, ok := y.(Struct)
		if !ok || len(a) != len(b) {
			return ts.fls
		}
		r := ts.tru
		for i := range a {
			r = ts.And(r, ex.equalV(a[i], b[i]))
		}
		return r
	case ArrV:
		b, ok := y.(ArrV)
		if !ok || len(a.B.cells) != len(b.B.cells) {
			return ts.fls
		}
		r := ts.tru
		for i := range a.B.cells {
			r = ts.And(r, ex.equalV(a.B.cells[i], b.B.cells[i]))
		}
		return r
	case Ptr:
		switch b := y.(type) {
		case Ptr:
			if a.S != nil || b.S != nil {
				return ts.Bool(a.S == b.S)
			}
			if a.B != b.B {
				return ts.fls
			}
			if a.B == nil {
				return ts.tru
			}
			return ts.Eq(a.Off, b.Off)
		case nil:
			return ts.Bool(a.IsNil())
		}
		return ts.fls
	case Iface:
		b, ok := y.(Iface)
		if !ok {
			if y == nil {
				return ts.Bool(a.T == nil)
			}
			return ts.fls
		}
		if a.T == nil || b.T == nil {
			return ts.Bool(a.T == nil && b.T == nil)
		}
		if !types.Identical(a.T, b.T) {
			return ts.fls
		}
		if !types.Comparable(a.T) {
			ex.throw("runtime error: comparing uncomparable type " + a.T.String())
		}
		return ex.equalV(a.V, b.V)
	case RType:
		b, ok := y.(RType)
		return ts.Bool(ok && types.Identical(a.T, b.T))
	case *MapV:
		b, ok := y.(*MapV)
		return ts.Bool(ok && a == b)
	case *ChanV:
		b, ok := y.(*ChanV)
		return ts.Bool(ok && a == b)
	case *Closure:
		if a == nil {
			return ts.Bool(isNilV(y))
		}
		return ts.Bool(false)
	case *ssa.Function:
		return ts.Bool(a == nil && isNilV(y))
	case Slice:
		// only comparison with nil is legal
		b, ok := y.(Slice)
		if ok && (a.B == nil || b.B == nil) {
			return ts.Bool(a.B == nil && b.B == nil)
		}
	case *ErrObj:
		b, ok := y.(*ErrObj)
		return ts.Bool(ok && a == b)
	case typeArgV:
		return ts.fls
	}
	panic(abortPath{fmt.Sprintf("equalV %T %T", x, y)})
}

func isNilV(v V) bool {
	switch x := v.(type) {
	case nil:
		return true
	case Ptr:
		return x.IsNil()
	case Iface:
		return x.T == nil
	case Slice:
		return x.B == nil
	case *MapV:
		return x == nil
	case *ChanV:
		return x == nil
	case *Closure:
		return x == nil
	case *ssa.Function:
		return x == nil
	}
	return false
}

func (ex *Exec) strTerm(s StrV) *Term {
	if s.T != nil {
		return s.T
	}
	// concrete strings become distinct named constants of the Str sort
	name := "strlit_" + sanitize(s.S)
	t := ex.ts.Var(name, sortStr)
	if p := ex.path; p != nil {
		if p.strlits == nil {
			p.strlits = map[string]*Term{}
		}
		if _, ok := p.strlits[name]; !ok {
			for _, o := range p.strlits {
				ex.sol.Assert(ex.ts.Not(ex.ts.Eq(t, o))) // distinct literals denote distinct strings
			}
			p.strlits[name] = t
		}
	}
	return t
}

func sanitize(s string) string {
	var sb strings.Builder
	for _, c := range s {
		if c >= 'a' && c <= 'z' || c >= 'A' && c <= 'Z' || c >= '0' && c <= '9' || c == '_' {
			sb.WriteRune(c)
		} else {
			fmt.Fprintf(&sb, "_%x_", c)
		}
	}
	return sb.String()
}

// ---- conversions ----

func (ex *Exec) convert(from, to types.Type, x V) V {
	ts := ex.ts
	fu, tu := from.Underlying(), to.Underlying()
	// type parameters are instantiated; handle pointers/unsafe first
	switch tt := tu.(type) {
	case *types.Pointer:
		switch v := x.(type) {
		case Ptr:
			return v // unsafe.Pointer -> *T or *T -> *U
		case ProvInt:
			return ex.provToPtr(v)
		}
		panic(abortPath{fmt.Sprintf("convert %T to pointer", x)})
	case *types.Slice:
		// string -> []byte / []rune
		if s, ok := x.(StrV); ok {
			if s.T != nil {
				panic(abortPath{"symbolic string to slice"})
			}
			if nk := numKind(tt.Elem()); nk.w == 1 {
				b := ex.newBuf(tt.Elem(), len(s.S))
				for i := 0; i < len(s.S); i++ {
					b.cells[i] = ts.BV(8, uint64(s.S[i]))
				}
				return ex.mkSlice(b, len(s.S))
			}
			rs := []rune(s.S)
			b := ex.newBuf(tt.Elem(), len(rs))
			for i, r := range rs {
				b.cells[i] = ts.BV(32, uint64(r))
			}
			return ex.mkSlice(b, len(rs))
		}
		return x
	case *types.Basic:
		switch {
		case tt.Kind() == types.UnsafePointer:
			switch v := x.(type) {
			case Ptr:
				return v
			case ProvInt:
				return ex.provToPtr(v)
			case *Term:
				if v.IsConst() && v.Bits == 0 {
					return Ptr{}
				}
				panic(abortPath{"integer without provenance converted to unsafe.Pointer"})
			}
		case tt.Kind() == types.String:
			switch v := x.(type) {
			case StrV:
				return v
			case Slice: // []byte / []rune -> string
				et := fu.(*types.Slice).Elem()
				n, ok := termConstInt(v.Len)
				if v.B == nil {
					return StrV{}
				}
				if !ok {
					panic(abortPath{"symbolic-length slice to string"})
				}
				var sb strings.Builder
				for i := 0; i < int(n); i++ {
					c := ex.load(ex.elemPtr(v.B, v.Off, ex.c64(int64(i)), et), et).(*Term)
					if !c.IsConst() {
						panic(abortPath{"symbolic bytes to string"})
					}
					if numKind(et).w == 1 {
						sb.WriteByte(byte(c.Bits))
					} else {
						sb.WriteRune(rune(c.Bits))
					}
				}
				return StrV{S: sb.String()}
			case *Term: // integer -> string
				if v.IsConst() {
					return StrV{S: string(rune(sext(v.Bits, int(v.Sort.W))))}
				}
			}
			panic(abortPath{fmt.Sprintf("convert %T to string", x)})
		}
		tn := numKind(tt)
		fn := numKind(fu)
		if tn.ok {
			if p, ok := x.(Ptr); ok && tt.Kind() == types.Uintptr {
				if p.IsNil() {
					return ex.c64(0)
				}
				return ProvInt{P: p, Add: ex.c64(0)}
			}
			if pi, ok := x.(ProvInt); ok {
				if tn.w == 8 && !tn.float {
					return pi
				}
				x = ex.provAddr(pi)
			}
			if tn.cplx {
				c := x.(Cplx)
				fs := ex.floatSort(tn.w / 2)
				return Cplx{ts.FToF(c.Re, fs), ts.FToF(c.Im, fs)}
			}
			v, ok := x.(*Term)
			if !ok {
				panic(abortPath{fmt.Sprintf("convert %T (%s) to %s", x, from, to)})
			}
			switch {
			case fn.boolean && tn.boolean:
				return v
			case fn.float && tn.float:
				return ts.FToF(v, ex.floatSort(tn.w))
			case fn.float:
				return ex.floatToInt(v, tn)
			case tn.float:
				return ts.IToF(v, fn.signed, ex.floatSort(tn.w))
			default:
				if fn.signed {
					return ts.SExt(v, tn.w*8)
				}
				return ts.ZExt(v, tn.w*8)
			}
		}
	case *types.Interface, *types.Struct, *types.Map, *types.Chan, *types.Signature, *types.Array:
		return x
	}
	panic(abortPath{fmt.Sprintf("convert %s -> %s (%T)", from, to, x)})
}

// floatToInt: Go's float->int conversion is implementation defined out of range; in-range is truncation.
func (ex *Exec) floatToInt(v *Term, tn numInfo) V {
	ts := ex.ts
	if v.IsConst() || v.Sort.K == SInt {
		return ts.FToI(v, tn.signed, tn.w*8)
	}
	// require in-range on this path (otherwise the result is implementation defined: abort that side)
	var lo, hi float64
	bitsW := tn.w * 8
	if tn.signed {
		lo = -float64(uint64(1) << uint(bitsW-1))
		hi = float64(uint64(1) << uint(bitsW-1))
	} else {
		lo = -1
		hi = float64(uint64(1)<<uint(bitsW-1)) * 2
	}
	var inr *Term
	if v.Sort.K == SFP32 {
		inr = ts.And(ts.FCmp(OFLt, ts.F32(float32(lo)), v), ts.FCmp(OFLt, v, ts.F32(float32(hi))))
		if tn.signed {
			inr = ts.And(ts.FCmp(OFLe, ts.F32(float32(lo)), v), ts.FCmp(OFLt, v, ts.F32(float32(hi))))
		}
	} else {
		inr = ts.And(ts.FCmp(OFLt, ts.F64(lo), v), ts.FCmp(OFLt, v, ts.F64(hi)))
		if tn.signed {
			inr = ts.And(ts.FCmp(OFLe, ts.F64(lo), v), ts.FCmp(OFLt, v, ts.F64(hi)))
		}
	}
	if !ex.branch(inr, token.NoPos, nil) {
		panic(abortPath{"float->int conversion out of range (implementation defined)"})
	}
	return ts.FToI(v, tn.signed, bitsW)
}

// ---- builtins ----

func (ex *Exec) callBuiltin(fr *frame, fn *ssa.Builtin, args []V, pos token.Pos) V {
	ts := ex.ts
	switch fn.Name() {
	case "len":
		switch x := args[0].(type) {
		case Slice:
			if x.B == nil {
				return ex.c64(0)
			}
			return x.Len
		case StrV:
			if x.T != nil {
				panic(abortPath{"len of symbolic string"})
			}
			return ex.c64(int64(len(x.S)))
		case *MapV:
			if x == nil {
				return ex.c64(0)
			}
			return ex.c64(int64(len(x.Keys)))
		case *ChanV:
			if x == nil {
				return ex.c64(0)
			}
			return ex.c64(int64(len(x.Buf)))
		case ArrV:
			return ex.c64(int64(len(x.B.cells)))
		case Ptr: // *array
			if x.S != nil {
				if a, ok := (*x.S).(ArrV); ok {
					return ex.c64(int64(len(a.B.cells)))
				}
			}
		}
	case "cap":
		switch x := args[0].(type) {
		case Slice:
			if x.B == nil {
				return ex.c64(0)
			}
			return x.Cap
		case *ChanV:
			if x == nil {
				return ex.c64(0)
			}
			return ex.c64(int64(x.Cap))
		case ArrV:
			return ex.c64(int64(len(x.B.cells)))
		}
	case "append":
		return ex.appendOp(fr, fn, args, pos)
	case "copy":
		return ex.copyOp(fr, fn, args, pos)
	case "close":
		return nil
	case "delete":
		m := args[0].(*MapV)
		if m != nil {
			if i := ex.mapFind(m, args[1]); i >= 0 {
				m.Keys = append(m.Keys[:i:i], m.Keys[i+1:]...)
				m.Vals = append(m.Vals[:i:i], m.Vals[i+1:]...)
			}
		}
		return nil
	case "print", "println":
		return nil
	case "panic":
		panic(goPanic{v: args[0], msg: ex.panicMsg(args[0])})
	case "recover":
		return ex.doRecover(fr)
	case "real":
		return args[0].(Cplx).Re
	case "imag":
		return args[0].(Cplx).Im
	case "complex":
		return Cplx{args[0].(*Term), args[1].(*Term)}
	case "ssa:wrapnilchk":
		if isNilV(args[0]) {
			ex.throw("value method called using nil pointer")
		}
		return args[0]
	case "min", "max":
		sig := fn.Type().(*types.Signature)
		t := sig.Params().At(0).Type()
		acc := args[0]
		for _, a := range args[1:] {
			var lt *Term
			if fn.Name() == "min" {
				lt = ex.binop(token.LSS, t, a, acc, t).(*Term)
			} else {
				lt = ex.binop(token.GTR, t, a, acc, t).(*Term)
			}
			acc = ts.Ite(lt, a.(*Term), acc.(*Term))
		}
		return acc
	case "clear":
		return nil
	}
	panic(abortPath{"UNSUPPORTED builtin " + fn.Name()})
}

func (ex *Exec) doRecover(fr *frame) V {
	// fr is the frame of the deferred function calling recover(); its caller is the panicking frame
	if fr != nil && !fr.panicking && fr.caller != nil && fr.caller.panicking {
		fr.caller.panicking = false
		p := fr.caller.panicv
		fr.caller.panicv = nil
		if gp, ok := p.(goPanic); ok {
			return gp.v
		}
	}
	return Iface{}
}

func (ex *Exec) sliceElemType(t types.Type) types.Type {
	switch u := t.Underlying().(type) {
	case *types.Slice:
		return u.Elem()
	case *types.Basic:
		return types.Typ[types.Uint8]
	}
	panic("sliceElemType " + t.String())
}

func (ex *Exec) appendOp(fr *frame, fn *ssa.Builtin, args []V, pos token.Pos) V {
	sig := fn.Type().(*types.Signature)
	et := ex.sliceElemType(sig.Params().At(0).Type())
	dst := args[0].(Slice)
	var src Slice
	switch s := args[1].(type) {
	case Slice:
		src = s
	case StrV:
		src = ex.convert(types.Typ[types.String], types.NewSlice(types.Typ[types.Uint8]), s).(Slice)
	}
	if src.B == nil {
		return dst
	}
	sn, ok := termConstInt(src.Len)
	if !ok {
		panic(abortPath{"append of symbolic-length slice"})
	}
	if sn == 0 {
		return dst
	}
	var dn, dc int64
	if dst.B != nil {
		var ok1, ok2 bool
		dn, ok1 = termConstInt(dst.Len)
		dc, ok2 = termConstInt(dst.Cap)
		if !ok1 || !ok2 {
			panic(abortPath{"append to symbolic-length slice"})
		}
	}
	// bytes of object cells (e.g. the raw bytes of strings) appended to a byte slice: keep whole cells
	if sizeof(et) == 1 && !isNumCellBuf(src.B) {
		cw := src.B.cellW
		so, ok := ex.constInt(src.Off)
		if !ok || int(so)%cw != 0 || int(sn)%cw != 0 || int(dn)%cw != 0 || (dst.B != nil && dn > 0 && !isNumCellBuf(dst.B) && dst.B.cellW != cw) {
			panic(abortPath{"append of object-cell bytes that are not whole cells"})
		}
		if dst.B != nil && dn+sn <= dc {
			// room in the destination's backing array: append in place
			do, ok := ex.constInt(dst.Off)
			if !ok || int(do)%cw != 0 {
				panic(abortPath{"append of object-cell bytes: unaligned destination"})
			}
			if isNumCellBuf(dst.B) {
				ex.bytesToObjectsLike(dst.B, src.B)
			}
			if dst.B.cellW != cw {
				panic(abortPath{"append of object-cell bytes: cell width mismatch"})
			}
			tmp := make([]V, int(sn)/cw)
			for i := range tmp {
				tmp[i] = ex.copyV(src.B.cells[int(so)/cw+i])
			}
			copy(dst.B.cells[(int(do)+int(dn))/cw:], tmp)
			return Slice{B: dst.B, Off: dst.Off, Len: ex.c64(dn + sn), Cap: dst.Cap}
		}
		ex.bufID++
		nb := &Buf{id: ex.bufID, cellW: cw, what: src.B.what}
		if dn > 0 {
			do, ok := ex.constInt(dst.Off)
			if !ok || int(do)%cw != 0 {
				panic(abortPath{"append of object-cell bytes: unaligned destination"})
			}
			for i := 0; i < int(dn)/cw; i++ {
				nb.cells = append(nb.cells, ex.copyV(dst.B.cells[int(do)/cw+i]))
			}
		}
		for i := 0; i < int(sn)/cw; i++ {
			nb.cells = append(nb.cells, ex.copyV(src.B.cells[int(so)/cw+i]))
		}
		return Slice{B: nb, Off: ex.c64(0), Len: ex.c64(dn + sn), Cap: ex.c64(dn + sn)}
	}
	res := dst
	if dst.B == nil || dn+sn > dc {
		// reallocate
		nc := dn + sn
		if nc < 2*dc {
			nc = 2 * dc
		}
		nb := ex.newBuf(et, int(nc))
		res = Slice{B: nb, Off: ex.c64(0), Len: ex.c64(dn), Cap: ex.c64(nc)}
		if dn > 0 {
			ex.copyElems(res, dst, int(dn), et)
		}
	}
	res.Len = ex.c64(dn + sn)
	// copy src into res[dn:]
	tail := Slice{B: res.B, Off: ex.ts.BvBin(OAdd, res.Off, ex.c64(dn*int64(sizeof(et)))), Len: ex.c64(sn), Cap: ex.c64(sn)}
	ex.copyElems(tail, src, int(sn), et)
	return res
}

// copyElems copies n elements (memmove semantics).
func (ex *Exec) copyElems(dst, src Slice, n int, et types.Type) {
	vals := make([]V, n)
	for i := 0; i < n; i++ {
		vals[i] = ex.load(ex.elemPtr(src.B, src.Off, ex.c64(int64(i)), et), et)
	}
	for i := 0; i < n; i++ {
		ex.store(ex.elemPtr(dst.B, dst.Off, ex.c64(int64(i)), et), et, vals[i], nil)
	}
}

func (ex *Exec) copyOp(fr *frame, fn *ssa.Builtin, args []V, pos token.Pos) V {
	sig := fn.Type().(*types.Signature)
	et := ex.sliceElemType(sig.Params().At(0).Type())
	dst := args[0].(Slice)
	var src Slice
	switch s := args[1].(type) {
	case Slice:
		src = s
	case StrV:
		src = ex.convert(types.Typ[types.String], types.NewSlice(types.Typ[types.Uint8]), s).(Slice)
	}
	if dst.B == nil || src.B == nil {
		return ex.c64(0)
	}
	ts := ex.ts
	// n = min(len(dst), len(src))
	lt := ts.BvCmp(OSLt, dst.Len, src.Len)
	nT := ts.Ite(lt, dst.Len, src.Len)
	n, ok := ex.constInt(nT)
	if !ok {
		n = ex.concretize(nT, 0, 1<<16, "copy length", pos, fr)
	}
	nT = ex.c64(n)
	if n == 0 {
		return nT
	}
	sz := sizeof(et)
	// whole-cell fast path for byte views over wider cells with concrete aligned offsets
	if sz == 1 && (src.B.cellW > 1 || dst.B.cellW > 1) {
		cw := src.B.cellW
		if dst.B.cellW > cw {
			cw = dst.B.cellW
		}
		so, ok1 := ex.constInt(src.Off)
		do, ok2 := ex.constInt(dst.Off)
		if !isNumCellBuf(src.B) || !isNumCellBuf(dst.B) {
			// object cells cannot be merged with ite: one path per feasible offset
			if !ok1 {
				so, ok1 = ex.concretize(src.Off, 0, int64(src.B.Size()), "copy source offset", pos, fr), true
			}
			if !ok2 {
				do, ok2 = ex.concretize(dst.Off, 0, int64(dst.B.Size()), "copy destination offset", pos, fr), true
			}
		}
		if ok1 && ok2 && int(so)%cw == 0 && int(do)%cw == 0 && int(n)%cw == 0 && dst.B.Size()%cw == 0 && src.B.Size()%cw == 0 {
			if isNumCellBuf(src.B) && isNumCellBuf(dst.B) {
				ex.recellUp(src.B, cw)
				ex.recellUp(dst.B, cw)
				k := int(n) / cw
				tmp := make([]V, k)
				copy(tmp, src.B.cells[int(so)/cw:int(so)/cw+k])
				copy(dst.B.cells[int(do)/cw:], tmp)
				return nT
			}
			if !isNumCellBuf(src.B) && src.B.cellW == cw {
				// object cells (e.g. strings) moved through byte views
				if isNumCellBuf(dst.B) {
					ex.bytesToObjectsLike(dst.B, src.B)
				}
				if dst.B.cellW == cw {
					k := int(n) / cw
					tmp := make([]V, k)
					for i := 0; i < k; i++ {
						tmp[i] = ex.copyV(src.B.cells[int(so)/cw+i])
					}
					copy(dst.B.cells[int(do)/cw:], tmp)
					return nT
				}
			}
		}
		if !isNumCellBuf(src.B) || !isNumCellBuf(dst.B) {
			panic(abortPath{fmt.Sprintf("byte copy of object cells not whole-cell: so=%v do=%v n=%d cw=%d srcW=%d dstW=%d srcSize=%d dstSize=%d", ok1, ok2, n, cw, src.B.cellW, dst.B.cellW, src.B.Size(), dst.B.Size())})
		}
	}
	ex.copyElems(dst, src, int(n), et)
	return nT
}

func (ex *Exec) recellUp(b *Buf, cw int) {
	if b.cellW < cw {
		ex.recell(b, cw)
	}
}

func (ex *Exec) bytesToObjectsLike(dst, src *Buf) {
	for _, c := range dst.cells {
		ct := c.(*Term)
		if !ct.IsConst() || ct.Bits != 0 {
			panic(abortPath{"object cells copied over non-zero bytes"})
		}
	}
	n := dst.Size() / src.cellW
	dst.cells = make([]V, n)
	for i := range dst.cells {
		dst.cells[i] = zeroLike(src.cells[0], ex)
	}
	dst.cellW = src.cellW
	dst.bool_ = false
	dst.what = src.what
}

func zeroLike(v V, ex *Exec) V {
	switch v.(type) {
	case StrV:
		return StrV{}
	case Iface:
		return Iface{}
	case Ptr:
		return Ptr{}
	}
	panic(abortPath{fmt.Sprintf("zeroLike %T", v)})
}
