package main

import (
	"strings"
	"encoding/json"
	"os"
	"path/filepath"
)

type KnownFinding struct {
	ID       string `json:"id"`
	Property string `json:"property"`
	Status   string `json:"status"` // open | fixed
	Commit   string `json:"commit,omitempty"`
	What     string `json:"what"`
	Region   string `json:"region"`
	Example  string `json:"example,omitempty"`
}

type KFFile struct {
	Findings []KnownFinding `json:"findings"`
}

func verifDir() string {
	if d := os.Getenv("VERIF_DIR"); d != "" {
		return d
	}
	return filepath.Dir(harnessDir())
}

func loadKnownFindings() *KFFile {
	var k KFFile
	b, err := os.ReadFile(filepath.Join(verifDir(), "known_findings.json"))
	if err == nil {
		json.Unmarshal(b, &k)
	}
	return &k
}

func (k *KFFile) openSet() map[string]bool {
	m := map[string]bool{}
	for _, f := range k.Findings {
		if f.Status == "open" {
			m[f.ID] = true
		}
	}
	// debugging aid: GOSYM_CLOSE_KF=id,id treats findings as not listed (to map exactly what fails inside a region)
	for _, id := range strings.Split(os.Getenv("GOSYM_CLOSE_KF"), ",") {
		delete(m, id)
	}
	return m
}

func (k *KFFile) get(id string) *KnownFinding {
	for i := range k.Findings {
		if k.Findings[i].ID == id {
			return &k.Findings[i]
		}
	}
	return nil
}
