package main

import (
	"strings"
	"encoding/json"
	"os"
	"path/filepath"
)

type KnownFinding struct {
	ID       string `json:"id"`
	Property string `json:"property"`
	Status   string `json:"status"` // open | fixed
	Commit   string `json:"commit,omitempty"`
	What     string `json:"what"`
	Region   string `json:"region"`
	Example  string `json:"example,omitempty"`
	// ClosedIn lists instances that lie in the finding's declared region but in which the failure does not occur (harvested
	// from the region audit of fully decided runs, tools/harvest_kf_audit.py): there the finding is treated as not listed,
	// so the assertion is checked in full and a new defect cannot hide behind the finding.
	ClosedIn []string `json:"closed_in,omitempty"`
}

type KFFile struct {
	Findings  []KnownFinding `json:"findings"`
	closedIdx map[string]map[string]bool
}

func verifDir() string {
	if d := os.Getenv("VERIF_DIR"); d != "" {
		return d
	}
	return filepath.Dir(harnessDir())
}

func loadKnownFindings() *KFFile {
	var k KFFile
	b, err := os.ReadFile(filepath.Join(verifDir(), "known_findings.json"))
	if err == nil {
		json.Unmarshal(b, &k)
	}
	return &k
}

func (k *KFFile) openSet() map[string]bool {
	m := map[string]bool{}
	for _, f := range k.Findings {
		if f.Status == "open" {
			m[f.ID] = true
		}
	}
	// debugging aid: GOSYM_CLOSE_KF=id,id treats findings as not listed (to map exactly what fails inside a region)
	for _, id := range strings.Split(os.Getenv("GOSYM_CLOSE_KF"), ",") {
		delete(m, id)
	}
	return m
}

func (k *KFFile) get(id string) *KnownFinding {
	for i := range k.Findings {
		if k.Findings[i].ID == id {
			return &k.Findings[i]
		}
	}
	return nil
}

// openSetFor returns the open findings that apply to one instance (see KnownFinding.ClosedIn).
func (k *KFFile) openSetFor(inst string, base map[string]bool) map[string]bool {
	var m map[string]bool
	for i := range k.Findings {
		f := &k.Findings[i]
		if !base[f.ID] || len(f.ClosedIn) == 0 {
			continue
		}
		if k.closedIdx == nil {
			k.closedIdx = map[string]map[string]bool{}
		}
		idx := k.closedIdx[f.ID]
		if idx == nil {
			idx = map[string]bool{}
			for _, n := range f.ClosedIn {
				idx[n] = true
			}
			k.closedIdx[f.ID] = idx
		}
		if idx[inst] {
			if m == nil {
				m = map[string]bool{}
				for id := range base {
					m[id] = true
				}
			}
			delete(m, f.ID)
		}
	}
	if m == nil {
		return base
	}
	return m
}
