package main

// Evaluation of terms under a model (by substitution through the folding constructors).

import "fmt"

type evalCtx struct {
	model map[string]uint64 // var name -> bits
	memo  map[int]*Term
}

// evalTerm returns the constant value of t under the model, or nil if it does not fold (UFs, missing vars).
func (ex *Exec) evalTerm(t *Term, ec *evalCtx) *Term {
	if t.IsConst() {
		return t
	}
	if r, ok := ec.memo[t.id]; ok {
		return r
	}
	var r *Term
	defer func() { ec.memo[t.id] = r }()
	ts := ex.ts
	switch t.Op {
	case OVar:
		b, ok := ec.model[t.Name]
		if !ok {
			if t.Sort.K == SStr {
				return nil
			}
			b = 0 // unconstrained variable: any value does
		}
		switch t.Sort.K {
		case SBool:
			r = ts.Bool(b != 0)
		case SBV:
			r = ts.BV(int(t.Sort.W), b)
		case SFP32, SFP64, SInt:
			r = ts.mk(OConst, t.Sort, b, "")
		}
		return r
	case OUF:
		return nil
	}
	args := make([]*Term, len(t.Args))
	for i, a := range t.Args {
		// short-circuit ite / and / or where possible
		args[i] = ex.evalTerm(a, ec)
		if args[i] == nil {
			if t.Op == OIte && i > 0 && args[0] != nil {
				continue
			}
			return nil
		}
		if t.Op == OIte && i == 0 {
			c := args[0].cBool()
			var br *Term
			if c {
				br = ex.evalTerm(t.Args[1], ec)
			} else {
				br = ex.evalTerm(t.Args[2], ec)
			}
			r = br
			return r
		}
	}
	defer func() {
		if x := recover(); x != nil {
			if _, ok := x.(abortPath); ok {
				r = nil
				return
			}
			panic(x)
		}
	}()
	r = ex.rebuild(t, args)
	if r != nil && !r.IsConst() {
		r = nil
	}
	return r
}

func (ex *Exec) rebuild(t *Term, a []*Term) *Term {
	ts := ex.ts
	switch t.Op {
	case OAdd, OSub, OMul, OSDiv, OUDiv, OSRem, OURem, OAnd, OOr, OXor, OShl, OLShr, OAShr:
		return ts.BvBin(t.Op, a[0], a[1])
	case ONeg:
		return ts.BvNeg(a[0])
	case ONot:
		return ts.BvNot(a[0])
	case OExtract:
		return ts.Extract(a[0], int(t.Bits>>16), int(t.Bits&0xffff))
	case OConcat:
		return ts.Concat(a[0], a[1])
	case OZExt:
		return ts.ZExt(a[0], int(t.Bits))
	case OSExt:
		return ts.SExt(a[0], int(t.Bits))
	case OEq:
		return ts.Eq(a[0], a[1])
	case OSLt, OSLe, OULt, OULe:
		return ts.BvCmp(t.Op, a[0], a[1])
	case OBAnd:
		return ts.And(a[0], a[1])
	case OBOr:
		return ts.Or(a[0], a[1])
	case OBNot:
		return ts.Not(a[0])
	case OIte:
		return ts.Ite(a[0], a[1], a[2])
	case OFAdd, OFSub, OFMul, OFDiv:
		return ts.FBin(t.Op, a[0], a[1])
	case OFNeg, OFAbs, OFSqrt:
		return ts.FUn(t.Op, a[0])
	case OFEq, OFLt, OFLe:
		return ts.FCmp(t.Op, a[0], a[1])
	case OFIsNaN:
		return ts.FIsNaN(a[0])
	case OFIsInf:
		return ts.FIsInf(a[0])
	case OFToF:
		return ts.FToF(a[0], t.Sort)
	case OSIToF:
		return ts.IToF(a[0], true, t.Sort)
	case OUIToF:
		return ts.IToF(a[0], false, t.Sort)
	case OFToSI:
		return ts.FToI(a[0], true, int(t.Sort.W))
	case OFToUI:
		return ts.FToI(a[0], false, int(t.Sort.W))
	case OBVToF:
		return ts.BVToF(a[0], t.Sort)
	case OFToBV:
		return ts.FToBV(a[0], int(t.Sort.W))
	case OIAdd, OISub, OIMul:
		return ts.IBin(t.Op, a[0], a[1])
	case OINeg:
		return ts.INeg(a[0])
	case OILt, OILe:
		return ts.ICmp(t.Op, a[0], a[1])
	}
	panic(fmt.Sprintf("rebuild: op %d", t.Op))
}

// modelHolds evaluates a boolean term under the path's current model: 1 true, 0 false, -1 unknown.
func (ex *Exec) modelHolds(c *Term) int {
	p := ex.path
	if p.model == nil {
		return -1
	}
	if p.evalc == nil {
		p.evalc = &evalCtx{model: p.model, memo: map[int]*Term{}}
	}
	r := ex.evalTerm(c, p.evalc)
	if r == nil {
		return -1
	}
	if r.cBool() {
		return 1
	}
	return 0
}

// setModel installs a model (raw solver values) for the current path condition.
func (ex *Exec) setModel(raw map[string]string, vars []*Term) {
	p := ex.path
	m := map[string]uint64{}
	for _, v := range vars {
		txt, ok := raw[v.Name]
		if !ok {
			continue
		}
		if b, ok := modelBits(txt, v.Sort); ok {
			m[v.Name] = b
		}
	}
	p.model = m
	p.evalc = nil
}

// ---- simplification under equalities learned on the path (var == const) ----

// simp substitutes variables whose value is fixed by the path condition and folds.
func (ex *Exec) simp(t *Term) *Term {
	p := ex.path
	if p == nil || len(p.subst) == 0 || t.IsConst() {
		return t
	}
	if p.simpMemo == nil || p.simpVer != len(p.subst) {
		p.simpMemo = map[int]*Term{}
		p.simpVer = len(p.subst)
	}
	return ex.simpRec(t, p)
}

func (ex *Exec) simpRec(t *Term, p *Path) *Term {
	if t.IsConst() {
		return t
	}
	if r, ok := p.simpMemo[t.id]; ok {
		return r
	}
	var r *Term
	switch t.Op {
	case OVar:
		if c, ok := p.subst[t.Name]; ok {
			r = c
		} else {
			r = t
		}
	default:
		changed := false
		args := make([]*Term, len(t.Args))
		for i, a := range t.Args {
			args[i] = ex.simpRec(a, p)
			if args[i] != a {
				changed = true
			}
		}
		if !changed {
			r = t
		} else if t.Op == OUF {
			r = ex.ts.UF(t.Name, t.Sort, args...)
		} else {
			r = ex.rebuild(t, args)
		}
	}
	p.simpMemo[t.id] = r
	return r
}

// learnEq records var == const facts from a new path-condition conjunct.
func (ex *Exec) learnEq(c *Term) {
	p := ex.path
	switch c.Op {
	case OEq:
		a, b := c.Args[0], c.Args[1]
		if b.Op == OVar && a.IsConst() {
			a, b = b, a
		}
		if a.Op == OVar && b.IsConst() {
			if p.subst == nil {
				p.subst = map[string]*Term{}
			}
			p.subst[a.Name] = b
		}
	case OBAnd:
		ex.learnEq(c.Args[0])
		ex.learnEq(c.Args[1])
	case OVar:
		if c.Sort.K == SBool {
			if p.subst == nil {
				p.subst = map[string]*Term{}
			}
			p.subst[c.Name] = ex.ts.tru
		}
	case OBNot:
		if c.Args[0].Op == OVar {
			if p.subst == nil {
				p.subst = map[string]*Term{}
			}
			p.subst[c.Args[0].Name] = ex.ts.fls
		}
	}
}

// constInt: constant value of an integer term, using the path's learned equalities.
func (ex *Exec) constInt(t *Term) (int64, bool) {
	if v, ok := termConstInt(t); ok {
		return v, true
	}
	if t == nil {
		return 0, false
	}
	return termConstInt(ex.simp(t))
}
