package main

// Front end: go/packages + overlay -> go/ssa, always from /repo's current working tree.

import (
	"fmt"
	"go/types"
	"os"
	"path/filepath"
	"sort"
	"strings"
	"time"

	"golang.org/x/tools/go/packages"
	"golang.org/x/tools/go/ssa"
	"golang.org/x/tools/go/ssa/ssautil"
)

type Loaded struct {
	prog           *ssa.Program
	pkgs           map[string]*ssa.Package
	tensor         *ssa.Package
	runtimeErrType types.Type
	errorStringPtr types.Type
	errorIface     *types.Interface
	rtypePtr       types.Type
	fnvType        types.Type
	fmtStateType   types.Type
	poolNewField   int
	loadTime       time.Duration
	harnessFiles   []string
	tags           string
}

// repoDir is the tree under verification: /repo, or (for regression runs of the seeded changes against scratch worktrees) $VERIF_REPO.
var repoDir = func() string {
	if d := os.Getenv("VERIF_REPO"); d != "" {
		return d
	}
	return "/repo"
}()

func harnessDir() string {
	if d := os.Getenv("VERIF_HARNESS_DIR"); d != "" {
		return d
	}
	exe, _ := os.Executable()
	d := filepath.Join(filepath.Dir(filepath.Dir(exe)), "harness")
	if _, err := os.Stat(d); err == nil {
		return d
	}
	return "/verif/harness"
}

// overlayMap maps virtual files in /repo to harness sources.
func overlayMap() (map[string]string, error) {
	hd := harnessDir()
	files, err := filepath.Glob(filepath.Join(hd, "*.go"))
	if err != nil {
		return nil, err
	}
	sort.Strings(files)
	m := map[string]string{}
	for _, f := range files {
		base := filepath.Base(f)
		sub := ""
		// files named native__x.go go to /repo/native, execution__x.go to internal/execution
		if i := strings.Index(base, "__"); i > 0 {
			switch base[:i] {
			case "native":
				sub = "native"
			case "execution":
				sub = "internal/execution"
			case "storage":
				sub = "internal/storage"
			}
		}
		m[filepath.Join(repoDir, sub, "zz_verif_"+base)] = f
	}
	return m, nil
}

func Load(tags string) (*Loaded, error) {
	t0 := time.Now()
	om, err := overlayMap()
	if err != nil {
		return nil, err
	}
	overlay := map[string][]byte{}
	var hf []string
	for virt, real := range om {
		b, err := os.ReadFile(real)
		if err != nil {
			return nil, err
		}
		overlay[virt] = b
		hf = append(hf, real)
	}
	cfg := &packages.Config{
		Mode:    packages.LoadAllSyntax,
		Dir:     repoDir,
		Overlay: overlay,
		Env:     append(os.Environ(), "GOFLAGS=-mod=mod", "GOPROXY=off", "GOSUMDB=off", "GOTOOLCHAIN=local", "CGO_ENABLED=0"),
	}
	if tags != "" {
		cfg.BuildFlags = []string{"-tags=" + tags}
	}
	initial, err := packages.Load(cfg, "gorgonia.org/tensor", "gorgonia.org/tensor/native", "hash/fnv", "errors", "reflect", "runtime", "sync")
	if err != nil {
		return nil, err
	}
	nerr := 0
	packages.Visit(initial, nil, func(p *packages.Package) {
		for _, e := range p.Errors {
			if nerr < 20 {
				fmt.Fprintf(os.Stderr, "load error: %v\n", e)
			}
			nerr++
		}
	})
	if nerr > 0 {
		return nil, fmt.Errorf("%d package load errors (does /repo build?)", nerr)
	}
	prog, _ := ssautil.AllPackages(initial, ssa.InstantiateGenerics)
	ld := &Loaded{prog: prog, pkgs: map[string]*ssa.Package{}, harnessFiles: hf, tags: tags}
	for _, p := range prog.AllPackages() {
		ld.pkgs[p.Pkg.Path()] = p
	}
	// build eagerly what is always needed; the rest is built lazily (Package.Build is idempotent)
	for _, path := range []string{"gorgonia.org/tensor", "gorgonia.org/tensor/internal/storage", "gorgonia.org/tensor/internal/execution",
		"gorgonia.org/tensor/native", "gorgonia.org/vecf32", "gorgonia.org/vecf64", "errors", "hash/fnv", "runtime", "reflect", "sync"} {
		if p := ld.pkgs[path]; p != nil {
			p.Build()
		}
	}
	ld.tensor = ld.pkgs["gorgonia.org/tensor"]
	if ld.tensor == nil {
		return nil, fmt.Errorf("package gorgonia.org/tensor not loaded")
	}
	lookup := func(pkg, name string) types.Type {
		p := ld.pkgs[pkg]
		if p == nil {
			panic("package not loaded: " + pkg)
		}
		o := p.Pkg.Scope().Lookup(name)
		if o == nil {
			panic("type not found: " + pkg + "." + name)
		}
		return o.Type()
	}
	ld.runtimeErrType = lookup("runtime", "errorString")
	ld.errorStringPtr = types.NewPointer(lookup("errors", "errorString"))
	ld.errorIface = types.Universe.Lookup("error").Type().Underlying().(*types.Interface)
	ld.rtypePtr = types.NewPointer(lookup("reflect", "rtype"))
	ld.fnvType = types.NewPointer(lookup("hash/fnv", "sum64a"))
	ld.fmtStateType = types.NewPointer(lookup("fmt", "pp"))
	pool := lookup("sync", "Pool").Underlying().(*types.Struct)
	for i := 0; i < pool.NumFields(); i++ {
		if pool.Field(i).Name() == "New" {
			ld.poolNewField = i
		}
	}
	ld.loadTime = time.Since(t0)
	return ld, nil
}

// NewExec creates a fresh executor (one per worker and instance).
func NewExec(ld *Loaded, sol *Solver) *Exec {
	ex := &Exec{prog: ld.prog, ld: ld, sol: sol, intr: map[string]intrinsic{}, funcsSeen: map[*ssa.Function]bool{}, intrHit: map[string]int{}}
	ex.ts = NewTermStore()
	ex.consts = map[*ssa.Const]V{}
	ex.ipdomCache = map[*ssa.Function]map[*ssa.BasicBlock]*ssa.BasicBlock{}
	ex.noIfConv = os.Getenv("GOSYM_NOIFCONV") != ""
	ex.registerIntrinsics()
	ex.registerBLAS()
	return ex
}

func (ex *Exec) resetPath(prefix []decision) {
	ex.globals = map[*ssa.Global]*V{}
	ex.inited = map[*ssa.Package]bool{}
	ex.pools = map[*V][]V{}
	ex.slotIDs = nil
	ex.gobTab = nil
	ex.csvTab = nil
	ex.evlog = nil
	ex.undo = nil
	ex.ifcDepth = 0
	ex.bufID = 0
	ex.depth = 0
	ex.path = &Path{prefix: prefix, known: map[int]bool{}, ndSet: map[string]bool{}, reached: map[string]bool{}}
	ex.sol.Reset()
}

var loadedCache = map[string]*Loaded{}

// LoadCached loads each build configuration once per process (always from /repo's current working tree).
func LoadCached(tags string) (*Loaded, error) {
	if ld, ok := loadedCache[tags]; ok {
		return ld, nil
	}
	ld, err := Load(tags)
	if err != nil {
		return nil, err
	}
	loadedCache[tags] = ld
	return ld, nil
}
