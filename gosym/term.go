package main

// Terms: hash-consed SMT expressions with constant folding and a small rewriter.
// Every interpreter scalar is a *Term (constants are Terms with Op==OConst).

import (
	"fmt"
	"math"
	"math/bits"
	"strings"
)

type SortK uint8

const (
	SBool SortK = iota
	SBV
	SFP32
	SFP64
	SInt // ring mode: floats as mathematical integers
	SStr // uninterpreted string sort (symbolic strings: equality only)
)

type Sort struct {
	K SortK
	W uint16 // bits, for SBV
}

var (
	sortBool = Sort{SBool, 0}
	sortF32  = Sort{SFP32, 0}
	sortF64  = Sort{SFP64, 0}
	sortInt  = Sort{SInt, 0}
	sortStr  = Sort{SStr, 0}
)

func bvSort(w int) Sort { return Sort{SBV, uint16(w)} }

func (s Sort) String() string {
	switch s.K {
	case SBool:
		return "Bool"
	case SBV:
		return fmt.Sprintf("(_ BitVec %d)", s.W)
	case SFP32:
		return "(_ FloatingPoint 8 24)"
	case SFP64:
		return "(_ FloatingPoint 11 53)"
	case SInt:
		return "Int"
	case SStr:
		return "VStr"
	}
	return "?"
}

// Bits returns the storage width in bits of a value of this sort (0 for Bool/Str/Int).
func (s Sort) Bits() int {
	switch s.K {
	case SBV:
		return int(s.W)
	case SFP32:
		return 32
	case SFP64:
		return 64
	}
	return 0
}

type Op uint8

const (
	OConst Op = iota
	OVar
	OUF
	// bv
	OAdd
	OSub
	OMul
	OSDiv
	OUDiv
	OSRem
	OURem
	OAnd
	OOr
	OXor
	OShl
	OLShr
	OAShr
	ONeg
	ONot
	OExtract // Bits = hi<<16|lo
	OConcat
	OZExt // Bits = target width
	OSExt
	// predicates
	OEq
	OSLt
	OSLe
	OULt
	OULe
	// bool
	OBAnd
	OBOr
	OBNot
	OIte
	// fp
	OFAdd
	OFSub
	OFMul
	OFDiv
	OFNeg
	OFAbs
	OFSqrt
	OFEq
	OFLt
	OFLe
	OFIsNaN
	OFIsInf
	OFToF  // float -> float (target = Sort)
	OSIToF // signed bv -> float
	OUIToF
	OFToSI // float -> signed bv (RTZ), target width in Sort
	OFToUI
	OBVToF // reinterpret bits as float
	OFToBV // reinterpret float as bits
	// ring ints
	OIAdd
	OISub
	OIMul
	OINeg
	OILt
	OILe
)

var opNames = map[Op]string{
	OAdd: "bvadd", OSub: "bvsub", OMul: "bvmul", OSDiv: "bvsdiv", OUDiv: "bvudiv", OSRem: "bvsrem", OURem: "bvurem",
	OAnd: "bvand", OOr: "bvor", OXor: "bvxor", OShl: "bvshl", OLShr: "bvlshr", OAShr: "bvashr", ONeg: "bvneg", ONot: "bvnot",
	OConcat: "concat", OEq: "=", OSLt: "bvslt", OSLe: "bvsle", OULt: "bvult", OULe: "bvule",
	OBAnd: "and", OBOr: "or", OBNot: "not", OIte: "ite",
	OFNeg: "fp.neg", OFAbs: "fp.abs", OFEq: "fp.eq", OFLt: "fp.lt", OFLe: "fp.leq", OFIsNaN: "fp.isNaN", OFIsInf: "fp.isInfinite",
	OIAdd: "+", OISub: "-", OIMul: "*", OINeg: "-", OILt: "<", OILe: "<=", OFToBV: "fp.to_ieee_bv",
}

type Term struct {
	Op   Op
	Sort Sort
	Args []*Term
	Bits uint64 // constant bits (bv / fp bits / bool 0,1 / ring int as int64) or op parameter
	Name string // OVar / OUF
	id   int
}

func (t *Term) IsConst() bool { return t.Op == OConst }

type tkey struct {
	op         Op
	sort       Sort
	bits       uint64
	name       string
	a0, a1, a2 int
}

// TermStore is per worker (not thread safe).
type TermStore struct {
	tab   map[tkey]*Term
	nodes int
	tru   *Term
	fls   *Term
}

func NewTermStore() *TermStore {
	ts := &TermStore{tab: make(map[tkey]*Term, 1<<12)}
	ts.tru = ts.mk(OConst, sortBool, 1, "")
	ts.fls = ts.mk(OConst, sortBool, 0, "")
	return ts
}

func (ts *TermStore) mk(op Op, s Sort, b uint64, name string, args ...*Term) *Term {
	k := tkey{op: op, sort: s, bits: b, name: name, a0: -1, a1: -1, a2: -1}
	switch len(args) {
	case 0:
	case 1:
		k.a0 = args[0].id
	case 2:
		k.a0, k.a1 = args[0].id, args[1].id
	case 3:
		k.a0, k.a1, k.a2 = args[0].id, args[1].id, args[2].id
	default:
		var sb strings.Builder
		sb.WriteString(name)
		for _, a := range args {
			fmt.Fprintf(&sb, ",%d", a.id)
		}
		k.name = sb.String()
	}
	if t, ok := ts.tab[k]; ok {
		return t
	}
	ts.nodes++
	t := &Term{Op: op, Sort: s, Bits: b, Name: name, id: ts.nodes}
	if len(args) > 0 {
		t.Args = append([]*Term(nil), args...)
	}
	ts.tab[k] = t
	return t
}

func maskW(w int) uint64 {
	if w >= 64 {
		return ^uint64(0)
	}
	return (uint64(1) << uint(w)) - 1
}

func sext(v uint64, w int) int64 {
	if w >= 64 {
		return int64(v)
	}
	sh := uint(64 - w)
	return int64(v<<sh) >> sh
}

// ---- constants ----

func (ts *TermStore) BV(w int, v uint64) *Term { return ts.mk(OConst, bvSort(w), v&maskW(w), "") }
func (ts *TermStore) Bool(b bool) *Term {
	if b {
		return ts.tru
	}
	return ts.fls
}
func (ts *TermStore) F64(f float64) *Term { return ts.mk(OConst, sortF64, math.Float64bits(f), "") }
func (ts *TermStore) F32(f float32) *Term {
	return ts.mk(OConst, sortF32, uint64(math.Float32bits(f)), "")
}
func (ts *TermStore) IntC(v int64) *Term            { return ts.mk(OConst, sortInt, uint64(v), "") }
func (ts *TermStore) Var(name string, s Sort) *Term { return ts.mk(OVar, s, 0, name) }
func (ts *TermStore) UF(name string, s Sort, args ...*Term) *Term {
	return ts.mk(OUF, s, 0, name, args...)
}

// Zero value of a sort.
func (ts *TermStore) Zero(s Sort) *Term {
	switch s.K {
	case SBool:
		return ts.fls
	case SBV:
		return ts.BV(int(s.W), 0)
	case SFP32:
		return ts.F32(0)
	case SFP64:
		return ts.F64(0)
	case SInt:
		return ts.IntC(0)
	}
	panic("zero of sort " + s.String())
}

func (t *Term) cF64() float64 { return math.Float64frombits(t.Bits) }
func (t *Term) cF32() float32 { return math.Float32frombits(uint32(t.Bits)) }
func (t *Term) cBool() bool   { return t.Bits != 0 }

// ---- bit-vector ops ----

func (ts *TermStore) BvBin(op Op, a, b *Term) *Term {
	if a.Sort != b.Sort || a.Sort.K != SBV {
		panic(fmt.Sprintf("BvBin sort mismatch op=%d %v %v", op, a.Sort, b.Sort))
	}
	w := int(a.Sort.W)
	if a.IsConst() && b.IsConst() {
		x, y := a.Bits, b.Bits
		var r uint64
		switch op {
		case OAdd:
			r = x + y
		case OSub:
			r = x - y
		case OMul:
			r = x * y
		case OAnd:
			r = x & y
		case OOr:
			r = x | y
		case OXor:
			r = x ^ y
		case OUDiv:
			if y == 0 {
				r = maskW(w)
			} else {
				r = x / y
			}
		case OURem:
			if y == 0 {
				r = x
			} else {
				r = x % y
			}
		case OSDiv:
			sx, sy := sext(x, w), sext(y, w)
			if sy == 0 {
				if sx >= 0 {
					r = maskW(w)
				} else {
					r = 1
				}
			} else if sy == -1 {
				r = uint64(-sx)
			} else {
				r = uint64(sx / sy)
			}
		case OSRem:
			sx, sy := sext(x, w), sext(y, w)
			if sy == 0 {
				r = x
			} else if sy == -1 {
				r = 0
			} else {
				r = uint64(sx % sy)
			}
		case OShl:
			if y >= uint64(w) {
				r = 0
			} else {
				r = x << y
			}
		case OLShr:
			if y >= uint64(w) {
				r = 0
			} else {
				r = x >> y
			}
		case OAShr:
			sx := sext(x, w)
			if y >= uint64(w) {
				if sx < 0 {
					r = ^uint64(0)
				} else {
					r = 0
				}
			} else {
				r = uint64(sx >> y)
			}
		default:
			panic("BvBin const op")
		}
		return ts.BV(w, r)
	}
	// identities
	switch op {
	case OAdd:
		if a.IsConst() && a.Bits == 0 {
			return b
		}
		if b.IsConst() && b.Bits == 0 {
			return a
		}
		// normalise: constant on the right; (x + c1) + c2 -> x + (c1+c2)
		if a.IsConst() {
			a, b = b, a
		}
		if b.IsConst() && a.Op == OAdd && a.Args[1].IsConst() {
			return ts.BvBin(OAdd, a.Args[0], ts.BV(w, a.Args[1].Bits+b.Bits))
		}
	case OSub:
		if b.IsConst() && b.Bits == 0 {
			return a
		}
		if a == b {
			return ts.BV(w, 0)
		}
		if b.IsConst() {
			return ts.BvBin(OAdd, a, ts.BV(w, -b.Bits))
		}
	case OMul:
		if a.IsConst() {
			a, b = b, a
		}
		if b.IsConst() {
			if b.Bits == 0 {
				return b
			}
			if b.Bits == 1 {
				return a
			}
		}
	case OAnd:
		if a.IsConst() {
			a, b = b, a
		}
		if b.IsConst() {
			if b.Bits == 0 {
				return b
			}
			if b.Bits == maskW(w) {
				return a
			}
		}
		if a == b {
			return a
		}
	case OOr:
		if a.IsConst() {
			a, b = b, a
		}
		if b.IsConst() {
			if b.Bits == 0 {
				return a
			}
			if b.Bits == maskW(w) {
				return b
			}
		}
		if a == b {
			return a
		}
	case OXor:
		if a.IsConst() {
			a, b = b, a
		}
		if b.IsConst() && b.Bits == 0 {
			return a
		}
		if a == b {
			return ts.BV(w, 0)
		}
	case OShl, OLShr, OAShr:
		if b.IsConst() && b.Bits == 0 {
			return a
		}
	case OSDiv, OUDiv:
		if b.IsConst() && b.Bits == 1 {
			return a
		}
	}
	return ts.mk(op, a.Sort, 0, "", a, b)
}

func (ts *TermStore) BvNeg(a *Term) *Term {
	if a.IsConst() {
		return ts.BV(int(a.Sort.W), -a.Bits)
	}
	if a.Op == ONeg {
		return a.Args[0]
	}
	return ts.mk(ONeg, a.Sort, 0, "", a)
}

func (ts *TermStore) BvNot(a *Term) *Term {
	if a.IsConst() {
		return ts.BV(int(a.Sort.W), ^a.Bits)
	}
	if a.Op == ONot {
		return a.Args[0]
	}
	return ts.mk(ONot, a.Sort, 0, "", a)
}

func (ts *TermStore) Extract(a *Term, hi, lo int) *Term {
	if a.Sort.K != SBV {
		panic("extract of non-bv")
	}
	w := int(a.Sort.W)
	if lo == 0 && hi == w-1 {
		return a
	}
	if hi >= w || lo < 0 || hi < lo {
		panic(fmt.Sprintf("extract [%d:%d] of width %d", hi, lo, w))
	}
	if a.IsConst() {
		return ts.BV(hi-lo+1, a.Bits>>uint(lo))
	}
	switch a.Op {
	case OExtract:
		ilo := int(a.Bits & 0xffff)
		return ts.Extract(a.Args[0], hi+ilo, lo+ilo)
	case OConcat:
		lw := int(a.Args[1].Sort.W)
		if hi < lw {
			return ts.Extract(a.Args[1], hi, lo)
		}
		if lo >= lw {
			return ts.Extract(a.Args[0], hi-lw, lo-lw)
		}
	case OZExt:
		iw := int(a.Args[0].Sort.W)
		if hi < iw {
			return ts.Extract(a.Args[0], hi, lo)
		}
		if lo >= iw {
			return ts.BV(hi-lo+1, 0)
		}
	case OSExt:
		iw := int(a.Args[0].Sort.W)
		if hi < iw {
			return ts.Extract(a.Args[0], hi, lo)
		}
	case OIte:
		if a.Args[1].IsConst() && a.Args[2].IsConst() {
			return ts.Ite(a.Args[0], ts.Extract(a.Args[1], hi, lo), ts.Extract(a.Args[2], hi, lo))
		}
	}
	return ts.mk(OExtract, bvSort(hi-lo+1), uint64(hi)<<16|uint64(lo), "", a)
}

// Concat: a is the high part.
func (ts *TermStore) Concat(a, b *Term) *Term {
	wa, wb := int(a.Sort.W), int(b.Sort.W)
	if wa+wb <= 64 && a.IsConst() && b.IsConst() {
		return ts.BV(wa+wb, a.Bits<<uint(wb)|b.Bits)
	}
	if a.Op == OExtract && b.Op == OExtract && a.Args[0] == b.Args[0] {
		ahi, alo := int(a.Bits>>16), int(a.Bits&0xffff)
		bhi, blo := int(b.Bits>>16), int(b.Bits&0xffff)
		if alo == bhi+1 {
			return ts.Extract(a.Args[0], ahi, blo)
		}
	}
	// concat(a, concat(b1,b2)) keep; concat(concat(x, e1), e2) where e1,e2 adjacent extracts
	if a.Op == OConcat && a.Args[1].Op == OExtract && b.Op == OExtract && a.Args[1].Args[0] == b.Args[0] {
		m := a.Args[1]
		mlo := int(m.Bits & 0xffff)
		bhi := int(b.Bits >> 16)
		if mlo == bhi+1 {
			return ts.Concat(a.Args[0], ts.Concat(m, b))
		}
	}
	if wa+wb > 128 {
		panic("concat too wide")
	}
	return ts.mk(OConcat, bvSort(wa+wb), 0, "", a, b)
}

func (ts *TermStore) ZExt(a *Term, w int) *Term {
	iw := int(a.Sort.W)
	if w == iw {
		return a
	}
	if w < iw {
		return ts.Extract(a, w-1, 0)
	}
	if a.IsConst() {
		return ts.BV(w, a.Bits)
	}
	return ts.mk(OZExt, bvSort(w), uint64(w), "", a)
}

func (ts *TermStore) SExt(a *Term, w int) *Term {
	iw := int(a.Sort.W)
	if w == iw {
		return a
	}
	if w < iw {
		return ts.Extract(a, w-1, 0)
	}
	if a.IsConst() {
		return ts.BV(w, uint64(sext(a.Bits, iw)))
	}
	return ts.mk(OSExt, bvSort(w), uint64(w), "", a)
}

// ---- predicates ----

func (ts *TermStore) Eq(a, b *Term) *Term {
	if a.Sort != b.Sort {
		panic(fmt.Sprintf("Eq sort mismatch %v %v", a.Sort, b.Sort))
	}
	if a == b {
		return ts.tru
	}
	if a.IsConst() && b.IsConst() {
		return ts.Bool(a.Bits == b.Bits) // hash-consed: distinct consts differ (fp: bitwise; NaN canonical enough)
	}
	if a.Sort.K == SBool {
		if a.IsConst() {
			a, b = b, a
		}
		if b.IsConst() {
			if b.cBool() {
				return a
			}
			return ts.Not(a)
		}
	}
	// ite(c, x, y) == y  ->  !c || x == y   (and symmetric forms)
	for k := 0; k < 2; k++ {
		if a.Op == OIte {
			if a.Args[2] == b {
				return ts.Or(ts.Not(a.Args[0]), ts.Eq(a.Args[1], b))
			}
			if a.Args[1] == b {
				return ts.Or(a.Args[0], ts.Eq(a.Args[2], b))
			}
		}
		a, b = b, a
	}
	if a.id > b.id {
		a, b = b, a
	}
	// (x + c1) == c2  ->  x == c2-c1
	if a.Sort.K == SBV {
		if a.IsConst() {
			a, b = b, a
		}
		if b.IsConst() && a.Op == OAdd && a.Args[1].IsConst() {
			return ts.Eq(a.Args[0], ts.BV(int(a.Sort.W), b.Bits-a.Args[1].Bits))
		}
		// ite(c, k1, k2) == k  with constants
		if b.IsConst() && a.Op == OIte && a.Args[1].IsConst() && a.Args[2].IsConst() {
			t1 := a.Args[1].Bits == b.Bits
			t2 := a.Args[2].Bits == b.Bits
			switch {
			case t1 && t2:
				return ts.tru
			case t1:
				return a.Args[0]
			case t2:
				return ts.Not(a.Args[0])
			default:
				return ts.fls
			}
		}
	}
	return ts.mk(OEq, sortBool, 0, "", a, b)
}

func (ts *TermStore) BvCmp(op Op, a, b *Term) *Term {
	if a.Sort != b.Sort || a.Sort.K != SBV {
		panic(fmt.Sprintf("BvCmp sort mismatch %v %v", a.Sort, b.Sort))
	}
	w := int(a.Sort.W)
	if a.IsConst() && b.IsConst() {
		switch op {
		case OSLt:
			return ts.Bool(sext(a.Bits, w) < sext(b.Bits, w))
		case OSLe:
			return ts.Bool(sext(a.Bits, w) <= sext(b.Bits, w))
		case OULt:
			return ts.Bool(a.Bits < b.Bits)
		case OULe:
			return ts.Bool(a.Bits <= b.Bits)
		}
	}
	if a == b {
		return ts.Bool(op == OSLe || op == OULe)
	}
	return ts.mk(op, sortBool, 0, "", a, b)
}

// ---- bool ----

func (ts *TermStore) Not(a *Term) *Term {
	if a.IsConst() {
		return ts.Bool(!a.cBool())
	}
	if a.Op == OBNot {
		return a.Args[0]
	}
	return ts.mk(OBNot, sortBool, 0, "", a)
}

func (ts *TermStore) And(a, b *Term) *Term {
	if a.IsConst() {
		if a.cBool() {
			return b
		}
		return a
	}
	if b.IsConst() {
		if b.cBool() {
			return a
		}
		return b
	}
	if a == b {
		return a
	}
	if ts.Not(a) == b {
		return ts.fls
	}
	if a.id > b.id {
		a, b = b, a
	}
	return ts.mk(OBAnd, sortBool, 0, "", a, b)
}

func (ts *TermStore) Or(a, b *Term) *Term {
	if a.IsConst() {
		if a.cBool() {
			return a
		}
		return b
	}
	if b.IsConst() {
		if b.cBool() {
			return b
		}
		return a
	}
	if a == b {
		return a
	}
	if ts.Not(a) == b {
		return ts.tru
	}
	// a || (!a || x) -> true ; a || (a || x) -> a || x   (one level)
	for k := 0; k < 2; k++ {
		if b.Op == OBOr {
			na := ts.Not(a)
			if b.Args[0] == na || b.Args[1] == na {
				return ts.tru
			}
			if b.Args[0] == a || b.Args[1] == a {
				return b
			}
		}
		a, b = b, a
	}
	if a.id > b.id {
		a, b = b, a
	}
	return ts.mk(OBOr, sortBool, 0, "", a, b)
}

func (ts *TermStore) Implies(a, b *Term) *Term { return ts.Or(ts.Not(a), b) }

func (ts *TermStore) Ite(c, a, b *Term) *Term {
	if a.Sort != b.Sort {
		panic(fmt.Sprintf("Ite sort mismatch %v %v", a.Sort, b.Sort))
	}
	if c.IsConst() {
		if c.cBool() {
			return a
		}
		return b
	}
	if a == b {
		return a
	}
	if c.Op == OBNot {
		return ts.Ite(c.Args[0], b, a)
	}
	if a.Sort.K == SBool {
		if a.IsConst() && b.IsConst() {
			if a.cBool() {
				return c
			}
			return ts.Not(c)
		}
		if a.IsConst() {
			if a.cBool() {
				return ts.Or(c, b)
			}
			return ts.And(ts.Not(c), b)
		}
		if b.IsConst() {
			if b.cBool() {
				return ts.Or(ts.Not(c), a)
			}
			return ts.And(c, a)
		}
	}
	// canonical integer max/min: ite(p<q, q, p) == ite(q<p, p, q) (equal when p == q); nested max/min chains are
	// flattened and rebuilt over their leaves in a fixed order, so that folds in any association are identical terms
	if (c.Op == OSLt || c.Op == OULt) && a.Sort.K == SBV {
		p, q := c.Args[0], c.Args[1]
		isMax := a == q && b == p
		isMin := a == p && b == q
		if isMax || isMin {
			var leaves []*Term
			ts.mmLeaves(p, c.Op, isMax, &leaves)
			ts.mmLeaves(q, c.Op, isMax, &leaves)
			// dedupe + sort by id
			seen := map[int]bool{}
			var u []*Term
			for _, l := range leaves {
				if !seen[l.id] {
					seen[l.id] = true
					u = append(u, l)
				}
			}
			sortTermsByID(u)
			acc := u[0]
			for _, l := range u[1:] {
				// acc has the smaller ids by construction
				cc := ts.BvCmp(c.Op, acc, l)
				if cc.IsConst() {
					if cc.cBool() == isMax {
						acc = l
					}
					continue
				}
				if isMax {
					acc = ts.mk(OIte, a.Sort, 0, "", cc, l, acc)
				} else {
					acc = ts.mk(OIte, a.Sort, 0, "", cc, acc, l)
				}
			}
			return acc
		}
	}
	// ite(c, x, ite(c, y, z)) -> ite(c, x, z)
	if b.Op == OIte && b.Args[0] == c {
		return ts.Ite(c, a, b.Args[2])
	}
	if a.Op == OIte && a.Args[0] == c {
		return ts.Ite(c, a.Args[1], b)
	}
	return ts.mk(OIte, a.Sort, 0, "", c, a, b)
}

// ---- floating point ----

func isFP(s Sort) bool { return s.K == SFP32 || s.K == SFP64 }

func (ts *TermStore) fconst(s Sort, f float64) *Term {
	if s.K == SFP32 {
		return ts.F32(float32(f))
	}
	return ts.F64(f)
}

func (t *Term) cFloat() float64 {
	if t.Sort.K == SFP32 {
		return float64(t.cF32())
	}
	return t.cF64()
}

func (ts *TermStore) FBin(op Op, a, b *Term) *Term {
	if a.Sort != b.Sort {
		panic("FBin sort mismatch")
	}
	if a.Sort.K == SInt { // ring mode
		switch op {
		case OFAdd:
			return ts.IBin(OIAdd, a, b)
		case OFSub:
			return ts.IBin(OISub, a, b)
		case OFMul:
			return ts.IBin(OIMul, a, b)
		}
		panic(abortPath{"ring-mode float op unsupported (division)"})
	}
	if a.IsConst() && b.IsConst() {
		if a.Sort.K == SFP32 {
			x, y := a.cF32(), b.cF32()
			var r float32
			switch op {
			case OFAdd:
				r = x + y
			case OFSub:
				r = x - y
			case OFMul:
				r = x * y
			case OFDiv:
				r = x / y
			}
			if r != r {
				r = float32(math.NaN())
			}
			return ts.F32(r)
		}
		x, y := a.cF64(), b.cF64()
		var r float64
		switch op {
		case OFAdd:
			r = x + y
		case OFSub:
			r = x - y
		case OFMul:
			r = x * y
		case OFDiv:
			r = x / y
		}
		if r != r {
			r = math.NaN()
		}
		return ts.F64(r)
	}
	// x * 1.0 == x exactly (also for NaN/Inf/-0)
	if op == OFMul {
		if b.IsConst() && b.cFloat() == 1 {
			return a
		}
		if a.IsConst() && a.cFloat() == 1 {
			return b
		}
	}
	if op == OFDiv && b.IsConst() && b.cFloat() == 1 {
		return a
	}
	return ts.mk(op, a.Sort, 0, "", a, b)
}

func (ts *TermStore) FUn(op Op, a *Term) *Term {
	if a.Sort.K == SInt {
		switch op {
		case OFNeg:
			return ts.INeg(a)
		case OFAbs:
			return ts.Ite(ts.ICmp(OILt, a, ts.IntC(0)), ts.INeg(a), a)
		}
		panic(abortPath{"ring-mode float unary unsupported"})
	}
	if a.IsConst() {
		f := a.cFloat()
		switch op {
		case OFNeg:
			// bit flip to keep -0 and NaN sign
			if a.Sort.K == SFP32 {
				return ts.mk(OConst, a.Sort, (a.Bits^0x80000000)&0xffffffff, "")
			}
			return ts.mk(OConst, a.Sort, a.Bits^(1<<63), "")
		case OFAbs:
			return ts.fconst(a.Sort, math.Abs(f))
		case OFSqrt:
			if a.Sort.K == SFP32 {
				return ts.F32(float32(math.Sqrt(float64(a.cF32()))))
			}
			return ts.F64(math.Sqrt(f))
		}
	}
	if op == OFNeg && a.Op == OFNeg {
		return a.Args[0]
	}
	return ts.mk(op, a.Sort, 0, "", a)
}

func (ts *TermStore) FCmp(op Op, a, b *Term) *Term {
	if a.Sort != b.Sort {
		panic("FCmp sort mismatch")
	}
	if a.Sort.K == SInt {
		switch op {
		case OFEq:
			return ts.Eq(a, b)
		case OFLt:
			return ts.ICmp(OILt, a, b)
		case OFLe:
			return ts.ICmp(OILe, a, b)
		}
	}
	if a.IsConst() && b.IsConst() {
		x, y := a.cFloat(), b.cFloat()
		switch op {
		case OFEq:
			return ts.Bool(x == y)
		case OFLt:
			return ts.Bool(x < y)
		case OFLe:
			return ts.Bool(x <= y)
		}
	}
	return ts.mk(op, sortBool, 0, "", a, b)
}

func (ts *TermStore) FIsNaN(a *Term) *Term {
	if a.Sort.K == SInt {
		return ts.fls
	}
	if a.IsConst() {
		f := a.cFloat()
		return ts.Bool(f != f)
	}
	return ts.mk(OFIsNaN, sortBool, 0, "", a)
}

func (ts *TermStore) FIsInf(a *Term) *Term {
	if a.Sort.K == SInt {
		return ts.fls
	}
	if a.IsConst() {
		return ts.Bool(math.IsInf(a.cFloat(), 0))
	}
	return ts.mk(OFIsInf, sortBool, 0, "", a)
}

// FToF converts between float sorts.
func (ts *TermStore) FToF(a *Term, to Sort) *Term {
	if a.Sort == to {
		return a
	}
	if a.Sort.K == SInt || to.K == SInt {
		panic(abortPath{"ring-mode float width conversion"})
	}
	if a.IsConst() {
		if to.K == SFP32 {
			return ts.F32(float32(a.cF64()))
		}
		return ts.F64(float64(a.cF32()))
	}
	// f32->f64->f32 is exact
	if a.Op == OFToF && a.Args[0].Sort == to && to.K == SFP32 {
		return a.Args[0]
	}
	return ts.mk(OFToF, to, 0, "", a)
}

func (ts *TermStore) IToF(a *Term, signed bool, to Sort) *Term {
	w := int(a.Sort.W)
	if to.K == SInt {
		if a.IsConst() {
			if signed {
				return ts.IntC(sext(a.Bits, w))
			}
			return ts.IntC(int64(a.Bits))
		}
		panic(abortPath{"ring-mode int->float of symbolic value"})
	}
	if a.IsConst() {
		var f float64
		if signed {
			sv := sext(a.Bits, w)
			if to.K == SFP32 {
				return ts.F32(float32(sv))
			}
			f = float64(sv)
		} else {
			if to.K == SFP32 {
				return ts.F32(float32(a.Bits))
			}
			f = float64(a.Bits)
		}
		return ts.F64(f)
	}
	op := OUIToF
	if signed {
		op = OSIToF
	}
	return ts.mk(op, to, 0, "", a)
}

// FToI converts float to integer (truncation). The caller has to make sure the value is in range.
func (ts *TermStore) FToI(a *Term, signed bool, w int) *Term {
	if a.Sort.K == SInt {
		if a.IsConst() {
			return ts.BV(w, a.Bits)
		}
		panic(abortPath{"ring-mode float->int of symbolic value"})
	}
	if a.IsConst() {
		f := a.cFloat()
		if f != f || math.IsInf(f, 0) {
			panic(abortPath{"float->int of NaN/Inf constant"})
		}
		if signed {
			return ts.BV(w, uint64(int64(f)))
		}
		if f < 0 {
			return ts.BV(w, uint64(int64(f)))
		}
		return ts.BV(w, uint64(f))
	}
	op := OFToUI
	if signed {
		op = OFToSI
	}
	return ts.mk(op, bvSort(w), 0, "", a)
}

func (ts *TermStore) BVToF(a *Term, to Sort) *Term {
	if to.K == SInt {
		if a.IsConst() {
			// interpret as float64 bits and require integer
			var f float64
			if a.Sort.W == 32 {
				f = float64(math.Float32frombits(uint32(a.Bits)))
			} else {
				f = math.Float64frombits(a.Bits)
			}
			if f == math.Trunc(f) && math.Abs(f) < 1<<53 {
				return ts.IntC(int64(f))
			}
		}
		if a.Op == OFToBV && a.Args[0].Sort.K == SInt {
			return a.Args[0]
		}
		// bit patterns that are not the image of a ring value (partial byte writes such as freeScalar's zeroing):
		// an uninterpreted function of the bits - consistent, otherwise unconstrained
		return ts.UF(fmt.Sprintf("ringbits%d", a.Sort.W), to, a)
	}
	if a.IsConst() {
		return ts.mk(OConst, to, a.Bits, "")
	}
	if a.Op == OFToBV && a.Args[0].Sort == to {
		return a.Args[0]
	}
	return ts.mk(OBVToF, to, 0, "", a)
}

func (ts *TermStore) FToBV(a *Term, w int) *Term {
	if a.Sort.K == SInt {
		// ring mode: opaque, only cancels against BVToF (and against the image of a partially written bit pattern)
		if a.Op == OUF && strings.HasPrefix(a.Name, "ringbits") && len(a.Args) == 1 && int(a.Args[0].Sort.W) == w {
			return a.Args[0]
		}
		return ts.mk(OFToBV, bvSort(w), 0, "", a)
	}
	if a.Sort.Bits() != w {
		panic("FToBV width mismatch")
	}
	if a.IsConst() {
		return ts.BV(w, a.Bits)
	}
	if a.Op == OBVToF {
		return a.Args[0]
	}
	return ts.mk(OFToBV, bvSort(w), 0, "", a)
}

// ---- ring ints ----

func (ts *TermStore) IBin(op Op, a, b *Term) *Term {
	if a.IsConst() && b.IsConst() {
		x, y := int64(a.Bits), int64(b.Bits)
		switch op {
		case OIAdd:
			return ts.IntC(x + y)
		case OISub:
			return ts.IntC(x - y)
		case OIMul:
			hi, _ := bits.Mul64(uint64(abs64(x)), uint64(abs64(y)))
			if hi != 0 {
				panic(abortPath{"ring constant overflow"})
			}
			return ts.IntC(x * y)
		}
	}
	switch op {
	case OIAdd:
		if a.IsConst() && a.Bits == 0 {
			return b
		}
		if b.IsConst() && b.Bits == 0 {
			return a
		}
		if a.id > b.id {
			a, b = b, a
		}
	case OISub:
		if b.IsConst() && b.Bits == 0 {
			return a
		}
		if a == b {
			return ts.IntC(0)
		}
	case OIMul:
		if a.IsConst() {
			a, b = b, a
		}
		if b.IsConst() {
			if b.Bits == 0 {
				return b
			}
			if b.Bits == 1 {
				return a
			}
		}
		if a.id > b.id {
			a, b = b, a
		}
	}
	return ts.mk(op, sortInt, 0, "", a, b)
}

func abs64(x int64) int64 {
	if x < 0 {
		return -x
	}
	return x
}

func (ts *TermStore) INeg(a *Term) *Term {
	if a.IsConst() {
		return ts.IntC(-int64(a.Bits))
	}
	return ts.mk(OINeg, sortInt, 0, "", a)
}

func (ts *TermStore) ICmp(op Op, a, b *Term) *Term {
	if a.IsConst() && b.IsConst() {
		x, y := int64(a.Bits), int64(b.Bits)
		if op == OILt {
			return ts.Bool(x < y)
		}
		return ts.Bool(x <= y)
	}
	if a == b {
		return ts.Bool(op == OILe)
	}
	return ts.mk(op, sortBool, 0, "", a, b)
}

// ---- printing ----

func constSMT(t *Term) string {
	switch t.Sort.K {
	case SBool:
		if t.Bits != 0 {
			return "true"
		}
		return "false"
	case SBV:
		if t.Sort.W%4 == 0 {
			return fmt.Sprintf("#x%0*x", int(t.Sort.W)/4, t.Bits)
		}
		return fmt.Sprintf("(_ bv%d %d)", t.Bits, t.Sort.W)
	case SFP32:
		return fmt.Sprintf("((_ to_fp 8 24) #x%08x)", uint32(t.Bits))
	case SFP64:
		return fmt.Sprintf("((_ to_fp 11 53) #x%016x)", t.Bits)
	case SInt:
		v := int64(t.Bits)
		if v < 0 {
			return fmt.Sprintf("(- %d)", -v)
		}
		return fmt.Sprintf("%d", v)
	}
	panic("constSMT")
}

func fpParams(s Sort) string {
	if s.K == SFP32 {
		return "8 24"
	}
	return "11 53"
}

// smtHead gives the SMT-LIB application for a non-leaf term given the printed names of its arguments.
func smtApp(t *Term, an []string) string {
	j := strings.Join(an, " ")
	switch t.Op {
	case OExtract:
		return fmt.Sprintf("((_ extract %d %d) %s)", t.Bits>>16, t.Bits&0xffff, j)
	case OZExt:
		return fmt.Sprintf("((_ zero_extend %d) %s)", int(t.Bits)-int(t.Args[0].Sort.W), j)
	case OSExt:
		return fmt.Sprintf("((_ sign_extend %d) %s)", int(t.Bits)-int(t.Args[0].Sort.W), j)
	case OFAdd:
		return "(fp.add RNE " + j + ")"
	case OFSub:
		return "(fp.sub RNE " + j + ")"
	case OFMul:
		return "(fp.mul RNE " + j + ")"
	case OFDiv:
		return "(fp.div RNE " + j + ")"
	case OFSqrt:
		return "(fp.sqrt RNE " + j + ")"
	case OFToF:
		return fmt.Sprintf("((_ to_fp %s) RNE %s)", fpParams(t.Sort), j)
	case OSIToF:
		return fmt.Sprintf("((_ to_fp %s) RNE %s)", fpParams(t.Sort), j)
	case OUIToF:
		return fmt.Sprintf("((_ to_fp_unsigned %s) RNE %s)", fpParams(t.Sort), j)
	case OFToSI:
		return fmt.Sprintf("((_ fp.to_sbv %d) RTZ %s)", t.Sort.W, j)
	case OFToUI:
		return fmt.Sprintf("((_ fp.to_ubv %d) RTZ %s)", t.Sort.W, j)
	case OBVToF:
		return fmt.Sprintf("((_ to_fp %s) %s)", fpParams(t.Sort), j)
	case OUF:
		return "(" + t.Name + " " + j + ")"
	case OFToBV:
		if t.Args[0].Sort.K == SInt {
			// ring mode: the bit pattern of a ring value is an uninterpreted (injective by cancellation) function
			return fmt.Sprintf("(ringtobits%d %s)", t.Sort.W, j)
		}
	}
	n, ok := opNames[t.Op]
	if !ok {
		panic(fmt.Sprintf("smtApp: op %d", t.Op))
	}
	return "(" + n + " " + j + ")"
}

// mmLeaves collects the leaves of a canonical max (isMax) or min chain built with comparison op.
func (ts *TermStore) mmLeaves(t *Term, op Op, isMax bool, out *[]*Term) {
	if t.Op == OIte && t.Args[0].Op == op {
		p, q := t.Args[0].Args[0], t.Args[0].Args[1]
		x, y := t.Args[1], t.Args[2]
		// canonical max: ite(p<q, q, p) with p the chain, q the new leaf; min: ite(p<q, p, q)
		if (isMax && x == q && y == p) || (!isMax && x == p && y == q) {
			ts.mmLeaves(p, op, isMax, out)
			ts.mmLeaves(q, op, isMax, out)
			return
		}
	}
	*out = append(*out, t)
}

func sortTermsByID(u []*Term) {
	for i := 1; i < len(u); i++ {
		for j := i; j > 0 && u[j-1].id > u[j].id; j-- {
			u[j-1], u[j] = u[j], u[j-1]
		}
	}
}
