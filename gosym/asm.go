package main

// x86-64 mini encoder for the Plan 9 assembly of divmod (divmod_amd64.s): the file is parsed from /repo on every run and
// symbolically executed over bit-vectors (registers, FP slots, the ZF flag of CMPQ); IDIVQ is the signed division of the
// sign-extended dividend with #DE as a trap outcome. The result is compared with the model (a/b, a%b) used by the
// default-build configuration of the engine.

import (
	"fmt"
	"os"
	"path/filepath"
	"strconv"
	"strings"
)

type asmInstr struct {
	label string
	op    string
	args  []string
}

func parseAsm(path, fn string) ([]asmInstr, error) {
	b, err := os.ReadFile(path)
	if err != nil {
		return nil, err
	}
	var out []asmInstr
	in := false
	for _, line := range strings.Split(string(b), "\n") {
		if i := strings.Index(line, "//"); i >= 0 {
			line = line[:i]
		}
		line = strings.TrimSpace(line)
		if line == "" || strings.HasPrefix(line, "#") {
			continue
		}
		if strings.HasPrefix(line, "TEXT") {
			in = strings.Contains(line, "·"+fn+"(")
			continue
		}
		if !in {
			continue
		}
		if strings.HasSuffix(line, ":") {
			out = append(out, asmInstr{label: strings.TrimSuffix(line, ":")})
			continue
		}
		f := strings.Fields(line)
		ins := asmInstr{op: f[0]}
		rest := strings.TrimSpace(strings.TrimPrefix(line, f[0]))
		if rest != "" {
			for _, a := range strings.Split(rest, ",") {
				ins.args = append(ins.args, strings.TrimSpace(a))
			}
		}
		out = append(out, ins)
	}
	if len(out) == 0 {
		return nil, fmt.Errorf("function %s not found in %s", fn, path)
	}
	return out, nil
}

type asmState struct {
	regs  map[string]*Term
	slots map[string]*Term
	zf    *Term
}

// runAsmDivmod checks the assembly against (a/b, a%b) for all a and all b != 0.
func runAsmDivmod(ex *Exec) {
	ts := ex.ts
	prog, err := parseAsm(filepath.Join(repoDir, "divmod_amd64.s"), "divmod")
	if err != nil {
		panic(abortPath{"asm: " + err.Error()})
	}
	a := ex.nondetScalar("a", bvSort(64))
	b := ex.nondetScalar("b", bvSort(64))
	ex.assume(ts.Not(ts.Eq(b, ts.BV(64, 0)))) // b == 0 traps (#DE) in the assembly and panics in Go alike
	st := &asmState{regs: map[string]*Term{}, slots: map[string]*Term{"a+0(FP)": a, "b+8(FP)": b}}
	labels := map[string]int{}
	for i, in := range prog {
		if in.label != "" {
			labels[in.label] = i
		}
	}
	val := func(o string) *Term {
		if strings.HasPrefix(o, "$") {
			v, err := strconv.ParseInt(o[1:], 0, 64)
			if err != nil {
				panic(abortPath{"asm: immediate " + o})
			}
			return ts.BV(64, uint64(v))
		}
		if t, ok := st.regs[o]; ok {
			return t
		}
		if t, ok := st.slots[o]; ok {
			return t
		}
		panic(abortPath{"asm: read of undefined operand " + o})
	}
	set := func(o string, t *Term) {
		if strings.Contains(o, "(FP)") {
			st.slots[o] = t
		} else {
			st.regs[o] = t
		}
	}
	pc := 0
	for steps := 0; steps < 200; steps++ {
		if pc >= len(prog) {
			panic(abortPath{"asm: fell off the end"})
		}
		in := prog[pc]
		pc++
		if in.label != "" {
			continue
		}
		switch in.op {
		case "MOVQ":
			set(in.args[1], val(in.args[0]))
		case "CMPQ":
			st.zf = ts.Eq(val(in.args[0]), val(in.args[1]))
		case "JEQ":
			target := in.args[len(in.args)-1]
			if st.zf == nil {
				panic(abortPath{"asm: JEQ without flags"})
			}
			if ex.branch(st.zf, 0, nil) {
				pc = labels[target]
			}
		case "JMP":
			pc = labels[in.args[0]]
		case "CQO":
			st.regs["DX"] = ts.BvBin(OAShr, val("AX"), ts.BV(64, 63))
		case "IDIVQ":
			d := val(in.args[0])
			// dividend RDX:RAX must be the sign extension of RAX (set by CQO); overflow (MinInt / -1) traps
			hi := val("DX")
			signOK := ts.Eq(hi, ts.BvBin(OAShr, val("AX"), ts.BV(64, 63)))
			ex.assertObl(signOK, "asm-dividend-sign-extended", "", nil)
			trap := ts.Or(ts.Eq(d, ts.BV(64, 0)), ts.And(ts.Eq(val("AX"), ts.BV(64, 1<<63)), ts.Eq(d, ts.BV(64, ^uint64(0)))))
			ex.assertObl(ts.Not(trap), "asm-no-divide-error", "", nil)
			q := ts.BvBin(OSDiv, val("AX"), d)
			r := ts.BvBin(OSRem, val("AX"), d)
			st.regs["AX"], st.regs["DX"] = q, r
		case "NEGQ":
			set(in.args[0], ts.BvNeg(val(in.args[0])))
		case "RET":
			q, ok1 := st.slots["q+16(FP)"]
			r, ok2 := st.slots["r+24(FP)"]
			if !ok1 || !ok2 {
				ex.assertObl(ts.fls, "asm-results-written", "", nil)
				return
			}
			ex.hooks.reached["C20.asm"] = true
			ex.assertObl(ts.Eq(q, ts.BvBin(OSDiv, a, b)), "asm-eq-model-quotient", "", nil)
			ex.assertObl(ts.Eq(r, ts.BvBin(OSRem, a, b)), "asm-eq-model-remainder", "", nil)
			return
		default:
			panic(abortPath{"asm: unsupported instruction " + in.op})
		}
	}
	panic(abortPath{"asm: step limit"})
}
