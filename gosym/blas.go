package main

// Reference semantics of the row-major BLAS interface used by the engine (gonum.Implementation):
// dot, gemv, gemm, ger(u) for float32/float64/complex64/complex128, including gonum's argument checks.
// Used by C09 in ring mode (exact integer arithmetic), where summation order is immaterial.

import (
	"fmt"
	"go/types"
)

const (
	blasNoTrans   = 'N'
	blasTrans     = 'T'
	blasConjTrans = 'C'
)

type blasNum struct {
	ex   *Exec
	et   types.Type
	cplx bool
}

func (b blasNum) zero() V { return b.ex.zero(b.et) }
func (b blasNum) add(x, y V) V {
	ts := b.ex.ts
	if b.cplx {
		p, q := x.(Cplx), y.(Cplx)
		return Cplx{ts.FBin(OFAdd, p.Re, q.Re), ts.FBin(OFAdd, p.Im, q.Im)}
	}
	return ts.FBin(OFAdd, x.(*Term), y.(*Term))
}
func (b blasNum) mul(x, y V) V {
	ts := b.ex.ts
	if b.cplx {
		p, q := x.(Cplx), y.(Cplx)
		return Cplx{ts.FBin(OFSub, ts.FBin(OFMul, p.Re, q.Re), ts.FBin(OFMul, p.Im, q.Im)), ts.FBin(OFAdd, ts.FBin(OFMul, p.Re, q.Im), ts.FBin(OFMul, p.Im, q.Re))}
	}
	return ts.FBin(OFMul, x.(*Term), y.(*Term))
}
func (b blasNum) conj(x V) V {
	if b.cplx {
		p := x.(Cplx)
		return Cplx{p.Re, b.ex.ts.FUn(OFNeg, p.Im)}
	}
	return x
}
func (b blasNum) isConst(x V, v float64) bool {
	chk := func(t *Term, want float64) bool {
		if !t.IsConst() {
			return false
		}
		if t.Sort.K == SInt {
			return float64(int64(t.Bits)) == want
		}
		return t.cFloat() == want
	}
	if b.cplx {
		p := x.(Cplx)
		return chk(p.Re, v) && chk(p.Im, 0)
	}
	return chk(x.(*Term), v)
}

func (ex *Exec) blasAt(s Slice, i int, et types.Type, what string) V {
	n, ok := ex.constInt(s.Len)
	if s.B == nil || !ok {
		ex.throw("blas: nil or symbolic-length slice " + what)
	}
	if i < 0 || int64(i) >= n {
		ex.throw(fmt.Sprintf("blas: index %d out of range for %s (len %d)", i, what, n))
	}
	return ex.load(ex.elemPtr(s.B, s.Off, ex.c64(int64(i)), et), et)
}

func (ex *Exec) blasSet(s Slice, i int, et types.Type, v V, what string) {
	n, ok := ex.constInt(s.Len)
	if s.B == nil || !ok || i < 0 || int64(i) >= n {
		ex.throw(fmt.Sprintf("blas: store index %d out of range for %s", i, what))
	}
	ex.store(ex.elemPtr(s.B, s.Off, ex.c64(int64(i)), et), et, v, nil)
}

func (ex *Exec) sliceLen(s Slice) int {
	if s.B == nil {
		return 0
	}
	n, ok := ex.constInt(s.Len)
	if !ok {
		panic(abortPath{"blas: symbolic slice length"})
	}
	return int(n)
}

func maxInt(a, b int) int {
	if a > b {
		return a
	}
	return b
}

func (ex *Exec) registerBLAS() {
	I := ex.intr
	pre := "(gonum.org/v1/gonum/blas/gonum.Implementation)."
	type kind struct {
		prefix string
		et     types.Type
		cplx   bool
	}
	kinds := []kind{{"S", types.Typ[types.Float32], false}, {"D", types.Typ[types.Float64], false}, {"C", types.Typ[types.Complex64], true}, {"Z", types.Typ[types.Complex128], true}}
	for _, k := range kinds {
		k := k
		bn := func(ex *Exec) blasNum { return blasNum{ex: ex, et: k.et, cplx: k.cplx} }
		dotName := "dot"
		gerName := "ger"
		if k.cplx {
			dotName, gerName = "dotu", "geru"
		}
		// dot(n, x, incX, y, incY)
		dot := func(conjX bool) intrinsic {
			return func(ex *Exec, fr *frame, a []V) V {
				b := bn(ex)
				n := int(ex.cint(a[1], "dot n"))
				x, incX := a[2].(Slice), int(ex.cint(a[3], "incX"))
				y, incY := a[4].(Slice), int(ex.cint(a[5], "incY"))
				if n < 0 {
					ex.throw("blas: n < 0")
				}
				if incX == 0 || incY == 0 {
					ex.throw("blas: zero x/y index increment")
				}
				if n == 0 {
					return b.zero()
				}
				if incX < 0 || incY < 0 {
					panic(abortPath{"blas: negative increments not modelled"})
				}
				if (n-1)*incX >= ex.sliceLen(x) {
					ex.throw("blas: insufficient length of x")
				}
				if (n-1)*incY >= ex.sliceLen(y) {
					ex.throw("blas: insufficient length of y")
				}
				acc := b.zero()
				for i := 0; i < n; i++ {
					xv := ex.blasAt(x, i*incX, k.et, "x")
					if conjX {
						xv = b.conj(xv)
					}
					acc = b.add(acc, b.mul(xv, ex.blasAt(y, i*incY, k.et, "y")))
				}
				return acc
			}
		}
		I[pre+k.prefix+dotName] = dot(false)
		if k.cplx {
			I[pre+k.prefix+"dotc"] = dot(true)
		}
		// gemv(tA, m, n, alpha, a, lda, x, incX, beta, y, incY)
		I[pre+k.prefix+"gemv"] = func(ex *Exec, fr *frame, a []V) V {
			b := bn(ex)
			tA := int(ex.cint(a[1], "tA"))
			m, n := int(ex.cint(a[2], "m")), int(ex.cint(a[3], "n"))
			alpha := a[4]
			A, lda := a[5].(Slice), int(ex.cint(a[6], "lda"))
			x, incX := a[7].(Slice), int(ex.cint(a[8], "incX"))
			beta := a[9]
			y, incY := a[10].(Slice), int(ex.cint(a[11], "incY"))
			if tA != blasNoTrans && tA != blasTrans && tA != blasConjTrans {
				ex.throw("blas: illegal transpose")
			}
			if m < 0 || n < 0 {
				ex.throw("blas: m/n < 0")
			}
			if lda < maxInt(1, n) {
				ex.throw("blas: bad leading dimension of A")
			}
			if incX == 0 || incY == 0 {
				ex.throw("blas: zero increment")
			}
			if m == 0 || n == 0 {
				return nil
			}
			lenX, lenY := n, m
			if tA != blasNoTrans {
				lenX, lenY = m, n
			}
			if incX < 0 || incY < 0 {
				panic(abortPath{"blas: negative increments not modelled"})
			}
			if ex.sliceLen(A) < lda*(m-1)+n {
				ex.throw("blas: insufficient length of a")
			}
			if (lenX-1)*incX >= ex.sliceLen(x) {
				ex.throw("blas: insufficient length of x")
			}
			if (lenY-1)*incY >= ex.sliceLen(y) {
				ex.throw("blas: insufficient length of y")
			}
			for i := 0; i < lenY; i++ {
				acc := b.zero()
				for j := 0; j < lenX; j++ {
					var av V
					if tA == blasNoTrans {
						av = ex.blasAt(A, i*lda+j, k.et, "a")
					} else {
						av = ex.blasAt(A, j*lda+i, k.et, "a")
						if tA == blasConjTrans {
							av = b.conj(av)
						}
					}
					acc = b.add(acc, b.mul(av, ex.blasAt(x, j*incX, k.et, "x")))
				}
				r := b.mul(alpha, acc)
				if !b.isConst(beta, 0) {
					r = b.add(r, b.mul(beta, ex.blasAt(y, i*incY, k.et, "y")))
				}
				ex.blasSet(y, i*incY, k.et, r, "y")
			}
			return nil
		}
		// gemm(tA, tB, m, n, k, alpha, a, lda, b, ldb, beta, c, ldc)
		I[pre+k.prefix+"gemm"] = func(ex *Exec, fr *frame, a []V) V {
			bnum := bn(ex)
			tA, tB := int(ex.cint(a[1], "tA")), int(ex.cint(a[2], "tB"))
			m, n, kk := int(ex.cint(a[3], "m")), int(ex.cint(a[4], "n")), int(ex.cint(a[5], "k"))
			alpha := a[6]
			A, lda := a[7].(Slice), int(ex.cint(a[8], "lda"))
			B, ldb := a[9].(Slice), int(ex.cint(a[10], "ldb"))
			beta := a[11]
			C, ldc := a[12].(Slice), int(ex.cint(a[13], "ldc"))
			for _, t := range []int{tA, tB} {
				if t != blasNoTrans && t != blasTrans && t != blasConjTrans {
					ex.throw("blas: illegal transpose")
				}
			}
			if m < 0 || n < 0 || kk < 0 {
				ex.throw("blas: negative dimension")
			}
			rowA, colA := m, kk
			if tA != blasNoTrans {
				rowA, colA = kk, m
			}
			rowB, colB := kk, n
			if tB != blasNoTrans {
				rowB, colB = n, kk
			}
			if lda < maxInt(1, colA) {
				ex.throw("blas: bad leading dimension of A")
			}
			if ldb < maxInt(1, colB) {
				ex.throw("blas: bad leading dimension of B")
			}
			if ldc < maxInt(1, n) {
				ex.throw("blas: bad leading dimension of C")
			}
			if m == 0 || n == 0 {
				return nil
			}
			if ex.sliceLen(A) < lda*(rowA-1)+colA {
				ex.throw("blas: insufficient length of a")
			}
			if ex.sliceLen(B) < ldb*(rowB-1)+colB {
				ex.throw("blas: insufficient length of b")
			}
			if ex.sliceLen(C) < ldc*(m-1)+n {
				ex.throw("blas: insufficient length of c")
			}
			for i := 0; i < m; i++ {
				for j := 0; j < n; j++ {
					acc := bnum.zero()
					for l := 0; l < kk; l++ {
						var av, bv V
						if tA == blasNoTrans {
							av = ex.blasAt(A, i*lda+l, k.et, "a")
						} else {
							av = ex.blasAt(A, l*lda+i, k.et, "a")
							if tA == blasConjTrans {
								av = bnum.conj(av)
							}
						}
						if tB == blasNoTrans {
							bv = ex.blasAt(B, l*ldb+j, k.et, "b")
						} else {
							bv = ex.blasAt(B, j*ldb+l, k.et, "b")
							if tB == blasConjTrans {
								bv = bnum.conj(bv)
							}
						}
						acc = bnum.add(acc, bnum.mul(av, bv))
					}
					r := bnum.mul(alpha, acc)
					if !bnum.isConst(beta, 0) {
						r = bnum.add(r, bnum.mul(beta, ex.blasAt(C, i*ldc+j, k.et, "c")))
					}
					ex.blasSet(C, i*ldc+j, k.et, r, "c")
				}
			}
			return nil
		}
		// ger(m, n, alpha, x, incX, y, incY, a, lda)
		I[pre+k.prefix+gerName] = func(ex *Exec, fr *frame, a []V) V {
			b := bn(ex)
			m, n := int(ex.cint(a[1], "m")), int(ex.cint(a[2], "n"))
			alpha := a[3]
			x, incX := a[4].(Slice), int(ex.cint(a[5], "incX"))
			y, incY := a[6].(Slice), int(ex.cint(a[7], "incY"))
			A, lda := a[8].(Slice), int(ex.cint(a[9], "lda"))
			if m < 0 || n < 0 {
				ex.throw("blas: m/n < 0")
			}
			if lda < maxInt(1, n) {
				ex.throw("blas: bad leading dimension of A")
			}
			if incX == 0 || incY == 0 {
				ex.throw("blas: zero increment")
			}
			if m == 0 || n == 0 {
				return nil
			}
			if incX < 0 || incY < 0 {
				panic(abortPath{"blas: negative increments not modelled"})
			}
			if (m-1)*incX >= ex.sliceLen(x) {
				ex.throw("blas: insufficient length of x")
			}
			if (n-1)*incY >= ex.sliceLen(y) {
				ex.throw("blas: insufficient length of y")
			}
			if ex.sliceLen(A) < lda*(m-1)+n {
				ex.throw("blas: insufficient length of a")
			}
			for i := 0; i < m; i++ {
				for j := 0; j < n; j++ {
					cur := ex.blasAt(A, i*lda+j, k.et, "a")
					up := b.mul(alpha, b.mul(ex.blasAt(x, i*incX, k.et, "x"), ex.blasAt(y, j*incY, k.et, "y")))
					ex.blasSet(A, i*lda+j, k.et, b.add(cur, up), "a")
				}
			}
			return nil
		}
	}
}
