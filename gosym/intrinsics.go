package main

// Boundary models: harness intrinsics, reflect, sync, errors/fmt, math, sort, misc.

import (
	"fmt"
	"go/token"
	"go/types"
	"math"
	"regexp"
	"sort"
	"strconv"
	"strings"

	"golang.org/x/tools/go/ssa"
)

type intrinsic func(ex *Exec, caller *frame, args []V) V

type boundIntr struct {
	recv V
	f    intrinsic
}

var skipInitPkgs = map[string]bool{
	"runtime": true, "reflect": true, "sync": true, "fmt": true, "os": true, "syscall": true, "time": true,
	"unicode": true, "internal/reflectlite": true, "sync/atomic": true, "io": true, "internal/poll": true,
	"github.com/pkg/errors": true, "internal/cpu": true, "internal/bytealg": true, "log": true,
	"math/rand": true, "gonum.org/v1/gonum/blas/gonum": true, "gonum.org/v1/gonum/blas/blas64": true,
	"encoding/gob": true, "encoding/binary": true, "github.com/apache/arrow/go/arrow": true,
	"github.com/apache/arrow/go/arrow/array": true, "github.com/apache/arrow/go/arrow/memory": true,
	"testing": true, "regexp": true, "regexp/syntax": true, "internal/testlog": true, "flag": true,
	"github.com/gogo/protobuf/proto": true, "github.com/golang/protobuf/proto": true, "google.golang.org/protobuf/proto": true,
	"gonum.org/v1/gonum/mat": true, "gonum.org/v1/gonum/lapack/gonum": true, "gonum.org/v1/gonum/lapack/lapack64": true,
	"github.com/google/flatbuffers/go": true, "go4.org/unsafe/assume-no-moving-gc": true, "encoding/csv": true,
	"bufio": true, "bytes": true, "hash/fnv": true, "math/big": true, "encoding/json": true, "unicode/utf8": true,
}

func (ex *Exec) str(v V) string {
	s, ok := v.(StrV)
	if !ok || s.T != nil {
		panic(abortPath{"expected concrete string"})
	}
	return s.S
}

func (ex *Exec) cint(v V, what string) int64 {
	t, ok := v.(*Term)
	if ok {
		if c, ok := termConstInt(t); ok {
			return c
		}
	}
	panic(abortPath{"expected concrete integer for " + what})
}

func (ex *Exec) mkError(msg string) V {
	p := new(V)
	*p = Struct{StrV{S: msg}}
	return Iface{T: ex.ld.errorStringPtr, V: Ptr{S: p}}
}

func resultType(fn *ssa.Function) types.Type {
	return fn.Signature.Results().At(0).Type()
}

func (ex *Exec) registerIntrinsics() {
	I := ex.intr
	defer func() {
		if registerIOIntrinsics != nil {
			registerIOIntrinsics(ex, I)
		}
	}()
	T := "gorgonia.org/tensor."
	ts := ex.ts

	// ---------- harness ----------
	I[T+"vNondet"] = func(ex *Exec, fr *frame, a []V) V {
		// last arg is the type argument
		ta := a[len(a)-1].(typeArgV).T
		return ex.nondet(ex.str(a[0]), ta)
	}
	I[T+"vShareBarrier"] = func(ex *Exec, fr *frame, a []V) V {
		var roots []V
		if sl, ok := a[0].(Slice); ok && sl.B != nil {
			n := int(ex.cint(sl.Len, "vShareBarrier args"))
			it := types.NewInterfaceType(nil, nil)
			for k := 0; k < n; k++ {
				roots = append(roots, ex.load(ex.elemPtr(sl.B, sl.Off, ex.c64(int64(k)), it), it))
			}
		}
		ex.shareBarrier(roots)
		return nil
	}
	I[T+"vAssume"] = func(ex *Exec, fr *frame, a []V) V { ex.assume(a[0].(*Term)); return nil }
	I[T+"vAssert"] = func(ex *Exec, fr *frame, a []V) V {
		ex.assertObl(a[0].(*Term), ex.str(a[1]), "", nil)
		return nil
	}
	I[T+"vAssertKF"] = func(ex *Exec, fr *frame, a []V) V {
		ex.assertObl(a[0].(*Term), ex.str(a[1]), ex.str(a[2]), a[3].(*Term))
		return nil
	}
	I[T+"vAssertKF2"] = func(ex *Exec, fr *frame, a []V) V {
		ex.assertOblN(a[0].(*Term), ex.str(a[1]), []string{ex.str(a[2]), ex.str(a[4])}, []*Term{a[3].(*Term), a[5].(*Term)})
		return nil
	}
	I[T+"vAssertKF3"] = func(ex *Exec, fr *frame, a []V) V {
		ex.assertOblN(a[0].(*Term), ex.str(a[1]), []string{ex.str(a[2]), ex.str(a[4]), ex.str(a[6])}, []*Term{a[3].(*Term), a[5].(*Term), a[7].(*Term)})
		return nil
	}
	I[T+"vReach"] = func(ex *Exec, fr *frame, a []V) V {
		ex.hooks.reached[ex.str(a[0])] = true
		return nil
	}
	I[T+"vCfgInt"] = func(ex *Exec, fr *frame, a []V) V {
		k := ex.str(a[0])
		v, ok := ex.cfg[k]
		if !ok {
			return ex.c64(0) // absent keys read as 0
		}
		switch x := v.(type) {
		case int:
			return ex.c64(int64(x))
		case float64:
			return ex.c64(int64(x))
		}
		panic(abortPath{"cfg " + k + " is not an int"})
	}
	I[T+"vCfgStr"] = func(ex *Exec, fr *frame, a []V) V {
		k := ex.str(a[0])
		v, ok := ex.cfg[k]
		if !ok {
			return StrV{}
		}
		return StrV{S: fmt.Sprint(v)}
	}
	I[T+"vCfgInts"] = func(ex *Exec, fr *frame, a []V) V {
		k := ex.str(a[0])
		v, ok := ex.cfg[k]
		if !ok {
			return Slice{}
		}
		var xs []int
		switch x := v.(type) {
		case []int:
			xs = x
		case []interface{}:
			for _, e := range x {
				xs = append(xs, int(e.(float64)))
			}
		}
		b := ex.newBuf(types.Typ[types.Int], len(xs))
		for i, x := range xs {
			b.cells[i] = ex.c64(int64(x))
		}
		return ex.mkSlice(b, len(xs))
	}
	I[T+"vIte"] = func(ex *Exec, fr *frame, a []V) V { return ex.iteV(a[0].(*Term), a[1], a[2]) }
	I[T+"vAnd"] = func(ex *Exec, fr *frame, a []V) V { return ts.And(a[0].(*Term), a[1].(*Term)) }
	I[T+"vOr"] = func(ex *Exec, fr *frame, a []V) V { return ts.Or(a[0].(*Term), a[1].(*Term)) }
	I[T+"vNot"] = func(ex *Exec, fr *frame, a []V) V { return ts.Not(a[0].(*Term)) }
	I[T+"vImplies"] = func(ex *Exec, fr *frame, a []V) V { return ts.Implies(a[0].(*Term), a[1].(*Term)) }
	I[T+"vSplit"] = func(ex *Exec, fr *frame, a []V) V {
		t := a[0].(*Term)
		lo, hi := ex.cint(a[1], "vSplit lo"), ex.cint(a[2], "vSplit hi")
		ex.assume(ts.And(ts.BvCmp(OSLe, ex.c64(lo), t), ts.BvCmp(OSLe, t, ex.c64(hi))))
		return ex.c64(ex.concretize(t, lo, hi, "vSplit", token.NoPos, fr))
	}
	I[T+"vSymbolic"] = func(ex *Exec, fr *frame, a []V) V { return ts.Bool(ex.hooks.concrete == nil) }
	I[T+"vSameBits"] = func(ex *Exec, fr *frame, a []V) V { return ex.sameBits(a[0], a[1]) }
	I[T+"vSameBacking"] = func(ex *Exec, fr *frame, a []V) V {
		for _, v := range a[:2] {
			if i, ok := v.(Iface); ok {
				if _, isSl := i.V.(Slice); !isSl {
					return ts.fls // not slices (scalar Data()): no shared backing array
				}
			}
		}
		x, y := ex.ifaceSlice(a[0]), ex.ifaceSlice(a[1])
		return ts.Bool(x.B != nil && x.B == y.B)
	}
	I[T+"vObserve"] = func(ex *Exec, fr *frame, a []V) V {
		ex.hooks.observeLog = append(ex.hooks.observeLog, ex.str(a[0])+"="+ex.showV(a[1]))
		return nil
	}
	I[T+"vUF1"] = func(ex *Exec, fr *frame, a []V) V {
		x := a[1].(*Term)
		u := ts.UF("uf_"+sanitize(ex.str(a[0]))+"_"+sortTag(x.Sort), x.Sort, x)
		if u.Op == OUF && len(ex.path.ufApps) < 64 {
			dup := false
			for _, o := range ex.path.ufApps {
				if o == u {
					dup = true
				}
			}
			if !dup {
				ex.path.ufApps = append(ex.path.ufApps, u)
			}
		}
		return u
	}
	I[T+"vUF2"] = func(ex *Exec, fr *frame, a []V) V {
		x, y := a[1].(*Term), a[2].(*Term)
		return ts.UF("uf_"+sanitize(ex.str(a[0]))+"_"+sortTag(x.Sort), x.Sort, x, y)
	}
	I[T+"vSel"] = func(ex *Exec, fr *frame, a []V) V {
		s := a[0].(Slice)
		et := a[len(a)-1].(typeArgV).T
		idx := a[1].(*Term)
		if s.B == nil {
			panic(abortPath{"vSel on nil slice"})
		}
		if nk := numKind(et); !nk.ok {
			// object cells (strings): build the chain over concrete positions
			n := ex.cint(s.Len, "vSel len")
			var res V
			for k := int(n) - 1; k >= 0; k-- {
				v := ex.load(ex.elemPtr(s.B, s.Off, ex.c64(int64(k)), et), et)
				if res == nil {
					res = v
				} else {
					res = ex.iteStr(ts.Eq(idx, ex.c64(int64(k))), v, res)
				}
			}
			return res
		}
		return ex.load(ex.elemPtr(s.B, s.Off, idx, et), et)
	}
	I[T+"vIsNaN"] = func(ex *Exec, fr *frame, a []V) V { return ts.FIsNaN(a[0].(*Term)) }
	I[T+"vKFOpen"] = func(ex *Exec, fr *frame, a []V) V { return ts.Bool(ex.hooks.kfOpen[ex.str(a[0])]) }

	// ---------- errors / fmt ----------
	errf := func(ex *Exec, fr *frame, a []V) V { return ex.mkError(ex.str(a[0])) }
	I["github.com/pkg/errors.Errorf"] = errf
	I["github.com/pkg/errors.New"] = errf
	I["errors.New"] = errf
	I["fmt.Errorf"] = errf
	wrap := func(ex *Exec, fr *frame, a []V) V {
		e := a[0].(Iface)
		if e.T == nil {
			return Iface{}
		}
		return e
	}
	I["github.com/pkg/errors.Wrapf"] = wrap
	I["github.com/pkg/errors.Wrap"] = wrap
	I["github.com/pkg/errors.WithStack"] = wrap
	I["github.com/pkg/errors.WithMessage"] = wrap
	I["github.com/pkg/errors.Cause"] = wrap
	I["fmt.Sprintf"] = func(ex *Exec, fr *frame, a []V) V { return StrV{S: ex.sprintf(ex.str(a[0]), a[1])} }
	I["fmt.Sprint"] = func(ex *Exec, fr *frame, a []V) V { return StrV{S: "<sprint>"} }
	I["fmt.Printf"] = func(ex *Exec, fr *frame, a []V) V { return Tuple{ex.c64(0), Iface{}} }
	I["fmt.Println"] = func(ex *Exec, fr *frame, a []V) V { return Tuple{ex.c64(0), Iface{}} }
	I["log.Printf"] = func(ex *Exec, fr *frame, a []V) V { return nil }
	I["log.Println"] = func(ex *Exec, fr *frame, a []V) V { return nil }

	// ---------- runtime / sync ----------
	I["runtime.SetFinalizer"] = func(ex *Exec, fr *frame, a []V) V { return nil }
	I["runtime.KeepAlive"] = func(ex *Exec, fr *frame, a []V) V { return nil }
	I["runtime.GC"] = func(ex *Exec, fr *frame, a []V) V { return nil }
	I["(*sync.Mutex).Lock"] = func(ex *Exec, fr *frame, a []V) V { ex.evLock(a[0], true); return nil }
	I["(*sync.Mutex).Unlock"] = func(ex *Exec, fr *frame, a []V) V { ex.evLock(a[0], false); return nil }
	I["(*sync.RWMutex).Lock"] = func(ex *Exec, fr *frame, a []V) V { return nil }
	I["(*sync.RWMutex).Unlock"] = func(ex *Exec, fr *frame, a []V) V { return nil }
	I["(*sync.RWMutex).RLock"] = func(ex *Exec, fr *frame, a []V) V { return nil }
	I["(*sync.RWMutex).RUnlock"] = func(ex *Exec, fr *frame, a []V) V { return nil }
	I["(*sync.Pool).Get"] = func(ex *Exec, fr *frame, a []V) V {
		p := a[0].(Ptr)
		if p.S == nil {
			panic(abortPath{"sync.Pool in buffer"})
		}
		items := ex.pools[p.S]
		if n := len(items); n > 0 { // LIFO: the most aliasing-adversarial single behaviour
			it := items[n-1]
			ex.pools[p.S] = items[:n-1]
			return it
		}
		st := (*p.S).(Struct)
		newf := st[ex.ld.poolNewField]
		if isNilV(newf) {
			return Iface{}
		}
		return ex.callV(fr, newf, nil, token.NoPos)
	}
	I["(*sync.Pool).Put"] = func(ex *Exec, fr *frame, a []V) V {
		p := a[0].(Ptr)
		if x, ok := a[1].(Iface); ok && x.T == nil {
			return nil
		}
		ex.evPoolPut(ex.pools[p.S], a[1], "sync.Pool")
		ex.pools[p.S] = append(ex.pools[p.S], a[1])
		return nil
	}

	// ---------- reflect ----------
	I["reflect.TypeOf"] = func(ex *Exec, fr *frame, a []V) V {
		x := a[0].(Iface)
		if x.T == nil {
			return Iface{}
		}
		return ex.rtypeIface(x.T)
	}
	I["reflect.ValueOf"] = func(ex *Exec, fr *frame, a []V) V {
		x := a[0].(Iface)
		if x.T == nil {
			return RVal{}
		}
		return RVal{T: x.T, V: x.V, Has: true}
	}
	I["reflect.SliceOf"] = func(ex *Exec, fr *frame, a []V) V {
		return ex.rtypeIface(types.NewSlice(ex.rtypeOf(a[0])))
	}
	I["reflect.PtrTo"] = func(ex *Exec, fr *frame, a []V) V {
		return ex.rtypeIface(types.NewPointer(ex.rtypeOf(a[0])))
	}
	I["reflect.Zero"] = func(ex *Exec, fr *frame, a []V) V {
		t := ex.rtypeOf(a[0])
		return RVal{T: t, V: ex.zero(t), Has: true}
	}
	I["reflect.NewAt"] = func(ex *Exec, fr *frame, a []V) V {
		t := ex.rtypeOf(a[0])
		return RVal{T: types.NewPointer(t), V: a[1].(Ptr), Has: true}
	}
	I["reflect.New"] = func(ex *Exec, fr *frame, a []V) V {
		t := ex.rtypeOf(a[0])
		p := new(V)
		*p = ex.zero(t)
		return RVal{T: types.NewPointer(t), V: Ptr{S: p}, Has: true}
	}
	I["reflect.Indirect"] = func(ex *Exec, fr *frame, a []V) V { return ex.rvalElem(a[0].(RVal)) }
	I["(reflect.Value).Elem"] = func(ex *Exec, fr *frame, a []V) V { return ex.rvalElem(a[0].(RVal)) }
	I["reflect.MakeSlice"] = func(ex *Exec, fr *frame, a []V) V {
		t := ex.rtypeOf(a[0])
		n, c := ex.cint(a[1], "MakeSlice len"), ex.cint(a[2], "MakeSlice cap")
		b := ex.newBuf(t.Underlying().(*types.Slice).Elem(), int(c))
		return RVal{T: t, V: Slice{B: b, Off: ex.c64(0), Len: ex.c64(n), Cap: ex.c64(c)}, Has: true}
	}
	I["(reflect.Value).Interface"] = func(ex *Exec, fr *frame, a []V) V {
		r := a[0].(RVal)
		return Iface{T: r.T, V: ex.rvalGet(r)}
	}
	I["(reflect.Value).Pointer"] = func(ex *Exec, fr *frame, a []V) V {
		r := a[0].(RVal)
		switch v := ex.rvalGet(r).(type) {
		case Slice:
			if v.B == nil {
				return ex.c64(0)
			}
			return ProvInt{P: Ptr{B: v.B, Off: v.Off}, Add: ex.c64(0)}
		case Ptr:
			if v.IsNil() {
				return ex.c64(0)
			}
			return ProvInt{P: v, Add: ex.c64(0)}
		}
		panic(abortPath{"reflect.Value.Pointer of " + r.T.String()})
	}
	I["(reflect.Value).UnsafePointer"] = func(ex *Exec, fr *frame, a []V) V {
		r := a[0].(RVal)
		switch v := ex.rvalGet(r).(type) {
		case Slice:
			if v.B == nil {
				return Ptr{}
			}
			return Ptr{B: v.B, Off: v.Off}
		case Ptr:
			return v
		}
		panic(abortPath{"reflect.Value.UnsafePointer of " + r.T.String()})
	}
	I["(reflect.Value).Len"] = func(ex *Exec, fr *frame, a []V) V {
		switch v := ex.rvalGet(a[0].(RVal)).(type) {
		case Slice:
			if v.B == nil {
				return ex.c64(0)
			}
			return v.Len
		case StrV:
			return ex.c64(int64(len(v.S)))
		case ArrV:
			return ex.c64(int64(len(v.B.cells)))
		}
		panic(abortPath{"reflect.Value.Len"})
	}
	I["(reflect.Value).Cap"] = func(ex *Exec, fr *frame, a []V) V {
		switch v := ex.rvalGet(a[0].(RVal)).(type) {
		case Slice:
			if v.B == nil {
				return ex.c64(0)
			}
			return v.Cap
		}
		panic(abortPath{"reflect.Value.Cap"})
	}
	I["(reflect.Value).Kind"] = func(ex *Exec, fr *frame, a []V) V {
		r := a[0].(RVal)
		if !r.Has {
			return ex.c64(0)
		}
		return ex.c64(int64(kindOf(r.T)))
	}
	I["(reflect.Value).Type"] = func(ex *Exec, fr *frame, a []V) V { return ex.rtypeIface(a[0].(RVal).T) }
	I["(reflect.Value).IsValid"] = func(ex *Exec, fr *frame, a []V) V { return ts.Bool(a[0].(RVal).Has) }
	I["(reflect.Value).IsNil"] = func(ex *Exec, fr *frame, a []V) V { return ts.Bool(isNilV(ex.rvalGet(a[0].(RVal)))) }
	I["(reflect.Value).CanSet"] = func(ex *Exec, fr *frame, a []V) V { return ts.Bool(!a[0].(RVal).Addr.IsNil()) }
	I["(reflect.Value).CanAddr"] = func(ex *Exec, fr *frame, a []V) V { return ts.Bool(!a[0].(RVal).Addr.IsNil()) }
	I["(reflect.Value).Addr"] = func(ex *Exec, fr *frame, a []V) V {
		r := a[0].(RVal)
		if r.Addr.IsNil() {
			ex.throw("reflect.Value.Addr of unaddressable value")
		}
		return RVal{T: types.NewPointer(r.T), V: r.Addr, Has: true}
	}
	I["(reflect.Value).Index"] = func(ex *Exec, fr *frame, a []V) V {
		r := a[0].(RVal)
		idx := a[1].(*Term)
		switch v := ex.rvalGet(r).(type) {
		case Slice:
			et := r.T.Underlying().(*types.Slice).Elem()
			if v.B == nil {
				ex.throw("reflect: slice index out of range")
			}
			ex.boundsCheck(idx, v.Len, "reflect.Value.Index", token.NoPos, fr)
			return RVal{T: et, Addr: ex.elemPtr(v.B, v.Off, idx, et), Has: true}
		}
		panic(abortPath{"reflect.Value.Index on " + r.T.String()})
	}
	I["(reflect.Value).Set"] = func(ex *Exec, fr *frame, a []V) V {
		r := a[0].(RVal)
		if r.Addr.IsNil() {
			ex.throw("reflect.Value.Set on unaddressable value")
		}
		x := a[1].(RVal)
		ex.store(r.Addr, r.T, ex.rvalGet(x), nil)
		return nil
	}
	I["(reflect.Value).Slice"] = func(ex *Exec, fr *frame, a []V) V {
		r := a[0].(RVal)
		v := ex.rvalGet(r).(Slice)
		lo, hi := a[1].(*Term), a[2].(*Term)
		et := r.T.Underlying().(*types.Slice).Elem()
		if l, ok := termConstInt(lo); ok {
			if h, ok := termConstInt(hi); ok {
				if c, ok := termConstInt(v.Cap); ok && (l < 0 || h < l || h > c) {
					ex.throw("reflect.Value.Slice: out of bounds")
				}
			}
		}
		ns := Slice{B: v.B, Off: ts.BvBin(OAdd, v.Off, ts.BvBin(OMul, lo, ex.c64(int64(sizeof(et))))), Len: ts.BvBin(OSub, hi, lo), Cap: ts.BvBin(OSub, v.Cap, lo)}
		return RVal{T: r.T, V: ns, Has: true}
	}
	for _, nm := range []string{"Int", "Uint", "Float", "Bool", "String", "Complex"} {
		nm := nm
		I["(reflect.Value)."+nm] = func(ex *Exec, fr *frame, a []V) V {
			r := a[0].(RVal)
			v := ex.rvalGet(r)
			n := numKind(r.T)
			switch nm {
			case "Int":
				return ts.SExt(v.(*Term), 64)
			case "Uint":
				return ts.ZExt(v.(*Term), 64)
			case "Float":
				return ts.FToF(v.(*Term), ex.floatSort(8))
			case "Complex":
				c := v.(Cplx)
				return Cplx{ts.FToF(c.Re, ex.floatSort(8)), ts.FToF(c.Im, ex.floatSort(8))}
			}
			_ = n
			return v
		}
	}
	I["reflect.DeepEqual"] = func(ex *Exec, fr *frame, a []V) V {
		panic(abortPath{"UNSUPPORTED reflect.DeepEqual"})
	}
	I["reflect.Copy"] = func(ex *Exec, fr *frame, a []V) V {
		d, s := a[0].(RVal), a[1].(RVal)
		dv, sv := ex.rvalGet(d).(Slice), ex.rvalGet(s).(Slice)
		et := d.T.Underlying().(*types.Slice).Elem()
		n := ex.cint(ts.Ite(ts.BvCmp(OSLt, dv.Len, sv.Len), dv.Len, sv.Len), "reflect.Copy len")
		ex.copyElems(dv, sv, int(n), et)
		return ex.c64(n)
	}

	// ---------- math ----------
	f64un := func(name string, op Op) {
		I["math."+name] = func(ex *Exec, fr *frame, a []V) V { return ts.FUn(op, a[0].(*Term)) }
	}
	f64un("Abs", OFAbs)
	f64un("Sqrt", OFSqrt)
	I["math.sqrt"] = I["math.Sqrt"]
	I["github.com/chewxy/math32.Sqrt"] = I["math.Sqrt"]
	I["github.com/chewxy/math32.Abs"] = I["math.Abs"]
	I["math.IsNaN"] = func(ex *Exec, fr *frame, a []V) V { return ts.FIsNaN(a[0].(*Term)) }
	I["github.com/chewxy/math32.IsNaN"] = I["math.IsNaN"]
	isInf := func(ex *Exec, fr *frame, a []V) V {
		x := a[0].(*Term)
		sign := ts.SExt(a[1].(*Term), 64)
		if x.Sort.K == SInt {
			return ts.fls
		}
		zero := ts.Zero(x.Sort)
		pos := ts.And(ts.FIsInf(x), ts.FCmp(OFLt, zero, x))
		neg := ts.And(ts.FIsInf(x), ts.FCmp(OFLt, x, zero))
		sPos := ts.BvCmp(OSLe, ex.c64(0), sign)
		sNeg := ts.BvCmp(OSLe, sign, ex.c64(0))
		return ts.Or(ts.And(sPos, pos), ts.And(sNeg, neg))
	}
	I["math.IsInf"] = isInf
	I["github.com/chewxy/math32.IsInf"] = isInf
	I["math.Inf"] = func(ex *Exec, fr *frame, a []V) V {
		if ex.ring {
			panic(abortPath{"math.Inf in ring mode"})
		}
		s := a[0].(*Term)
		return ts.Ite(ts.BvCmp(OSLe, ts.BV(int(s.Sort.W), 0), s), ts.F64(math.Inf(1)), ts.F64(math.Inf(-1)))
	}
	I["github.com/chewxy/math32.Inf"] = func(ex *Exec, fr *frame, a []V) V {
		if ex.ring {
			panic(abortPath{"math32.Inf in ring mode"})
		}
		s := a[0].(*Term)
		return ts.Ite(ts.BvCmp(OSLe, ts.BV(int(s.Sort.W), 0), s), ts.F32(float32(math.Inf(1))), ts.F32(float32(math.Inf(-1))))
	}
	I["math.NaN"] = func(ex *Exec, fr *frame, a []V) V { return ts.F64(math.NaN()) }
	I["github.com/chewxy/math32.NaN"] = func(ex *Exec, fr *frame, a []V) V { return ts.F32(float32(math.NaN())) }
	I["math.Float64bits"] = func(ex *Exec, fr *frame, a []V) V { return ts.FToBV(a[0].(*Term), 64) }
	I["math.Float64frombits"] = func(ex *Exec, fr *frame, a []V) V { return ts.BVToF(a[0].(*Term), ex.floatSort(8)) }
	I["math.Float32bits"] = func(ex *Exec, fr *frame, a []V) V { return ts.FToBV(a[0].(*Term), 32) }
	I["math.Float32frombits"] = func(ex *Exec, fr *frame, a []V) V { return ts.BVToF(a[0].(*Term), ex.floatSort(4)) }
	for _, nm := range []string{"Exp", "Log", "Log2", "Log10", "Log1p", "Expm1", "Tanh", "Cbrt", "Sin", "Cos", "Tan", "Floor", "Ceil", "Trunc", "Exp2", "Sinh", "Cosh", "Erf", "Round"} {
		nm := nm
		uf1 := func(ex *Exec, fr *frame, a []V) V {
			x := a[0].(*Term)
			if x.IsConst() && isFP(x.Sort) {
				if r, ok := constMath1(nm, x.cFloat()); ok {
					return ts.fconst(x.Sort, r)
				}
			}
			return ts.UF("m_"+nm+"_"+sortTag(x.Sort), x.Sort, x)
		}
		I["math."+nm] = uf1
		I["github.com/chewxy/math32."+nm] = uf1
	}
	for _, nm := range []string{"Pow", "Mod", "Atan2", "Hypot", "Max", "Min", "Remainder", "Copysign"} {
		nm := nm
		uf2 := func(ex *Exec, fr *frame, a []V) V {
			x, y := a[0].(*Term), a[1].(*Term)
			if x.IsConst() && y.IsConst() && isFP(x.Sort) && x.Sort.K == SFP64 {
				switch nm {
				case "Pow":
					return ts.F64(math.Pow(x.cF64(), y.cF64()))
				case "Mod":
					return ts.F64(math.Mod(x.cF64(), y.cF64()))
				}
			}
			return ts.UF("m_"+nm+"_"+sortTag(x.Sort), x.Sort, x, y)
		}
		I["math."+nm] = uf2
		I["github.com/chewxy/math32."+nm] = uf2
	}
	for _, nm := range []string{"Exp", "Log", "Log10", "Pow", "Sqrt", "Tanh", "Abs", "Conj", "Inf", "NaN", "IsNaN", "IsInf", "Cbrt"} {
		nm := nm
		I["math/cmplx."+nm] = func(ex *Exec, fr *frame, a []V) V {
			switch nm {
			case "Inf":
				inf := ts.F64(math.Inf(1))
				return Cplx{inf, inf}
			case "NaN":
				nan := ts.F64(math.NaN())
				return Cplx{nan, nan}
			case "IsNaN":
				c := a[0].(Cplx)
				anyInf := ts.Or(ts.FIsInf(c.Re), ts.FIsInf(c.Im))
				anyNaN := ts.Or(ts.FIsNaN(c.Re), ts.FIsNaN(c.Im))
				return ts.And(ts.Not(anyInf), anyNaN)
			case "IsInf":
				c := a[0].(Cplx)
				return ts.Or(ts.FIsInf(c.Re), ts.FIsInf(c.Im))
			case "Conj":
				c := a[0].(Cplx)
				return Cplx{c.Re, ts.FUn(OFNeg, c.Im)}
			case "Abs":
				c := a[0].(Cplx)
				return ts.UF("c_Abs", c.Re.Sort, c.Re, c.Im)
			}
			var flat []*Term
			for _, x := range a {
				c := x.(Cplx)
				flat = append(flat, c.Re, c.Im)
			}
			s := flat[0].Sort
			return Cplx{ts.UF("c_"+nm+"_re", s, flat...), ts.UF("c_"+nm+"_im", s, flat...)}
		}
	}

	// ---------- sort / hash / binary ----------
	I["sort.Slice"] = func(ex *Exec, fr *frame, a []V) V { return ex.sortSlice(fr, a[0].(Iface), a[1], false) }
	I["sort.SliceStable"] = func(ex *Exec, fr *frame, a []V) V { return ex.sortSlice(fr, a[0].(Iface), a[1], true) }
	I["sort.Ints"] = func(ex *Exec, fr *frame, a []V) V {
		s := a[0].(Slice)
		n := ex.cint(s.Len, "sort.Ints len")
		et := types.Typ[types.Int]
		// insertion sort with symbolic compares (forks)
		for i := 1; i < int(n); i++ {
			for j := i; j > 0; j-- {
				pj, pk := ex.elemPtr(s.B, s.Off, ex.c64(int64(j)), et), ex.elemPtr(s.B, s.Off, ex.c64(int64(j-1)), et)
				x, y := ex.load(pj, et).(*Term), ex.load(pk, et).(*Term)
				if !ex.branch(ts.BvCmp(OSLt, x, y), token.NoPos, fr) {
					break
				}
				ex.store(pj, et, y, nil)
				ex.store(pk, et, x, nil)
			}
		}
		return nil
	}
	I["gorgonia.org/tensor.divmod"] = func(ex *Exec, fr *frame, a []V) V {
		x, y := a[0].(*Term), a[1].(*Term)
		q := ex.intBinop(token.QUO, numInfo{ok: true, w: 8, signed: true}, x, y, nil).(*Term)
		r := ex.intBinop(token.REM, numInfo{ok: true, w: 8, signed: true}, x, y, nil).(*Term)
		return Tuple{q, r}
	}
	I["encoding/gob.Register"] = func(ex *Exec, fr *frame, a []V) V { return nil }
	I["regexp.MustCompile"] = func(ex *Exec, fr *frame, a []V) V { return NativeV{X: regexp.MustCompile(ex.str(a[0]))} }
	I["(encoding/binary.littleEndian).PutUint64"] = func(ex *Exec, fr *frame, a []V) V {
		s := a[1].(Slice)
		v := a[2].(*Term)
		if s.B == nil {
			ex.throw("runtime error: index out of range (PutUint64)")
		}
		ex.boundsCheck(ex.c64(7), s.Len, "PutUint64", token.NoPos, fr)
		for i := 0; i < 8; i++ {
			ex.storeNum(s.B, ts.BvBin(OAdd, s.Off, ex.c64(int64(i))), ts.Extract(v, i*8+7, i*8), 1, nil)
		}
		return nil
	}
	I["hash/fnv.New64a"] = func(ex *Exec, fr *frame, a []V) V {
		p := new(V)
		*p = Struct{ex.ts.BV(64, 14695981039346656037)}
		return Iface{T: ex.ld.fnvType, V: Ptr{S: p}}
	}
}

func constMath1(nm string, x float64) (float64, bool) {
	switch nm {
	case "Exp":
		return math.Exp(x), true
	case "Log":
		return math.Log(x), true
	case "Log2":
		return math.Log2(x), true
	case "Log10":
		return math.Log10(x), true
	case "Tanh":
		return math.Tanh(x), true
	case "Cbrt":
		return math.Cbrt(x), true
	case "Floor":
		return math.Floor(x), true
	case "Ceil":
		return math.Ceil(x), true
	case "Trunc":
		return math.Trunc(x), true
	}
	return 0, false
}

// dynIntrinsic intercepts interface method calls whose receiver is a modelled object.
func (ex *Exec) dynIntrinsic(recv Iface, method string) *boundIntr {
	switch rv := recv.V.(type) {
	case RType:
		return &boundIntr{recv: rv, f: func(ex *Exec, fr *frame, a []V) V { return ex.rtypeMethod(method, a[0].(RType).T, a[1:]) }}
	}
	if recv.T == ex.ld.fmtStateType {
		return &boundIntr{recv: recv.V, f: func(ex *Exec, fr *frame, a []V) V { return ex.fmtStateMethod(method, a[0].(Ptr), a[1:]) }}
	}
	if recv.T == ex.ld.fnvType {
		return &boundIntr{recv: recv.V, f: func(ex *Exec, fr *frame, a []V) V { return ex.fnvMethod(method, a[0].(Ptr), a[1:]) }}
	}
	return nil
}

func (ex *Exec) fnvMethod(method string, p Ptr, a []V) V {
	ts := ex.ts
	st := (*p.S).(Struct)
	switch method {
	case "Write":
		s := a[0].(Slice)
		n := ex.cint(s.Len, "fnv write len")
		h := st[0].(*Term)
		et := types.Typ[types.Uint8]
		for i := 0; i < int(n); i++ {
			c := ex.load(ex.elemPtr(s.B, s.Off, ex.c64(int64(i)), et), et).(*Term)
			h = ts.BvBin(OXor, h, ts.ZExt(c, 64))
			h = ts.BvBin(OMul, h, ts.BV(64, 1099511628211))
		}
		st[0] = h
		return Tuple{ex.c64(n), Iface{}}
	case "Sum64":
		return st[0]
	case "Reset":
		st[0] = ts.BV(64, 14695981039346656037)
		return nil
	}
	panic(abortPath{"fnv method " + method})
}

func (ex *Exec) rtypeIface(t types.Type) V {
	return Iface{T: ex.ld.rtypePtr, V: RType{T: t}}
}

func (ex *Exec) rtypeOf(v V) types.Type {
	i := v.(Iface)
	if i.T == nil {
		ex.throw("nil reflect.Type")
	}
	return i.V.(RType).T
}

func (ex *Exec) rvalGet(r RVal) V {
	if !r.Addr.IsNil() {
		return ex.load(r.Addr, r.T)
	}
	return r.V
}

func (ex *Exec) rvalElem(r RVal) V {
	switch u := r.T.Underlying().(type) {
	case *types.Pointer:
		p := ex.rvalGet(r).(Ptr)
		if p.IsNil() {
			return RVal{}
		}
		return RVal{T: u.Elem(), Addr: p, Has: true}
	case *types.Interface:
		i := ex.rvalGet(r).(Iface)
		if i.T == nil {
			return RVal{}
		}
		return RVal{T: i.T, V: i.V, Has: true}
	}
	return r // Indirect of non-pointer returns v
}

func kindOf(t types.Type) int {
	switch u := t.Underlying().(type) {
	case *types.Basic:
		switch u.Kind() {
		case types.Bool:
			return 1
		case types.Int:
			return 2
		case types.Int8:
			return 3
		case types.Int16:
			return 4
		case types.Int32:
			return 5
		case types.Int64:
			return 6
		case types.Uint:
			return 7
		case types.Uint8:
			return 8
		case types.Uint16:
			return 9
		case types.Uint32:
			return 10
		case types.Uint64:
			return 11
		case types.Uintptr:
			return 12
		case types.Float32:
			return 13
		case types.Float64:
			return 14
		case types.Complex64:
			return 15
		case types.Complex128:
			return 16
		case types.String:
			return 24
		case types.UnsafePointer:
			return 26
		}
	case *types.Array:
		return 17
	case *types.Chan:
		return 18
	case *types.Signature:
		return 19
	case *types.Interface:
		return 20
	case *types.Map:
		return 21
	case *types.Pointer:
		return 22
	case *types.Slice:
		return 23
	case *types.Struct:
		return 25
	}
	return 0
}

func (ex *Exec) rtypeMethod(method string, t types.Type, a []V) V {
	switch method {
	case "Size":
		return ex.c64(int64(sizeof(t)))
	case "Kind":
		return ex.c64(int64(kindOf(t)))
	case "Elem":
		switch u := t.Underlying().(type) {
		case *types.Slice:
			return ex.rtypeIface(u.Elem())
		case *types.Pointer:
			return ex.rtypeIface(u.Elem())
		case *types.Array:
			return ex.rtypeIface(u.Elem())
		case *types.Map:
			return ex.rtypeIface(u.Elem())
		case *types.Chan:
			return ex.rtypeIface(u.Elem())
		}
		ex.throw("reflect: Elem of invalid type " + t.String())
	case "Name":
		if n, ok := t.(*types.Named); ok {
			return StrV{S: n.Obj().Name()}
		}
		if b, ok := t.(*types.Basic); ok {
			return StrV{S: b.Name()}
		}
		return StrV{}
	case "String":
		return StrV{S: types.TypeString(t, func(p *types.Package) string { return p.Name() })}
	case "Align", "FieldAlign":
		return ex.c64(sizes.Alignof(t))
	case "Comparable":
		return ex.ts.Bool(types.Comparable(t))
	case "PkgPath":
		if n, ok := t.(*types.Named); ok && n.Obj().Pkg() != nil {
			return StrV{S: n.Obj().Pkg().Path()}
		}
		return StrV{}
	case "Len":
		return ex.c64(t.Underlying().(*types.Array).Len())
	case "NumField":
		return ex.c64(int64(t.Underlying().(*types.Struct).NumFields()))
	}
	panic(abortPath{"UNSUPPORTED reflect.Type." + method})
}

func (ex *Exec) nondet(name string, t types.Type) V {
	n := numKind(t)
	if n.cplx {
		re := ex.nondetScalar(name+"_re", ex.floatSort(n.w/2))
		im := ex.nondetScalar(name+"_im", ex.floatSort(n.w/2))
		return Cplx{re, im}
	}
	if n.ok {
		return ex.nondetScalar(name, ex.sortOf(t))
	}
	if b, ok := t.Underlying().(*types.Basic); ok && b.Kind() == types.String {
		if c := ex.hooks.concrete; c != nil {
			return StrV{S: c[name]}
		}
		p := ex.path
		tm := ex.ts.Var("n_"+sanitize(name), sortStr)
		if !p.ndSet[name] {
			p.ndSet[name] = true
			p.nondets = append(p.nondets, tm)
			p.ndNames = append(p.ndNames, name)
		}
		return StrV{T: tm}
	}
	panic(abortPath{"vNondet of type " + t.String()})
}

func (ex *Exec) nondetScalar(name string, s Sort) *Term {
	if c := ex.hooks.concrete; c != nil {
		lit, ok := c[name]
		if !ok {
			lit = "0"
		}
		return ex.parseLiteral(lit, s)
	}
	p := ex.path
	t := ex.ts.Var("n_"+sanitize(name), s)
	if !p.ndSet[name] {
		p.ndSet[name] = true
		p.nondets = append(p.nondets, t)
		p.ndNames = append(p.ndNames, name)
	}
	return t
}

// parseLiteral reads "tag:bits" (model format) into a constant of sort s.
func (ex *Exec) parseLiteral(lit string, s Sort) *Term {
	if i := strings.Index(lit, ":"); i >= 0 {
		lit = lit[i+1:]
	}
	bits, err := strconv.ParseUint(lit, 10, 64)
	if err != nil {
		panic(abortPath{"bad literal " + lit})
	}
	switch s.K {
	case SBool:
		return ex.ts.Bool(bits != 0)
	case SBV:
		return ex.ts.BV(int(s.W), bits)
	case SFP32:
		return ex.ts.mk(OConst, s, bits&0xffffffff, "")
	case SFP64:
		return ex.ts.mk(OConst, s, bits, "")
	case SInt:
		return ex.ts.IntC(int64(bits))
	}
	panic("parseLiteral")
}

func (ex *Exec) iteV(c *Term, a, b V) V {
	switch x := a.(type) {
	case StrV:
		return ex.iteStr(c, a, b)
	case *Term:
		return ex.ts.Ite(c, x, b.(*Term))
	case Cplx:
		y := b.(Cplx)
		return Cplx{ex.ts.Ite(c, x.Re, y.Re), ex.ts.Ite(c, x.Im, y.Im)}
	}
	if c.IsConst() {
		if c.cBool() {
			return a
		}
		return b
	}
	panic(abortPath{fmt.Sprintf("vIte on %T", a)})
}

func (ex *Exec) iteStr(c *Term, a, b V) V {
	x, y := a.(StrV), b.(StrV)
	if c.IsConst() {
		if c.cBool() {
			return x
		}
		return y
	}
	return StrV{T: ex.ts.Ite(c, ex.strTerm(x), ex.strTerm(y))}
}

func (ex *Exec) sameBits(a, b V) *Term {
	ts := ex.ts
	switch x := a.(type) {
	case *Term:
		y := b.(*Term)
		return ts.Eq(x, y)
	case Cplx:
		y := b.(Cplx)
		return ts.And(ts.Eq(x.Re, y.Re), ts.Eq(x.Im, y.Im))
	case Iface:
		y, ok := b.(Iface)
		if !ok || x.T == nil || y.T == nil {
			return ts.Bool(ok && x.T == nil && y.T == nil)
		}
		if !types.Identical(x.T, y.T) {
			return ts.fls
		}
		return ex.sameBits(x.V, y.V)
	}
	return ex.equalV(a, b)
}

func (ex *Exec) ifaceSlice(v V) Slice {
	i, ok := v.(Iface)
	if !ok {
		if s, ok := v.(Slice); ok {
			return s
		}
		panic(abortPath{"vSameBacking: not a slice"})
	}
	s, ok := i.V.(Slice)
	if !ok {
		panic(abortPath{"vSameBacking: not a slice"})
	}
	return s
}

func (ex *Exec) showV(v V) string {
	switch x := v.(type) {
	case nil:
		return "nil"
	case *Term:
		if x.IsConst() {
			if x.Sort.K == SInt {
				return fmt.Sprintf("f64:%d", math.Float64bits(float64(int64(x.Bits))))
			}
			return fmt.Sprintf("%s:%d", sortTag(x.Sort), x.Bits)
		}
		return "sym"
	case Cplx:
		return "(" + ex.showV(x.Re) + "," + ex.showV(x.Im) + ")"
	case StrV:
		return strconv.Quote(x.S)
	case Iface:
		if x.T == nil {
			return "nil"
		}
		if x.T == ex.ld.errorStringPtr {
			return "error"
		}
		if _, isErr := x.V.(Ptr); isErr && types.Implements(x.T, ex.ld.errorIface) {
			return "error"
		}
		return ex.showV(x.V)
	case Slice:
		if x.B == nil {
			return "[]"
		}
		n, ok := termConstInt(x.Len)
		if !ok {
			return "[sym]"
		}
		return fmt.Sprintf("[len %d]", n)
	}
	return fmt.Sprintf("%T", v)
}

func (ex *Exec) sprintf(format string, varargs V) string {
	return format
}

// sortSlice models sort.Slice: an insertion sort driven by the user's less function (forks on symbolic compares).
func (ex *Exec) sortSlice(fr *frame, x Iface, less V, stable bool) V {
	s := x.V.(Slice)
	if s.B == nil {
		return nil
	}
	et := x.T.Underlying().(*types.Slice).Elem()
	n := int(ex.cint(s.Len, "sort.Slice len"))
	for i := 1; i < n; i++ {
		for j := i; j > 0; j-- {
			r := ex.callV(fr, less, []V{ex.c64(int64(j)), ex.c64(int64(j - 1))}, token.NoPos).(*Term)
			if !ex.branch(r, token.NoPos, fr) {
				break
			}
			pj, pk := ex.elemPtr(s.B, s.Off, ex.c64(int64(j)), et), ex.elemPtr(s.B, s.Off, ex.c64(int64(j-1)), et)
			a, b := ex.load(pj, et), ex.load(pk, et)
			ex.store(pj, et, b, nil)
			ex.store(pk, et, a, nil)
		}
	}
	return nil
}

var _ = sort.Ints
