package main

// Native replay of kernel-level counterexamples: a generated external test (package execution_test) calls the kernel
// with the model's inputs and prints every cell afterwards; gosym re-executes the kernel concretely on the same inputs.
// The counterexample counts only if the native cells equal gosym's concrete cells (the encoding is faithful on this
// input) and the table assertion still fails on them.

import (
	"fmt"
	"go/types"
	"os"
	"os/exec"
	"path/filepath"
	"strconv"
	"strings"

	"golang.org/x/tools/go/ssa"
)

func goLit(et types.Type, lit string, imLit string) string {
	bitsOf := func(l string) uint64 {
		if i := strings.Index(l, ":"); i >= 0 {
			l = l[i+1:]
		}
		v, _ := strconv.ParseUint(l, 10, 64)
		return v
	}
	nk := numKind(et)
	tn := types.TypeString(et, nil)
	switch {
	case nk.boolean:
		if bitsOf(lit) != 0 {
			return "true"
		}
		return "false"
	case nk.cplx:
		if nk.w == 8 {
			return fmt.Sprintf("complex(math.Float32frombits(%d), math.Float32frombits(%d))", uint32(bitsOf(lit)), uint32(bitsOf(imLit)))
		}
		return fmt.Sprintf("complex(math.Float64frombits(%d), math.Float64frombits(%d))", bitsOf(lit), bitsOf(imLit))
	case nk.float:
		if nk.w == 4 {
			return fmt.Sprintf("math.Float32frombits(%d)", uint32(bitsOf(lit)))
		}
		return fmt.Sprintf("math.Float64frombits(%d)", bitsOf(lit))
	case nk.signed:
		return fmt.Sprintf("%s(%d)", tn, sext(bitsOf(lit), nk.w*8))
	default:
		return fmt.Sprintf("%s(%d)", tn, bitsOf(lit))
	}
}

func modelLit(m map[string]string, name string) string {
	if v, ok := m[name]; ok {
		return v
	}
	return "u64:0"
}

// kernelNative runs the kernel natively on the model's inputs; returns the printed cells per slice parameter.
func kernelNative(fn *ssa.Function, model map[string]string) (map[string]string, error) {
	k, _ := parseKernelName(fn.Name())
	n := 3
	if k.iter {
		n = 4
	}
	var sb strings.Builder
	sb.WriteString("package execution_test\n\nimport (\n\t\"fmt\"\n\t\"math\"\n\t\"testing\"\n\n\t\"gorgonia.org/tensor\"\n\t\"gorgonia.org/tensor/internal/execution\"\n)\n\nvar _ = math.Abs\nvar _ = tensor.MakeAP\n\n")
	sb.WriteString("func vshow(v interface{}) string {\n\tswitch x := v.(type) {\n\tcase bool:\n\t\tif x {\n\t\t\treturn \"b:1\"\n\t\t}\n\t\treturn \"b:0\"\n\tcase float32:\n\t\treturn fmt.Sprintf(\"f32:%d\", math.Float32bits(x))\n\tcase float64:\n\t\treturn fmt.Sprintf(\"f64:%d\", math.Float64bits(x))\n\tcase complex64:\n\t\treturn \"(\" + vshow(real(x)) + \",\" + vshow(imag(x)) + \")\"\n\tcase complex128:\n\t\treturn \"(\" + vshow(real(x)) + \",\" + vshow(imag(x)) + \")\"\n\tcase int:\n\t\treturn fmt.Sprintf(\"u64:%d\", uint64(x))\n\tcase int8:\n\t\treturn fmt.Sprintf(\"u8:%d\", uint8(x))\n\tcase int16:\n\t\treturn fmt.Sprintf(\"u16:%d\", uint16(x))\n\tcase int32:\n\t\treturn fmt.Sprintf(\"u32:%d\", uint32(x))\n\tcase int64:\n\t\treturn fmt.Sprintf(\"u64:%d\", uint64(x))\n\tcase uint:\n\t\treturn fmt.Sprintf(\"u64:%d\", uint64(x))\n\tcase uint8:\n\t\treturn fmt.Sprintf(\"u8:%d\", x)\n\tcase uint16:\n\t\treturn fmt.Sprintf(\"u16:%d\", x)\n\tcase uint32:\n\t\treturn fmt.Sprintf(\"u32:%d\", x)\n\tcase uint64:\n\t\treturn fmt.Sprintf(\"u64:%d\", x)\n\tcase uintptr:\n\t\treturn fmt.Sprintf(\"u64:%d\", uint64(x))\n\t}\n\treturn fmt.Sprintf(\"%T\", v)\n}\n\n")
	sb.WriteString("func TestVKernel(t *testing.T) {\n")
	var callArgs []string
	var slices []string
	for _, p := range fn.Params {
		switch pt := p.Type().Underlying().(type) {
		case *types.Slice:
			et := pt.Elem()
			var elems []string
			for i := 0; i < n; i++ {
				nm := fmt.Sprintf("%s_%d", p.Name(), i)
				if numKind(et).cplx {
					elems = append(elems, goLit(et, modelLit(model, nm+"_re"), modelLit(model, nm+"_im")))
				} else {
					elems = append(elems, goLit(et, modelLit(model, nm), ""))
				}
			}
			fmt.Fprintf(&sb, "\tp_%s := []%s{%s}\n", p.Name(), types.TypeString(et, nil), strings.Join(elems, ", "))
			callArgs = append(callArgs, "p_"+p.Name())
			slices = append(slices, p.Name())
		case *types.Basic:
			nm := "s_" + p.Name()
			var lit string
			if numKind(p.Type()).cplx {
				lit = goLit(p.Type(), modelLit(model, nm+"_re"), modelLit(model, nm+"_im"))
			} else {
				lit = goLit(p.Type(), modelLit(model, nm), "")
			}
			fmt.Fprintf(&sb, "\tp_%s := %s\n", p.Name(), lit)
			callArgs = append(callArgs, "p_"+p.Name())
		case *types.Interface:
			if p.Name() == "bit" {
				fmt.Fprintf(&sb, "\tap_%s := tensor.MakeAP(tensor.Shape{2, 2}, []int{1, 2}, 0, 0)\n", p.Name())
			} else {
				fmt.Fprintf(&sb, "\tap_%s := tensor.MakeAP(tensor.Shape{%d}, []int{1}, 0, 0)\n", p.Name(), n)
			}
			fmt.Fprintf(&sb, "\tp_%s := tensor.NewIterator(&ap_%s)\n", p.Name(), p.Name())
			callArgs = append(callArgs, "p_"+p.Name())
		}
	}
	call := fmt.Sprintf("execution.%s(%s)", fn.Name(), strings.Join(callArgs, ", "))
	sb.WriteString("\tfunc() {\n\t\tdefer func() {\n\t\t\tif r := recover(); r != nil {\n\t\t\t\tfmt.Printf(\"VKPANIC\\t%v\\n\", r)\n\t\t\t}\n\t\t}()\n")
	if fn.Signature.Results().Len() > 0 {
		fmt.Fprintf(&sb, "\t\tr := %s\n\t\tfmt.Printf(\"VKRET\\t%%v\\n\", vshowRet(r))\n", call)
	} else {
		fmt.Fprintf(&sb, "\t\t%s\n", call)
	}
	sb.WriteString("\t}()\n")
	for _, s := range slices {
		fmt.Fprintf(&sb, "\tfor i, v := range p_%s {\n\t\tfmt.Printf(\"VKCELL\\t%s\\t%%d\\t%%s\\n\", i, vshow(v))\n\t}\n", s, s)
	}
	sb.WriteString("}\n\nfunc vshowRet(r interface{}) string {\n\tswitch x := r.(type) {\n\tcase nil:\n\t\treturn \"nil\"\n\tcase error:\n\t\treturn \"error\"\n\tcase int:\n\t\treturn fmt.Sprintf(\"u64:%d\", uint64(x))\n\t}\n\treturn fmt.Sprintf(\"%v\", r)\n}\n")
	tmp, err := os.MkdirTemp("", "gosym-kernel")
	if err != nil {
		return nil, err
	}
	defer os.RemoveAll(tmp)
	src := filepath.Join(tmp, "k_test.go")
	os.WriteFile(src, []byte(sb.String()), 0o644)
	ov := filepath.Join(tmp, "overlay.json")
	os.WriteFile(ov, []byte(fmt.Sprintf(`{"Replace":{%q:%q}}`, filepath.Join(repoDir, "internal/execution/zz_verif_kernel_test.go"), src)), 0o644)
	cmd := exec.Command("go", "test", "-vet=off", "-count=1", "-overlay", ov, "-run", "^TestVKernel$", "-v", ".")
	cmd.Dir = filepath.Join(repoDir, "internal/execution")
	cmd.Env = append(os.Environ(), "GOFLAGS=-mod=mod", "GOPROXY=off", "GOSUMDB=off", "GOTOOLCHAIN=local")
	out, _ := cmd.CombinedOutput()
	res := map[string]string{}
	seen := false
	for _, line := range strings.Split(string(out), "\n") {
		f := strings.Split(line, "\t")
		switch {
		case len(f) == 4 && f[0] == "VKCELL":
			res[f[1]+"_"+f[2]] = f[3]
			seen = true
		case len(f) == 2 && f[0] == "VKRET":
			res["ret"] = f[1]
		case len(f) >= 2 && f[0] == "VKPANIC":
			res["panic"] = f[1]
			seen = true
		}
	}
	if !seen {
		return nil, fmt.Errorf("kernel replay produced no output:\n%s", tail(string(out), 2000))
	}
	return res, nil
}

// confirmKernel: the counterexample reproduces if gosym's concrete re-execution matches the native cells and still fails.
func confirmKernel(ld *Loaded, c *candidate) (bool, string) {
	kn := strings.TrimPrefix(c.harness, "@kernel:")
	fn := ld.pkgs["gorgonia.org/tensor/internal/execution"].Func(kn)
	if fn == nil {
		return false, "kernel not found"
	}
	nat, err := kernelNative(fn, c.model)
	if err != nil {
		return false, err.Error()
	}
	sol := NewSolver(defaultSolver(), 10000)
	defer sol.Close()
	r := runInstance(ld, sol, Instance{Harness: c.harness, Cfg: c.cfg, Name: c.inst}, runOpts{concrete: c.model, kfOpen: map[string]bool{}})
	if len(r.Aborted) > 0 {
		return false, fmt.Sprintf("concrete re-execution aborted: %v", r.Aborted)
	}
	fails := false
	for _, o := range r.Obls {
		if o.Verdict == "violated" && (o.ID == c.assert) {
			fails = true
		}
	}
	// gosym's concrete cells
	for _, ob := range r.Observe {
		kv := strings.SplitN(ob, "=", 2)
		if len(kv) != 2 {
			continue
		}
		if strings.Contains(kv[1], "sym") {
			// the engine has no concrete value here (an uninterpreted maths routine): nothing to compare - not validated
			return false, "concrete re-execution aborted: symbolic result (uninterpreted routine)"
		}
		if nv, ok := nat[kv[0]]; ok && normNaN(nv) != normNaN(kv[1]) {
			return false, fmt.Sprintf("engine/native disagreement on %s: gosym %s native %s", kv[0], kv[1], nv)
		}
	}
	if _, p := nat["panic"]; p {
		return fails || c.assert == "no-uncaught-panic", "native panic: " + nat["panic"]
	}
	return fails, ""
}

// normNaN maps every NaN bit pattern to one token (NaN payloads are not modelled by the FP theory).
func normNaN(s string) string {
	if strings.HasPrefix(s, "(") {
		parts := strings.Split(strings.Trim(s, "()"), ",")
		for i := range parts {
			parts[i] = normNaN(parts[i])
		}
		return "(" + strings.Join(parts, ",") + ")"
	}
	if strings.HasPrefix(s, "f64:") {
		b, _ := strconv.ParseUint(s[4:], 10, 64)
		if b&0x7ff0000000000000 == 0x7ff0000000000000 && b&0x000fffffffffffff != 0 {
			return "f64:NaN"
		}
	}
	if strings.HasPrefix(s, "f32:") {
		b, _ := strconv.ParseUint(s[4:], 10, 64)
		if b&0x7f800000 == 0x7f800000 && b&0x007fffff != 0 {
			return "f32:NaN"
		}
	}
	return s
}
