package main

// C18 - memory-event log. After the harness calls vShareBarrier(shared...), every store (and every load of library-global
// state) that touches an object which existed at the barrier and is reachable from the shared operands or from package
// globals is recorded with the set of mutexes held. Obligations are raised at the access itself (so the path's model is a
// witness). sync.Pool, channel and map-under-mutex operations are intrinsics of the executor (atomic by their contract).
//
// Reduction (stated in DESIGN.md, C18): a data race needs two accesses to one location, at least one a write, not ordered by
// happens-before. Locations are either private to a goroutine (allocated by it after the barrier, or handed to it by a pool
// with the pool's happens-before edge) or existed at the barrier. If no operation of the menu writes a barrier-time object
// outside a mutex, and no operation reads outside that mutex what another writes inside it, no pair of goroutines running
// menu operations can race, and - no shared location being written - each computes what it computes alone.

import (
	"fmt"
	"go/types"
	"sort"
	"strings"

	"golang.org/x/tools/go/ssa"
)

type evLog struct {
	on      bool
	slots   map[*V]string
	bufs    map[*Buf]string
	maps    map[*MapV]string
	held    []string          // labels of mutexes held
	seen    map[string]bool   // dedup of raised obligations
	writes  map[string]string // label -> lock context ("" = none) of writes to global state
	reads   map[string]bool   // labels of global state read outside any mutex
	nEvents int
}

func (ex *Exec) evReach(v V, label string, depth int) {
	lg := ex.evlog
	if depth > 40 {
		return
	}
	switch x := v.(type) {
	case Ptr:
		if x.S != nil {
			ex.evSlot(x.S, label, depth)
		}
		if x.B != nil {
			ex.evBuf(x.B, label, depth)
		}
	case Slice:
		if x.B != nil {
			ex.evBuf(x.B, label, depth)
		}
	case ArrV:
		ex.evBuf(x.B, label, depth)
	case Struct:
		for i := range x {
			ex.evSlot(&x[i], fmt.Sprintf("%s.%d", label, i), depth)
		}
	case Iface:
		ex.evReach(x.V, label, depth+1)
	case *Closure:
		if x != nil {
			for i := range x.Env {
				ex.evReach(x.Env[i], label+".env", depth+1)
			}
		}
	case *MapV:
		if x != nil {
			if _, ok := lg.maps[x]; !ok {
				lg.maps[x] = label
				for i := range x.Vals {
					ex.evReach(x.Vals[i], label+"[]", depth+1)
				}
			}
		}
	case ProvInt:
		ex.evReach(x.P, label, depth+1)
	case Tuple:
		for i := range x {
			ex.evReach(x[i], label, depth+1)
		}
	}
}

func (ex *Exec) evSlot(s *V, label string, depth int) {
	lg := ex.evlog
	if _, ok := lg.slots[s]; ok {
		return
	}
	lg.slots[s] = label
	ex.evReach(*s, label, depth+1)
}

func (ex *Exec) evBuf(b *Buf, label string, depth int) {
	lg := ex.evlog
	if _, ok := lg.bufs[b]; ok {
		return
	}
	lg.bufs[b] = label + "[]"
	if !isNumCellBuf(b) {
		for i := range b.cells {
			ex.evSlot(&b.cells[i], label+"[]", depth)
		}
	}
}

// shareBarrier classifies everything reachable from the roots (shared operands) and from every package global.
func (ex *Exec) shareBarrier(roots []V) {
	// initialise every package now: initialisers run before any goroutine is started
	var pkgs []*ssa.Package
	for _, p := range ex.ld.pkgs {
		pkgs = append(pkgs, p)
	}
	sort.Slice(pkgs, func(i, j int) bool { return pkgs[i].Pkg.Path() < pkgs[j].Pkg.Path() })
	for _, p := range pkgs {
		path := p.Pkg.Path()
		if strings.HasPrefix(path, "gorgonia.org/") || path == "github.com/chewxy/math32" {
			ex.ensureInit(p)
		}
	}
	lg := &evLog{slots: map[*V]string{}, bufs: map[*Buf]string{}, maps: map[*MapV]string{}, seen: map[string]bool{}, writes: map[string]string{}, reads: map[string]bool{}}
	ex.evlog = lg
	for i, r := range roots {
		ex.evReach(r, fmt.Sprintf("shared:%d", i), 0)
	}
	var gs []*ssa.Global
	for g := range ex.globals {
		gs = append(gs, g)
	}
	sort.Slice(gs, func(i, j int) bool { return gs[i].String() < gs[j].String() })
	for _, g := range gs {
		name := "global:" + g.String()
		if g.Pkg != nil && strings.HasSuffix(g.Pkg.Pkg.Path(), "tensor") && strings.HasPrefix(g.Name(), "v") {
			continue // harness state
		}
		ex.evSlot(ex.globals[g], name, 0)
	}
	// objects parked in pools belong to whoever takes them (pool hand-over is a happens-before edge): not shared
	lg.on = true
}

func (lg *evLog) lockCtx() string { return strings.Join(lg.held, "+") }

func (ex *Exec) evAccess(label string, write bool, guard *Term, what string) {
	lg := ex.evlog
	lg.nEvents++
	ts := ex.ts
	cond := guard
	if cond == nil {
		cond = ts.tru
	}
	if strings.HasPrefix(label, "shared:") {
		if !write {
			return // reading shared operands is what the property allows
		}
		key := "W|" + label
		if lg.seen[key] {
			return
		}
		lg.seen[key] = true
		// the write happens whenever the guard holds on this path
		ex.evObl(ts.Not(cond), "shared-operand-not-written", label)
		ex.hooks.noteC18("shared-write " + label + " (" + what + ")")
		return
	}
	// library-global state
	ctx := lg.lockCtx()
	if write {
		if old, ok := lg.writes[label]; !ok || (old != "" && ctx == "") {
			lg.writes[label] = ctx
		}
		if ctx == "" {
			key := "GW|" + label
			if !lg.seen[key] {
				lg.seen[key] = true
				ex.evObl(ts.Not(cond), "global-state-written-only-under-mutex", label)
				ex.hooks.noteC18("unlocked-global-write " + label + " (" + what + ")")
			}
		}
		return
	}
	if ctx == "" {
		lg.reads[label] = true
	}
}

func (ex *Exec) evStoreSlot(s *V, guard *Term) {
	if lg := ex.evlog; lg != nil && lg.on {
		if l, ok := lg.slots[s]; ok {
			ex.evAccess(l, true, guard, "store")
		}
	}
}

func (ex *Exec) evStoreBuf(b *Buf, guard *Term) {
	if lg := ex.evlog; lg != nil && lg.on {
		if l, ok := lg.bufs[b]; ok {
			ex.evAccess(l, true, guard, "store")
		}
	}
}

func (ex *Exec) evLoadSlot(s *V) {
	if lg := ex.evlog; lg != nil && lg.on {
		if l, ok := lg.slots[s]; ok && strings.HasPrefix(l, "global:") {
			ex.evAccess(l, false, nil, "load")
		}
	}
}

func (ex *Exec) evLoadBuf(b *Buf) {
	if lg := ex.evlog; lg != nil && lg.on {
		if l, ok := lg.bufs[b]; ok && strings.HasPrefix(l, "global:") {
			ex.evAccess(l, false, nil, "load")
		}
	}
}

func (ex *Exec) evMap(m *MapV, write bool) {
	if lg := ex.evlog; lg != nil && lg.on && m != nil {
		if l, ok := lg.maps[m]; ok {
			ex.evAccess(l, write, nil, "map")
		}
	}
}

func (ex *Exec) evLock(p V, lock bool) {
	lg := ex.evlog
	if lg == nil || !lg.on {
		return
	}
	label := "mutex:?"
	if pp, ok := p.(Ptr); ok && pp.S != nil {
		if l, ok := lg.slots[pp.S]; ok {
			label = l
		}
	}
	if lock {
		lg.held = append(lg.held, label)
		return
	}
	for i := len(lg.held) - 1; i >= 0; i-- {
		if lg.held[i] == label {
			lg.held = append(lg.held[:i], lg.held[i+1:]...)
			return
		}
	}
}

var _ = types.Typ

// evObl raises an event obligation without ending or constraining the path. An instance may name an open known finding
// together with the label prefix of the object it concerns (cfg "kf", "kf_label"): only accesses to that object are in the
// finding's region.
func (ex *Exec) evObl(c *Term, id string, label string) {
	ex.oblNoAssume = true
	defer func() { ex.oblNoAssume = false }()
	kf, _ := ex.cfg["kf"].(string)
	pre, _ := ex.cfg["kf_label"].(string)
	if kf != "" && strings.HasPrefix(label, pre) {
		ex.assertObl(c, id, kf, ex.ts.tru)
		return
	}
	ex.assertObl(c, id, "", nil)
}

// objIdentity returns the identity of the object a pooled value refers to (nil when it has none).
func objIdentity(v V) interface{} {
	switch x := v.(type) {
	case Iface:
		return objIdentity(x.V)
	case Ptr:
		if x.S != nil {
			return x.S
		}
		if x.B != nil {
			return x.B
		}
	case Slice:
		if x.B != nil {
			return x.B
		}
	}
	return nil
}

// evPoolPut: an object that is put into a pool while it is already parked there will be handed to two takers - the pool's
// hand-over is then no longer an ownership transfer and two goroutines end up sharing a mutable object.
func (ex *Exec) evPoolPut(items []V, v V, kind string) {
	if ex.evlog == nil || !ex.evlog.on {
		return
	}
	id := objIdentity(v)
	if id == nil {
		return
	}
	for _, it := range items {
		if objIdentity(it) == id {
			ex.evObl(ex.ts.fls, "pool-object-not-put-twice", "pool:"+kind)
			ex.hooks.noteC18("double put into a " + kind)
			return
		}
	}
}
