package main

// If-conversion: a symbolic branch whose two sides are call-free straight-line code that rejoin at the
// branch's immediate post-dominator is executed on BOTH sides under guards (stores become ite-stores,
// phis become ites) instead of forking the path. Anything that would need a fork, a call or a panic
// inside the region makes the attempt roll back, and the branch forks as usual.

import (
	"fmt"
	"go/types"
	"os"
	"strings"

	"golang.org/x/tools/go/ssa"
)

type ifcBail struct{ why string }

type undoRec struct {
	slot  *V
	old   V
	buf   *Buf
	cells []V
	cellW int
	bool_ bool
}

type arrival struct {
	pred  *ssa.BasicBlock
	g     *Term
	ret   V // result value when the arm ended in a return (join == nil)
	isRet bool
}

// ipdoms computes immediate post-dominators of a function's blocks (nil = exit).
func (ex *Exec) ipdoms(fn *ssa.Function) map[*ssa.BasicBlock]*ssa.BasicBlock {
	if m, ok := ex.ipdomCache[fn]; ok {
		return m
	}
	n := len(fn.Blocks)
	// pdom sets as bitsets over block indices, plus virtual exit n
	full := make([]bool, n+1)
	for i := range full {
		full[i] = true
	}
	pd := make([][]bool, n+1)
	for i := 0; i <= n; i++ {
		pd[i] = append([]bool(nil), full...)
	}
	ex0 := make([]bool, n+1)
	ex0[n] = true
	pd[n] = ex0
	succs := func(b *ssa.BasicBlock) []int {
		if len(b.Succs) == 0 {
			return []int{n}
		}
		var r []int
		for _, s := range b.Succs {
			r = append(r, s.Index)
		}
		return r
	}
	changed := true
	for changed {
		changed = false
		for i := n - 1; i >= 0; i-- {
			b := fn.Blocks[i]
			nw := append([]bool(nil), full...)
			for _, s := range succs(b) {
				for k := range nw {
					nw[k] = nw[k] && pd[s][k]
				}
			}
			nw[i] = true
			for k := range nw {
				if nw[k] != pd[i][k] {
					changed = true
				}
			}
			pd[i] = nw
		}
	}
	res := map[*ssa.BasicBlock]*ssa.BasicBlock{}
	for i := 0; i < n; i++ {
		// immediate post-dominator: the strict post-dominator that is post-dominated by all other strict post-dominators
		var best *ssa.BasicBlock
		bestCount := -1
		for k := 0; k < n; k++ {
			if k == i || !pd[i][k] {
				continue
			}
			// count how many strict pdoms of i post-dominate k: the immediate one has the most
			cnt := 0
			for j := 0; j <= n; j++ {
				if j != i && pd[i][j] && pd[k][j] {
					cnt++
				}
			}
			if cnt > bestCount {
				bestCount = cnt
				best = fn.Blocks[k]
			}
		}
		res[fn.Blocks[i]] = best
	}
	ex.ipdomCache[fn] = res
	return res
}

func (ex *Exec) recordUndo(p Ptr) {
	if ex.undo == nil {
		return
	}
	switch {
	case p.S != nil:
		*ex.undo = append(*ex.undo, undoRec{slot: p.S, old: *p.S})
	case p.B != nil:
		for _, u := range *ex.undo {
			if u.buf == p.B {
				return
			}
		}
		*ex.undo = append(*ex.undo, undoRec{buf: p.B, cells: append([]V(nil), p.B.cells...), cellW: p.B.cellW, bool_: p.B.bool_})
	}
}

func (ex *Exec) rollback(log []undoRec) {
	for i := len(log) - 1; i >= 0; i-- {
		u := log[i]
		if u.slot != nil {
			*u.slot = u.old
		} else {
			u.buf.cells = u.cells
			u.buf.cellW = u.cellW
			u.buf.bool_ = u.bool_
		}
	}
}

// tryIfConvert attempts to execute both sides of the branch under guards. On success the frame is positioned at the
// join block with its phis already assigned.
func (fr *frame) tryIfConvert(in *ssa.If, c *Term) (ok bool) {
	ex := fr.ex
	if ex.noIfConv || ex.hooks.concrete != nil {
		return false
	}
	b := fr.block
	join := ex.ipdoms(fr.fn)[b]
	if join == nil && (fr.defers != nil || fr.fn.Recover != nil) {
		return false
	}
	outer := ex.undo
	var log []undoRec
	ex.undo = &log
	ex.ifcDepth++
	savedEnv := fr.snapshotEnvKeys()
	defer func() {
		ex.ifcDepth--
		ex.undo = outer
		if r := recover(); r != nil {
			ok = false
			ex.rollback(log)
			fr.restoreEnvKeys(savedEnv)
			switch r.(type) {
			case ifcBail, goPanic, abortPath:
				ex.ifcBails++
				return
			}
			panic(r)
		}
		if outer != nil && ok {
			*outer = append(*outer, log...)
		}
	}()
	ts := ex.ts
	budget := 64
	arr := fr.runGuarded(b.Succs[0], b, c, join, &budget, map[*ssa.BasicBlock]bool{b: true})
	arr = append(arr, fr.runGuarded(b.Succs[1], b, ts.Not(c), join, &budget, map[*ssa.BasicBlock]bool{b: true})...)
	if join == nil {
		// both sides return: merge the results
		var acc V
		for i := len(arr) - 1; i >= 0; i-- {
			if !arr[i].isRet {
				panic(ifcBail{"arm fell off without return"})
			}
			if i == len(arr)-1 {
				acc = arr[i].ret
			} else if acc == nil && arr[i].ret == nil {
				// no results
			} else {
				acc = ex.iteGeneral(arr[i].g, arr[i].ret, acc)
			}
		}
		if os.Getenv("GOSYM_IFCDEBUG") != "" {
			fmt.Fprintf(os.Stderr, "IFC-RET in %s block %d: %d arrivals\n", fr.fn.Name(), b.Index, len(arr))
			for _, a := range arr {
				fmt.Fprintf(os.Stderr, "   from block %d ret=%v\n", a.pred.Index, ex.showV(a.ret))
			}
		}
		fr.result = acc
		fr.block = nil
		fr.retByIfc = true
		ex.ifcDone++
		return true
	}
	fr.assignPhis(join, arr)
	fr.prevBlock, fr.block = b, join
	fr.skipPhis = true
	ex.ifcDone++
	return true
}

// the SSA environment is restored on a failed attempt: phi assignments made inside the region (e.g. of a loop
// header reached through an inner join) must not leak into the fallback execution
func (fr *frame) snapshotEnvKeys() map[ssa.Value]V {
	m := make(map[ssa.Value]V, len(fr.env))
	for k, v := range fr.env {
		m[k] = v
	}
	return m
}
func (fr *frame) restoreEnvKeys(m map[ssa.Value]V) { fr.env = m }

// assignPhis sets the phis of block j from guarded arrivals.
func (fr *frame) assignPhis(j *ssa.BasicBlock, arr []arrival) {
	ex := fr.ex
	var vals []V
	var phis []*ssa.Phi
	for _, in := range j.Instrs {
		phi, ok := in.(*ssa.Phi)
		if !ok {
			break
		}
		phis = append(phis, phi)
		var acc V
		for i := len(arr) - 1; i >= 0; i-- {
			pi := -1
			for k, p := range j.Preds {
				if p == arr[i].pred {
					pi = k
				}
			}
			if pi < 0 {
				panic(ifcBail{"arrival from a non-predecessor"})
			}
			v := fr.get(phi.Edges[pi])
			if acc == nil {
				acc = v
			} else {
				acc = ex.iteGeneral(arr[i].g, v, acc)
			}
		}
		vals = append(vals, acc)
	}
	for i, phi := range phis {
		fr.env[phi] = vals[i]
	}
}

// iteGeneral merges two values of the same type under a condition; bails out for values that cannot be merged.
func (ex *Exec) iteGeneral(c *Term, a, b V) V {
	switch x := a.(type) {
	case *Term:
		y, ok := b.(*Term)
		if !ok || x.Sort != y.Sort {
			panic(ifcBail{"phi of mixed kinds"})
		}
		return ex.ts.Ite(c, x, y)
	case Cplx:
		y := b.(Cplx)
		return Cplx{ex.ts.Ite(c, x.Re, y.Re), ex.ts.Ite(c, x.Im, y.Im)}
	case StrV:
		return ex.iteStr(c, a, b)
	case Tuple:
		y := b.(Tuple)
		r := make(Tuple, len(x))
		for i := range x {
			r[i] = ex.iteGeneral(c, x[i], y[i])
		}
		return r
	}
	if ex.identicalV(a, b) {
		return a
	}
	panic(ifcBail{"phi of unmergeable values"})
}

func (ex *Exec) identicalV(a, b V) bool {
	switch x := a.(type) {
	case Ptr:
		y, ok := b.(Ptr)
		return ok && x.S == y.S && x.B == y.B && x.Off == y.Off
	case Iface:
		y, ok := b.(Iface)
		if !ok {
			return false
		}
		if x.T == nil || y.T == nil {
			return x.T == nil && y.T == nil
		}
		return types.Identical(x.T, y.T) && ex.identicalV(x.V, y.V)
	case Slice:
		y, ok := b.(Slice)
		return ok && x.B == y.B && x.Off == y.Off && x.Len == y.Len && x.Cap == y.Cap
	case nil:
		return b == nil
	case *Term:
		return a == b
	}
	return false
}

// runGuarded executes block b (entered from pred) under guard g until `join` is reached on every path.
func (fr *frame) runGuarded(b, pred *ssa.BasicBlock, g *Term, join *ssa.BasicBlock, budget *int, seen map[*ssa.BasicBlock]bool) []arrival {
	if b == join {
		return []arrival{{pred: pred, g: g}}
	}
	if seen[b] {
		panic(ifcBail{"loop inside region"})
	}
	seen[b] = true
	defer delete(seen, b)
	if _, isPhi := b.Instrs[0].(*ssa.Phi); isPhi {
		panic(ifcBail{"inner block with phis entered directly"})
	}
	return fr.runGuardedFrom(b, 0, g, join, budget, seen)
}

func (fr *frame) runGuardedFrom(b *ssa.BasicBlock, start int, g *Term, join *ssa.BasicBlock, budget *int, seen map[*ssa.BasicBlock]bool) []arrival {
	ex := fr.ex
	ts := ex.ts
	for _, instr := range b.Instrs[start:] {
		*budget--
		if *budget < 0 {
			panic(ifcBail{"region too large"})
		}
		ex.steps++
		switch in := instr.(type) {
		case *ssa.Return:
			if join != nil {
				panic(ifcBail{"return inside a region with a join"})
			}
			var rv V
			switch len(in.Results) {
			case 0:
			case 1:
				rv = fr.get(in.Results[0])
			default:
				t := make(Tuple, len(in.Results))
				for i, r := range in.Results {
					t[i] = fr.get(r)
				}
				rv = t
			}
			return []arrival{{pred: b, g: g, ret: rv, isRet: true}}
		case *ssa.Jump:
			return fr.runGuarded(b.Succs[0], b, g, join, budget, seen)
		case *ssa.If:
			c2 := ex.simp(fr.get(in.Cond).(*Term))
			if c2.IsConst() {
				k := 1
				if c2.cBool() {
					k = 0
				}
				return fr.runGuarded(b.Succs[k], b, g, join, budget, seen)
			}
			jin := ex.ipdoms(fr.fn)[b]
			if jin == nil {
				if join != nil {
					panic(ifcBail{"inner branch without join"})
				}
				a1 := fr.runGuarded(b.Succs[0], b, ts.And(g, c2), nil, budget, seen)
				a2 := fr.runGuarded(b.Succs[1], b, ts.And(g, ts.Not(c2)), nil, budget, seen)
				return append(a1, a2...)
			}
			a1 := fr.runGuarded(b.Succs[0], b, ts.And(g, c2), jin, budget, seen)
			a2 := fr.runGuarded(b.Succs[1], b, ts.And(g, ts.Not(c2)), jin, budget, seen)
			arr := append(a1, a2...)
			if jin == join {
				return arr
			}
			if seen[jin] {
				panic(ifcBail{"inner join revisited"})
			}
			fr.assignPhis(jin, arr)
			np := 0
			for np < len(jin.Instrs) {
				if _, ok := jin.Instrs[np].(*ssa.Phi); !ok {
					break
				}
				np++
			}
			seen[jin] = true
			defer delete(seen, jin)
			return fr.runGuardedFrom(jin, np, g, join, budget, seen)
		case *ssa.Store:
			p := fr.get(in.Addr).(Ptr)
			ex.recordUndo(p)
			ex.store(p, mustDeref(in.Addr.Type()), fr.get(in.Val), g)
		case *ssa.UnOp, *ssa.BinOp, *ssa.Convert, *ssa.ChangeType, *ssa.FieldAddr, *ssa.IndexAddr, *ssa.Index, *ssa.Field,
			*ssa.Extract, *ssa.MakeInterface, *ssa.ChangeInterface, *ssa.Slice, *ssa.DebugRef, *ssa.Phi, *ssa.TypeAssert, *ssa.Lookup:
			if u, ok := in.(*ssa.UnOp); ok && u.Op.String() == "<-" {
				panic(ifcBail{"channel receive"})
			}
			if _, ok := in.(*ssa.Phi); ok {
				panic(ifcBail{"phi in straight line"})
			}
			fr.visit(instr)
		case *ssa.Call:
			// calls to side-effect-free intrinsics (math routines) are allowed
			callee := in.Call.StaticCallee()
			if callee == nil || in.Call.IsInvoke() {
				panic(ifcBail{"dynamic call in region"})
			}
			name := callee.String()
			if _, isIntr := ex.intr[name]; !isIntr || !(strings.HasPrefix(name, "math.") || strings.HasPrefix(name, "github.com/chewxy/math32.") || strings.HasPrefix(name, "math/cmplx.")) {
				panic(ifcBail{"call in region"})
			}
			fr.visit(instr)
		default:
			panic(ifcBail{"instruction not allowed in an if-converted region"})
		}
	}
	panic(ifcBail{"block without terminator"})
}
