package main

// Solver: one z3 process per worker, SMT-LIB2 over a pipe.

import (
	"bufio"
	"fmt"
	"io"
	"os"
	"os/exec"
	"strconv"
	"strings"
	"time"
)

type Solver struct {
	cmd      *exec.Cmd
	in       io.WriteCloser
	out      *bufio.Reader
	bin      string
	args     []string
	defined  map[int]string // term id -> smt name (valid since last reset)
	poisoned bool           // an "(error" line was seen: every further answer on this path is Unknown, the process is replaced at Reset
	declared map[string]bool
	Queries  int
	Trivial  int
	Time     time.Duration
	timeout  int // ms
	log      io.Writer
	lastQ    string // text of last query assertion (for samples)
	Unknowns int
}

func NewSolver(bin string, timeoutMs int) *Solver {
	s := &Solver{bin: bin, timeout: timeoutMs}
	switch {
	case strings.Contains(bin, "cvc5"):
		s.args = []string{"--incremental", "--lang=smt2", "--produce-models", "--fp-exp"}
	default:
		s.args = []string{"-in"}
	}
	s.start()
	return s
}

func (s *Solver) start() {
	s.cmd = exec.Command(s.bin, s.args...)
	in, _ := s.cmd.StdinPipe()
	out, _ := s.cmd.StdoutPipe()
	s.cmd.Stderr = os.Stderr
	if err := s.cmd.Start(); err != nil {
		panic(fmt.Sprintf("cannot start solver %s: %v", s.bin, err))
	}
	s.in = in
	s.out = bufio.NewReaderSize(out, 1<<16)
	s.Reset()
}

func (s *Solver) Close() {
	if s.cmd != nil {
		s.in.Close()
		s.cmd.Process.Kill()
		s.cmd.Wait()
		s.cmd = nil
	}
}

func (s *Solver) send(str string) {
	if s.log != nil {
		io.WriteString(s.log, str)
	}
	if _, err := io.WriteString(s.in, str); err != nil {
		panic(fmt.Sprintf("solver pipe: %v", err))
	}
}

func (s *Solver) Reset() {
	if s.poisoned {
		// the previous path saw a solver error: its output stream may be out of step - start a fresh process
		s.poisoned = false
		s.restart()
	}
	s.defined = map[int]string{}
	s.declared = map[string]bool{}
	if strings.Contains(s.bin, "cvc5") {
		s.send("(reset)\n(set-logic ALL)\n(set-option :produce-models true)\n")
		s.send(fmt.Sprintf("(set-option :tlimit-per %d)\n", s.timeout))
	} else {
		s.send("(reset)\n")
		s.send(fmt.Sprintf("(set-option :timeout %d)\n", s.timeout))
	}
	s.send("(declare-sort VStr 0)\n")
}

func (s *Solver) restart() {
	s.Close()
	s.start()
}

// name returns the SMT name of t, emitting the definitions it needs (linear in DAG size).
func (s *Solver) name(t *Term) string {
	if n, ok := s.defined[t.id]; ok {
		return n
	}
	var n string
	switch t.Op {
	case OConst:
		n = constSMT(t)
	case OVar:
		n = t.Name
		if !s.declared[n] {
			s.declared[n] = true
			s.send(fmt.Sprintf("(declare-fun %s () %s)\n", n, t.Sort))
		}
	default:
		an := make([]string, len(t.Args))
		for i, a := range t.Args {
			an[i] = s.name(a)
		}
		if t.Op == OFToBV && t.Args[0].Sort.K == SInt {
			if fn := fmt.Sprintf("ringtobits%d", t.Sort.W); !s.declared[fn] {
				s.declared[fn] = true
				s.send(fmt.Sprintf("(declare-fun %s (Int) (_ BitVec %d))\n", fn, t.Sort.W))
			}
		}
		if t.Op == OUF && !s.declared[t.Name] {
			s.declared[t.Name] = true
			var sb strings.Builder
			for _, a := range t.Args {
				sb.WriteString(a.Sort.String())
				sb.WriteString(" ")
			}
			s.send(fmt.Sprintf("(declare-fun %s (%s) %s)\n", t.Name, sb.String(), t.Sort))
		}
		n = "t" + strconv.Itoa(t.id)
		s.send(fmt.Sprintf("(define-fun %s () %s %s)\n", n, t.Sort, smtApp(t, an)))
	}
	s.defined[t.id] = n
	return n
}

// Assert adds t permanently (until Reset).
func (s *Solver) Assert(t *Term) {
	if t.IsConst() && t.cBool() {
		return
	}
	s.send("(assert " + s.name(t) + ")\n")
}

var slowLog = os.Getenv("GOSYM_SLOW") != ""

type Verdict int

const (
	Unsat Verdict = iota
	Sat
	Unknown
)

func (v Verdict) String() string { return [...]string{"unsat", "sat", "unknown"}[v] }

func (s *Solver) readLine() string {
	line, err := s.out.ReadString('\n')
	if err != nil {
		panic(fmt.Sprintf("solver died: %v", err))
	}
	return strings.TrimSpace(line)
}

// Check asks whether (asserted ∧ extra) is satisfiable. If wantModel and sat, values of vars are returned.
func (s *Solver) Check(extra *Term, vars []*Term) (Verdict, map[string]string) {
	s.Queries++
	if s.poisoned {
		s.Unknowns++
		return Unknown, nil
	}
	if extra != nil && extra.IsConst() {
		s.Trivial++
		if !extra.cBool() {
			// still the solver's verdict: send it
			s.send("(push 1)\n(assert false)\n(check-sat)\n(pop 1)\n")
			r := s.readLine()
			if r == "unsat" {
				return Unsat, nil
			}
			if strings.HasPrefix(r, "(error") {
				fmt.Fprintf(os.Stderr, "SOLVER ERROR: %s\n", r)
				s.poisoned = true
			}
			return Unknown, nil
		}
	}
	t0 := time.Now()
	defer func() {
		d := time.Since(t0)
		s.Time += d
		if slowLog && d > 300*time.Millisecond {
			fmt.Fprintf(os.Stderr, "SLOW %v: %s\n", d, s.lastQ)
		}
	}()
	var en string
	if extra != nil {
		en = s.name(extra)
	}
	var vn []string
	for _, v := range vars {
		vn = append(vn, s.name(v))
	}
	s.send("(push 1)\n")
	s.lastQ = ""
	if extra != nil {
		s.lastQ = "(assert " + en + ")"
		s.send("(assert " + en + ")\n")
	}
	s.send("(check-sat)\n")
	r := s.readLine()
	for strings.HasPrefix(r, "(error") || r == "" || r == "unsupported" {
		if strings.HasPrefix(r, "(error") {
			fmt.Fprintf(os.Stderr, "SOLVER ERROR: %s\n", r)
			// an error line means the solver rejected something we sent (possibly a definition much earlier): answers
			// can no longer be matched to queries, so nothing further is believed on this path
			s.poisoned = true
			s.Unknowns++
			return Unknown, nil
		}
		r = s.readLine()
	}
	var model map[string]string
	verdict := Unknown
	switch r {
	case "sat":
		verdict = Sat
		if len(vn) > 0 {
			s.send("(get-value (" + strings.Join(vn, " ") + "))\n")
			txt := s.readSexp()
			model = parseGetValue(txt)
		}
	case "unsat":
		verdict = Unsat
	default:
		s.Unknowns++
	}
	s.send("(pop 1)\n")
	return verdict, model
}

func (s *Solver) readSexp() string {
	var sb strings.Builder
	depth := 0
	started := false
	for {
		line, err := s.out.ReadString('\n')
		if err != nil {
			panic("solver died reading model")
		}
		sb.WriteString(line)
		for _, c := range line {
			if c == '(' {
				depth++
				started = true
			} else if c == ')' {
				depth--
			}
		}
		if started && depth <= 0 {
			break
		}
	}
	return sb.String()
}

// parseGetValue parses "((name value) (name value) ...)" into name -> raw value text.
func parseGetValue(txt string) map[string]string {
	m := map[string]string{}
	toks := tokenize(txt)
	pos := 0
	var parse func() interface{}
	parse = func() interface{} {
		if toks[pos] == "(" {
			pos++
			var l []interface{}
			for toks[pos] != ")" {
				l = append(l, parse())
			}
			pos++
			return l
		}
		t := toks[pos]
		pos++
		return t
	}
	if len(toks) == 0 {
		return m
	}
	top, ok := parse().([]interface{})
	if !ok {
		return m
	}
	for _, e := range top {
		p, ok := e.([]interface{})
		if !ok || len(p) != 2 {
			continue
		}
		name, ok := p[0].(string)
		if !ok {
			continue
		}
		m[name] = sexpString(p[1])
	}
	return m
}

func sexpString(x interface{}) string {
	switch v := x.(type) {
	case string:
		return v
	case []interface{}:
		parts := make([]string, len(v))
		for i, e := range v {
			parts[i] = sexpString(e)
		}
		return "(" + strings.Join(parts, " ") + ")"
	}
	return "?"
}

func tokenize(s string) []string {
	var toks []string
	i := 0
	for i < len(s) {
		c := s[i]
		switch {
		case c == '(' || c == ')':
			toks = append(toks, string(c))
			i++
		case c == ' ' || c == '\n' || c == '\t' || c == '\r':
			i++
		case c == '|':
			j := i + 1
			for j < len(s) && s[j] != '|' {
				j++
			}
			toks = append(toks, s[i:j+1])
			i = j + 1
		default:
			j := i
			for j < len(s) && !strings.ContainsRune("() \n\t\r", rune(s[j])) {
				j++
			}
			toks = append(toks, s[i:j])
			i = j
		}
	}
	return toks
}

// modelBits converts a solver value text into the bits of a constant of the given sort.
func modelBits(txt string, s Sort) (uint64, bool) {
	txt = strings.TrimSpace(txt)
	switch s.K {
	case SBool:
		return map[string]uint64{"true": 1, "false": 0}[txt], txt == "true" || txt == "false"
	case SBV:
		return parseBVLit(txt)
	case SInt:
		if strings.HasPrefix(txt, "(-") {
			v, err := strconv.ParseInt(strings.TrimSpace(strings.Trim(txt[2:], " ()")), 10, 64)
			return uint64(-v), err == nil
		}
		v, err := strconv.ParseInt(txt, 10, 64)
		return uint64(v), err == nil
	case SFP32, SFP64:
		eb, sb := 8, 23
		if s.K == SFP64 {
			eb, sb = 11, 52
		}
		toks := tokenize(txt)
		if len(toks) >= 2 && toks[0] == "(" && toks[1] == "fp" && len(toks) >= 5 {
			sg, ok1 := parseBVLit(toks[2])
			ex, ok2 := parseBVLit(toks[3])
			mn, ok3 := parseBVLit(toks[4])
			return sg<<uint(eb+sb) | ex<<uint(sb) | mn, ok1 && ok2 && ok3
		}
		if len(toks) >= 3 && toks[0] == "(" && toks[1] == "_" {
			expAll := maskW(eb) << uint(sb)
			switch toks[2] {
			case "+zero":
				return 0, true
			case "-zero":
				return 1 << uint(eb+sb), true
			case "+oo":
				return expAll, true
			case "-oo":
				return 1<<uint(eb+sb) | expAll, true
			case "NaN":
				return expAll | 1<<uint(sb-1), true
			}
		}
	}
	return 0, false
}

func parseBVLit(t string) (uint64, bool) {
	if strings.HasPrefix(t, "#x") {
		v, err := strconv.ParseUint(t[2:], 16, 64)
		return v, err == nil
	}
	if strings.HasPrefix(t, "#b") {
		v, err := strconv.ParseUint(t[2:], 2, 64)
		return v, err == nil
	}
	if strings.HasPrefix(t, "(_ bv") {
		f := strings.Fields(t[5:])
		v, err := strconv.ParseUint(f[0], 10, 64)
		return v, err == nil
	}
	return 0, false
}

// defaultSolver: z3 5.1 (z3-new) when present - measured 3-4x faster than 4.8.12 on the sdiv/srem queries - else z3.
func defaultSolver() string {
	if s := os.Getenv("GOSYM_SOLVER"); s != "" {
		return s
	}
	if _, err := exec.LookPath("z3-new"); err == nil {
		return "z3-new"
	}
	return "z3"
}
