package main

// Instance matrices per property.

import (
	"fmt"
	"strings"
)

var allDtypes = []string{"bool", "int", "int8", "int16", "int32", "int64", "uint", "uint8", "uint16", "uint32", "uint64", "uintptr", "float32", "float64", "complex64", "complex128", "string"}
var numDtypes = []string{"int", "int8", "int16", "int32", "int64", "uint", "uint8", "uint16", "uint32", "uint64", "float32", "float64", "complex64", "complex128"}
var ordDtypes = []string{"int", "int8", "int16", "int32", "int64", "uint", "uint8", "uint16", "uint32", "uint64", "float32", "float64"}
var intDtypes = []string{"int", "int8", "int16", "int32", "int64", "uint", "uint8", "uint16", "uint32", "uint64"}
var fltDtypes = []string{"float32", "float64"}
var cpxDtypes = []string{"complex64", "complex128"}

var quickShapes = [][]int{{}, {3}, {1, 3}, {3, 1}, {2, 3}, {2, 1, 2}, {2, 2, 2}}

func thoroughShapes() [][]int {
	var out [][]int
	out = append(out, []int{})
	for a := 1; a <= 3; a++ {
		out = append(out, []int{a})
		for b := 1; b <= 3; b++ {
			out = append(out, []int{a, b})
			for c := 1; c <= 3; c++ {
				out = append(out, []int{a, b, c})
			}
		}
	}
	for m := 0; m < 16; m++ {
		out = append(out, []int{1 + m&1, 1 + (m>>1)&1, 1 + (m>>2)&1, 1 + (m>>3)&1})
	}
	return out
}

func shapeStr(s []int) string {
	p := make([]string, len(s))
	for i, d := range s {
		p[i] = fmt.Sprint(d)
	}
	return "(" + strings.Join(p, ",") + ")"
}

func mkInst(h string, cfg map[string]interface{}, keys ...string) Instance {
	var parts []string
	for _, k := range keys {
		v := cfg[k]
		if s, ok := v.([]int); ok {
			parts = append(parts, shapeStr(s))
		} else {
			parts = append(parts, fmt.Sprint(v))
		}
	}
	return Instance{Harness: h, Cfg: cfg, Name: h + "/" + strings.Join(parts, "/")}
}

func init() {
	props["C01"] = &propDef{
		ID:       "C01",
		Anchored: []string{"Ltoi", ").At", ").SetAt", "CalcStrides", ").Get", ").Set", "WithBacking", "WithShape", "AsFortran", ").fix", ").sanity", "calcStrides"},
		Bounds: map[string]interface{}{"coordinates": "every component symbolic over the full int64 range", "elements": "symbolic, full range of the dtype (FP theory for floats)",
			"shapes": "instantiated: quick = (),(3),(1,3),(3,1),(2,3),(2,1,2),(2,2,2),(1,3,1); thorough = all rank<=3 dims<=3 and rank 4 dims<=2", "symbolic_dims_harness": "rank<=3 (quick) / <=4 (thorough), every dim symbolic in 1..5",
			"arity": "rank-1, rank, rank+1", "layouts": "C, T (default reversal), S (interior unit-step window on axis 0), TS, PP (two successive lazy transposes by an axis rotation, rank>=3)", "construction": "row-major, AsFortran(nil) over raw backing in three option orders, AsFortran(backing)"},
		Assume: []string{"user-registered dtypes and non-StdEng engines are outside the claim"},
		Instances: func(tier string, seed int64) []Instance {
			var out []Instance
			shapes := append(append([][]int{}, quickShapes...), []int{1, 3, 1}) // (+ a vector-like rank-3 shape)
			dts := []string{"bool", "int", "int8", "uint16", "float32", "float64", "complex128", "string"}
			if tier == "thorough" {
				shapes = thoroughShapes()
				dts = allDtypes
			}
			for si, sh := range shapes {
				for di, dt := range dts {
					for _, variant := range []string{"row", "fraw", "fconv", "fraw2", "fraw3"} {
						for _, lay := range []string{"C", "T", "S", "TS", "PP"} {
							if (lay == "S") && (len(sh) == 0 || sh[0] < 2) {
								continue
							}
							if lay == "PP" && (len(sh) < 3 || variant != "row") {
								continue // (a second lazy transpose moves the data; for column-major tensors that is C03's open finding)
							}
							if (variant == "fraw2" || variant == "fraw3") && (len(sh) < 2 || (tier == "quick" && lay != "C" && lay != "S")) {
								continue
							}
							if lay == "TS" && (len(sh) == 0 || sh[len(sh)-1] < 2) {
								continue
							}
							if lay == "T" && len(sh) < 2 {
								continue
							}
							if tier == "quick" {
								// pairwise-style thinning: all dtypes on row/C, rotating subset elsewhere
								keep := (variant == "row" && lay == "C") || (si+di)%4 == 0 || (lay == "PP" && variant == "row" && di%3 == 0)
								// every element-size class goes through the converting constructor on a non-square shape
								if variant == "fconv" && (lay == "C" || lay == "T") && len(sh) == 2 && sh[0] == 2 && sh[1] == 3 {
									keep = true
								}
								if !keep {
									continue
								}
							}
							for _, ad := range []int{0, -1, 1} {
								if ad != 0 && !(lay == "C" && (tier == "thorough" || variant == "row")) {
									continue
								}
								if ad == -1 && len(sh) == 0 {
									continue
								}
								for _, h := range []string{"vhC01At", "vhC01SetAt"} {
									out = append(out, mkInst(h, map[string]interface{}{"dtype": dt, "shape": sh, "variant": variant, "layout": lay, "arity_delta": ad}, "dtype", "shape", "variant", "layout", "arity_delta"))
								}
							}
						}
					}
				}
			}
			maxRank := 3
			if tier == "thorough" {
				maxRank = 4
			}
			for r := 1; r <= maxRank; r++ {
				for _, o := range []string{"row", "col"} {
					out = append(out, mkInst("vhC01Strides", map[string]interface{}{"rank": r, "order": o, "maxdim": 5}, "rank", "order"))
				}
			}
			return out
		},
	}
}

func init() {
	props["C02"] = &propDef{
		ID:       "C02",
		Anchored: []string{").S", "SliceDetails", "CheckSlice", ").Slice", "sliceInto", "Narrow", ").Materialize", "tensor.S"},
		Bounds: map[string]interface{}{"triples": "start, end, step of every ranged axis symbolic in [-box, dim+box] (box 3 quick rank 1, 2 otherwise), step >= 0; single indices symbolic over full int64",
			"view_coordinate": "symbolic over the whole result box", "elements": "symbolic",
			"parent_shapes": "quick (5), (3,4), (2,3,2) ; thorough adds (4), (2,5), (4,3), (3,2,2), (2,2,3) and two ranged axes at once", "parent_recipes": "C, F, T, window, window-of-transpose, transpose-of-window, window-of-step-slice (depth 3)",
			"kinds": "per axis nil / range / single index, incl. fewer slices than axes; quick has one symbolic range per instance", "negative_steps": "outside the claim (not defined by the statement)"},
		Instances: func(tier string, seed int64) []Instance {
			var out []Instance
			type rec struct{ base, pre string }
			recs := []rec{{"C", ""}, {"F", ""}, {"C", "T"}, {"C", "W"}, {"C", "WT"}, {"C", "TW"}, {"C", "PW"}, {"F", "W"}}
			type shp struct {
				s     []int
				kinds []string
				box   int
			}
			shapes := []shp{
				{[]int{5}, []string{"r", "i"}, 3},
				{[]int{3, 4}, []string{"rn", "nr", "ri", "ir", "r", "i", "ii", "in", "ni"}, 2},
				{[]int{2, 3, 2}, []string{"nrn", "inr", "rii", "ni"}, 2},
			}
			if tier == "thorough" {
				shapes = append(shapes,
					shp{[]int{4}, []string{"r", "i"}, 3},
					shp{[]int{3, 4}, []string{"rr"}, 2},
					shp{[]int{2, 5}, []string{"nr", "rn", "ir", "ri"}, 2},
					shp{[]int{4, 3}, []string{"nr", "rn", "rr"}, 2},
					shp{[]int{3, 2, 2}, []string{"rnn", "nrn", "nnr", "rni", "irn"}, 2},
					shp{[]int{2, 2, 3}, []string{"nnr", "nrr", "rin"}, 2},
				)
			}
			for _, sh := range shapes {
				for ri, r := range recs {
					if len(sh.s) == 1 && (r.pre == "T" || r.pre == "WT" || r.pre == "TW" || r.pre == "PW") {
						continue
					}
					for ki, k := range sh.kinds {
						if tier == "quick" && len(sh.s) == 3 && (ri+ki)%3 != 0 {
							continue
						}
						if tier == "quick" && len(sh.s) == 2 && ri >= 2 && (ri+ki)%2 != 0 {
							continue
						}
						dts := []string{"int"}
						if ri < 2 && ki == 0 {
							dts = []string{"int", "int8", "complex128", "string", "float32"}
						}
						for _, dt := range dts {
							mat := 0
							if ki == 0 && dt == "int" {
								mat = 1
							}
							out = append(out, mkInst("vhC02Slice", map[string]interface{}{"dtype": dt, "shape": sh.s, "base": r.base, "pre": r.pre, "kinds": k, "box": sh.box, "mat": mat, "splitstep": 0},
								"dtype", "shape", "base", "pre", "kinds"))
						}
					}
				}
			}
			return out
		},
	}
}

func init() {
	props["C03"] = &propDef{
		ID:       "C03",
		Anchored: []string{").T", ").UT", ").Transpose", ").SafeT", ").RollAxis", "UnsafePermute", "denseTranspose", "transposeMask", "IsMonotonicInts", "tensor.T", "TransposeIndex"},
		Bounds: map[string]interface{}{"axes": "every entry of every axes vector symbolic in [-1, rank]; permutations enumerated by solver-driven splitting after the call (complete: final unsat query); RollAxis (axis,start) symbolic in [-1, rank+1]",
			"elements": "symbolic", "shapes": "quick: (3),(2,3),(3,1),(1,3),(2,3,2),(2,2,3),(1,3,1),(3,1,1),(1,1,2,1); thorough adds (2,2,2),(3,2,2),(2,1,3),(2,2,3,2),(2,1,2,2),(2,2,1,2,2)",
			"programs": "sequences over {T(sym), T(), UT, Transpose, Materialize, SafeT(sym), tensor.T(sym), RollAxis(sym)} of length <=3 (quick <=2 on rank 3)", "element_sizes": "1,2,4,8,16 bytes and string", "sources": "contiguous, sliced view, column-major",
			"invalid_axes": "outside the statement: nothing asserted"},
		Instances: func(tier string, seed int64) []Instance {
			var out []Instance
			type sp struct {
				s     []int
				progs []string
			}
			p2 := []string{"T", "D", "TU", "TX", "DX", "TM", "S", "Z", "R", "RU", "TT", "TXT", "TXU", "DTX", "RX", "ST"}
			p3 := []string{"T", "TU", "TX", "TM", "S", "R", "RU", "TT", "DT", "TD", "RX", "TTX"}
			shapes := []sp{{[]int{3}, []string{"T", "D", "TX", "S", "R"}}, {[]int{2, 3}, p2}, {[]int{3, 1}, p2}, {[]int{1, 3}, []string{"T", "TX", "TT", "S", "R", "DX"}},
				{[]int{2, 3, 2}, p3}, {[]int{2, 2, 3}, []string{"TT", "TX", "S", "R", "TXT"}},
				// vector-like shapes of rank 3-4 (one non-unit axis): the "vector" fast paths of T/Transpose
				{[]int{1, 3, 1}, []string{"TT", "TX", "TD", "R"}}, {[]int{3, 1, 1}, []string{"TT", "TXT"}}, {[]int{1, 1, 2, 1}, []string{"T", "TX"}}}
			if tier == "thorough" {
				p3t := append(append([]string{}, p3...), "TXT", "TXU", "Z", "RT", "TR", "DX", "SX")
				shapes = append(shapes, sp{[]int{2, 2, 2}, p3t}, sp{[]int{3, 2, 2}, p3t}, sp{[]int{2, 1, 3}, p3t}, sp{[]int{2, 3, 2}, p3t},
					sp{[]int{2, 2, 3, 2}, []string{"T", "TX", "TU", "S", "R", "TM"}}, sp{[]int{2, 1, 2, 2}, []string{"T", "TX", "R", "TT"}}, sp{[]int{2, 2, 1, 2, 2}, []string{"D", "DX", "R"}})
			}
			dts := []string{"float64", "int8", "int16", "float32", "complex128", "string"}
			for si, sh := range shapes {
				for pi, prog := range sh.progs {
					for bi, base := range []string{"C", "S", "F"} {
						if base == "S" && sh.s[len(sh.s)-1] < 2 {
							continue
						}
						for di, dt := range dts {
							if tier == "quick" {
								// all size classes on the data-moving programs of contiguous sources; one rotating dtype elsewhere
								moves := strings.ContainsAny(prog, "XMSZ")
								if !(base == "C" && moves && len(prog) <= 2) && di != (si+pi+bi)%len(dts) {
									continue
								}
								if base != "C" && len(sh.s) == 3 && len(prog) >= 2 && (pi+bi)%2 == 0 {
									continue
								}
							} else if di != (si+pi+bi)%len(dts) && !(base == "C" && len(prog) <= 2) {
								continue
							}
							out = append(out, mkInst("vhC03Prog", map[string]interface{}{"dtype": dt, "shape": sh.s, "base": base, "prog": prog, "storage": 1, "safeut": 1}, "dtype", "shape", "base", "prog"))
						}
					}
				}
			}
			if tier == "thorough" {
				for _, sh := range [][]int{{2, 3}, {2, 3, 2}, {2, 2, 3}} {
					for _, prog := range []string{"TX", "DX", "TXT", "TTX"} {
						for _, dt := range []string{"float64", "int8", "complex128"} {
							out = append(out, mkInst("vhC03Prog", map[string]interface{}{"dtype": dt, "shape": sh, "base": "C", "prog": prog, "storage": 1, "safeut": 1, "tags": "inplacetranspose"}, "dtype", "shape", "base", "prog", "tags"))
						}
					}
				}
			}
			return out
		},
	}
}

func init() {
	props["C05"] = &propDef{
		ID:       "C05",
		Anchored: []string{"FlatIterator", "FlatMaskedIterator", "MultIterator", "newFlatIterator", "hashIntArray", "genIterator", "BroadcastStrides", "IteratorFromDense"},
		Bounds: map[string]interface{}{"ap_level": "rank 1-3 (thorough 4), every dim symbolic in 1..3 (rank 4: 1..2) enumerated by solver splitting, every stride symbolic in [0,7] (or all 1 for the vector-like fast path); programs over {fresh pass, Reset after exhaustion, SetForward, SetReverse, partial pass of symbolic length then Reset}",
			"masks": "every mask bit symbolic over <=6 (quick) / <=8 (thorough) elements; valid / invalid / validity stepping, forward and reverse", "dense_level": "iterators taken from real tensors of layouts C,F,T,S,SS,M incl. vector-like shapes; offsets compared with the strides At uses and with the elements",
			"multi": "2-3 equally shaped operands with different layouts (concrete strides: these instances are reported as concrete_only)", "loop_unwind": "trip counts concrete after dim splitting (<=27 yields + 2)"},
		Instances: func(tier string, seed int64) []Instance {
			var out []Instance
			progs := []string{"n", "nx", "F", "R", "nxF", "FR", "RF", "pF", "pR", "RxR", "RpR", "nR"}
			maxRank := 3
			if tier == "thorough" {
				maxRank = 4
				progs = append(progs, "FxF", "RFR", "pRpF", "FpR", "nxFR")
			}
			for r := 1; r <= maxRank; r++ {
				md := 3
				if r == 4 {
					md = 2
				}
				for _, p := range progs {
					for _, ones := range []int{0, 1} {
						if tier == "quick" && r == 3 && len(p) == 3 && ones == 0 {
							continue
						}
						out = append(out, mkInst("vhC05Flat", map[string]interface{}{"rank": r, "maxdim": md, "prog": p, "ones": ones}, "rank", "prog", "ones"))
						if r <= 2 && (p == "F" || p == "R" || p == "nR" || p == "RF") {
							// the same passes driven by NextValid / NextValidity of the unmasked iterator
							for _, st := range []string{"valid", "validity"} {
								out = append(out, mkInst("vhC05Flat", map[string]interface{}{"rank": r, "maxdim": md, "prog": p, "ones": ones, "step": st}, "rank", "prog", "ones", "step"))
							}
						}
					}
				}
			}
			// masked
			mshapes := [][]int{{}, {4}, {3, 1}, {1, 3}, {2, 3}, {2, 1, 2}}
			if tier == "thorough" {
				mshapes = append(mshapes, []int{8}, []int{2, 4}, []int{2, 2, 2}, []int{1, 1, 5})
			}
			for _, sh := range mshapes {
				for _, mode := range []string{"valid", "invalid", "validity"} {
					for _, rev := range []int{0, 1} {
						out = append(out, mkInst("vhC05Masked", map[string]interface{}{"shape": sh, "mode": mode, "reverse": rev}, "shape", "mode", "reverse"))
					}
				}
			}
			// dense level
			dshapes := [][]int{{}, {3}, {1, 3}, {3, 1}, {2, 3}, {2, 1, 2}, {2, 2, 2}, {1, 1, 3}, {1, 3, 1}, {3, 1, 1}}
			if tier == "thorough" {
				dshapes = append(dshapes, []int{2, 2, 1, 2}, []int{1, 2, 3, 1}, []int{3, 2, 2})
			}
			for _, sh := range dshapes {
				for _, lay := range []string{"C", "F", "T", "S", "SS", "M"} {
					if len(sh) == 0 && lay != "C" {
						continue
					}
					if (lay == "S" || lay == "SS" || lay == "M") && (len(sh) == 0 || sh[len(sh)-1] < 2) {
						continue
					}
					for _, lt := range []int{0, 1} {
						if lt == 1 && (lay == "T" || len(sh) < 2) {
							continue
						}
						out = append(out, mkInst("vhC05Dense", map[string]interface{}{"shape": sh, "layout": lay, "prog": "nFR", "lazyT": lt}, "shape", "layout", "lazyT"))
					}
				}
			}
			// multi-iterator
			lays := []string{"C", "F", "T", "S", "SS"}
			for _, sh := range [][]int{{2, 3}, {3}, {2, 2, 2}, {3, 1}, {1, 3}} {
				for i, la := range lays {
					for j, lb := range lays {
						if (la == "S" || la == "SS" || lb == "S" || lb == "SS") && sh[len(sh)-1] < 2 {
							continue
						}
						if tier == "quick" && len(sh) != 2 && (i+j)%2 == 0 {
							continue
						}
						out = append(out, mkInst("vhC05Mult", map[string]interface{}{"shape": sh, "la": la, "lb": lb, "lc": ""}, "shape", "la", "lb"))
						if i == j+1 {
							out = append(out, mkInst("vhC05Mult", map[string]interface{}{"shape": sh, "la": la, "lb": lb, "lc": "T"}, "shape", "la", "lb", "lc"))
						}
					}
				}
			}
			return out
		},
	}
}

func init() {
	props["C04"] = &propDef{
		ID:       "C04",
		Anchored: []string{").Memset", ").Zero", "memsetIter", "zeroIter", "copyDense", "CopyIter", "tensor.Copy", ").Clone", ").Materialize", ").CopyTo", "RequiresIterator", "IsMaterializable", "sliceInto", ").Slice", "native.", "FromMat64", "ToMat64", "convFromFloat64s"},
		Bounds: map[string]interface{}{"parents": "(5), (3,4), (4,3), (2,3,2) quick; + (4,4), (2,2,3), (3,2,2,2) thorough; row- and column-major", "views": "one sliced axis with (start,end,step) enumerated by the solver over all valid triples with step<=3 (outside the open C02 findings), lazy transpose, slice of a lazy transpose",
			"writes": "Memset, Zero, SetAt sweep, Copy into the view (source layouts C,T,S), unsafe Neg, unsafe Add tensor/scalar", "data": "all parent cells (sentinels), written values and source operands symbolic",
			"copies": "Clone, Materialize, Copy, CopyTo over layouts C,F,T,S,SS,M (+ lazily transposed), element sizes 1-16 and string", "native": "package native typed Vector/Matrix/Tensor3/Select and the reflect-based generic Vector/Matrix/Tensor3 x {U8,I32,F64,C128,Str} (all 16 types thorough) x layouts C,F,T,S,SS(,M) on shapes (3),(2,3),(3,1),(2,3,2),(2,2,3) (+7 thorough incl. rank 4 and scalar)", "frommat64": "FromMat64 x 12 real numeric target types x safe/unsafe on (2,2) (+ (1,3),(3,2) thorough), matrix data symbolic float64; float->integer conversions outside the target range are implementation-defined in Go and assumed away, NaN/Inf -> 0 as convFromFloat64s documents", "not_covered": "complex targets of FromMat64"},
		Instances: func(tier string, seed int64) []Instance {
			var out []Instance
			type par struct {
				s    []int
				axes []int
			}
			pars := []par{{[]int{5}, []int{0}}, {[]int{3, 4}, []int{0, 1}}, {[]int{4, 3}, []int{1}}, {[]int{2, 3, 2}, []int{1, 2}}}
			if tier == "thorough" {
				pars = append(pars, par{[]int{4, 4}, []int{0, 1}}, par{[]int{2, 2, 3}, []int{0, 2}}, par{[]int{2, 3, 2}, []int{0}}, par{[]int{3, 2, 2, 2}, []int{0, 3}})
			}
			writes := []string{"memset", "zero", "setat", "copy", "neg", "add", "addscalar", "sub", "mul"}
			n := 0
			for _, p := range pars {
				for _, base := range []string{"C", "F"} {
					for _, view := range []string{"slice", "T", "Tslice"} {
						if len(p.s) < 2 && view != "slice" {
							continue
						}
						axes := p.axes
						if view == "T" {
							axes = []int{0}
						}
						for _, ax := range axes {
							for wi, w := range writes {
								dts := []string{"float64"}
								if w == "memset" || w == "zero" || w == "copy" || w == "setat" {
									dts = []string{"float64", "int8", "int16", "float32", "complex128", "string", "bool"}
								} else if w == "sub" || w == "mul" {
									dts = []string{"int", "int16", "float32", "int64", "uint8"}
								} else {
									dts = []string{"float64", "int", "int8", "complex128"}
								}
								for di, dt := range dts {
									n++
									if tier == "quick" {
										full := base == "C" && view == "slice" && len(p.s) == 2 && p.s[0] == 3
										if !full && (n+wi+di)%5 != 0 {
											continue
										}
										if (w == "sub" || w == "mul") && !full && (n+di)%3 != 0 {
											continue
										}
									} else if base == "F" && (n+di)%2 != 0 {
										continue
									}
									srcl := []string{"C", "T", "S"}[(n+wi)%3]
									out = append(out, mkInst("vhC04Frame", map[string]interface{}{"dtype": dt, "shape": p.s, "base": base, "view": view, "axis": ax, "write": w, "srclayout": srcl},
										"dtype", "shape", "base", "view", "axis", "write", "srclayout"))
								}
							}
							for di, dt := range []string{"float64", "int", "int8", "complex128", "string"} {
								if tier == "quick" && (n+di)%3 != 0 {
									continue
								}
								out = append(out, mkInst("vhC04Alias", map[string]interface{}{"dtype": dt, "shape": p.s, "base": base, "view": view, "axis": ax}, "dtype", "shape", "base", "view", "axis"))
							}
						}
					}
				}
			}
			cshapes := [][]int{{}, {3}, {2, 3}, {3, 1}, {2, 2, 2}}
			if tier == "thorough" {
				cshapes = append(cshapes, []int{1, 3}, []int{2, 1, 2}, []int{2, 3, 2}, []int{2, 2, 1, 2})
			}
			for si, sh := range cshapes {
				for li, lay := range []string{"C", "F", "T", "S", "SS", "M"} {
					if len(sh) == 0 && lay != "C" {
						continue
					}
					if (lay == "S" || lay == "SS" || lay == "M") && (len(sh) == 0 || sh[len(sh)-1] < 2) {
						continue
					}
					for _, lt := range []int{0, 1} {
						if lt == 1 && (lay == "T" || len(sh) < 2) {
							continue
						}
						for oi, op := range []string{"clone", "materialize", "copy", "copyto", "safet", "apitranspose"} {
							for di, dt := range []string{"float64", "bool", "int8", "int16", "float32", "complex128", "string"} {
								if tier == "quick" && (si+li+oi+di+lt)%4 != 0 {
									continue
								}
								if op == "copyto" && (lt == 1 || lay == "T") {
									continue // CopyTo is documented as a raw copy that ignores metadata: lazily transposed sources are outside the comparison
								}
								out = append(out, mkInst("vhC04Copy", map[string]interface{}{"dtype": dt, "shape": sh, "layout": lay, "lazyT": lt, "op": op}, "dtype", "shape", "layout", "lazyT", "op"))
							}
						}
						// (1,n) step-sliced row vectors: the transposing copies and conversions (open finding KF-C03-stridedvecT)
						if tier == "quick" && si == 0 && li == 0 && lt == 0 {
							for _, op := range []string{"safet", "apitranspose", "clone"} {
								for _, l2 := range []int{0, 1} {
									out = append(out, mkInst("vhC04Copy", map[string]interface{}{"dtype": "float64", "shape": []int{1, 3}, "layout": "SS", "lazyT": l2, "op": op}, "dtype", "shape", "layout", "lazyT", "op"))
								}
							}
							out = append(out, mkInst("vhC04Copy", map[string]interface{}{"dtype": "float64", "shape": []int{1, 3}, "layout": "SS", "lazyT": 1, "op": "tomat64"}, "dtype", "shape", "layout", "lazyT", "op"))
						}
						// conversion to a gonum matrix (a copy in safe mode): matrices of the real numeric dtypes, every layout
						if len(sh) == 2 || (len(sh) == 3 && li == 0 && lt == 0) {
							for di, dt := range []string{"float64", "float32", "int8", "int16", "int", "uint8", "uint16", "int32", "int64", "uint32", "uint", "uint64"} {
								if tier == "quick" && di > 1 && (si+li+di+lt)%3 != 0 && !(li == 0 && lt == 0 && len(sh) == 2) {
									continue
								}
								out = append(out, mkInst("vhC04Copy", map[string]interface{}{"dtype": dt, "shape": sh, "layout": lay, "lazyT": lt, "op": "tomat64"}, "dtype", "shape", "layout", "lazyT", "op"))
							}
						}
					}
				}
			}
			// conversion from a gonum matrix: every real numeric target type, safe and unsafe
			for _, dt := range []string{"float64", "float32", "int", "int8", "int16", "int32", "int64", "uint", "uint8", "uint16", "uint32", "uint64"} {
				shs := [][]int{{2, 2}}
				if tier == "thorough" {
					shs = append(shs, []int{1, 3}, []int{3, 2})
				}
				for _, sh := range shs {
					for _, mode := range []string{"", "unsafe"} {
						out = append(out, mkInst("vhC04FromMat", map[string]interface{}{"dtype": dt, "shape": sh, "mode": mode}, "dtype", "shape", "mode"))
					}
				}
			}
			out = append(out, nativeInstances(tier, "C04")...)
			return out
		},
	}
}

var arithOps = []string{"Add", "Sub", "Mul", "Div", "Mod", "Pow", "MinBetween", "MaxBetween"}
var opndLayouts = []string{"C", "T", "S", "SS", "M"}

func layoutOK(sh []int, lay string) bool {
	if len(sh) == 0 {
		return lay == "C"
	}
	if lay == "S" || lay == "SS" || lay == "M" {
		return sh[len(sh)-1] > 1
	}
	return true
}

func init() {
	props["C06"] = &propDef{
		ID:       "C06",
		Anchored: []string{"tensor.Add", "tensor.Sub", "tensor.Mul", "tensor.Div", "tensor.Mod", "tensor.Pow", "MinBetween", "MaxBetween", "binaryCheck", "prepDataVV", "prepDataVS", "prepDataSV", "handleFuncOpts", "scalarToHeader", "execution.E)", "execution.Vec", "execution.Add", "execution.Sub", "execution.Mul", "execution.Div", "execution.Mod", "execution.Pow", "vecf64", "vecf32"},
		Bounds: map[string]interface{}{"elements_and_scalar": "symbolic over the full range of the dtype (bit-vectors wrap; floats in the FP theory incl. NaN, +-Inf, +-0)",
			"matrix_quick":    "every op x 14 numeric dtypes x {TT,TS,ST} on contiguous (2,2); every op x dtype on the one-element shapes () (1) (1,1); all 25 operand layout pairs {C,T,S,SS,M}^2 for {int64,float64,int8,complex128}x{Add,Sub,Div,Mul} on (2,3); function and method entry points",
			"matrix_thorough": "every op x dtype x form x layout pair on (2,2),(2,3),(3),(2,1,2),(1,3)", "transcendental": "Pow/Mod on floats and complex Pow/Div are uninterpreted functions of the element type's math routine (exact small-exponent identities accepted for float Pow)",
			"int_mod_zero": "assumed away (Go's % panics; not defined by the statement); int Div by zero: error without panic is asserted", "float_minmax_nan": "assumed away"},
		Instances: func(tier string, seed int64) []Instance {
			var out []Instance
			add := func(dt, op, form string, sh []int, la, lb, api string) {
				if !layoutOK(sh, la) || (form == "TT" && !layoutOK(sh, lb)) {
					return
				}
				if api == "method" && (op == "MinBetween" || op == "MaxBetween") {
					return
				}
				out = append(out, mkInst("vhC06Bin", map[string]interface{}{"dtype": dt, "op": op, "form": form, "shape": sh, "la": la, "lb": lb, "api": api}, "dtype", "op", "form", "shape", "la", "lb", "api"))
			}
			if tier == "quick" {
				n := 0
				for _, op := range arithOps {
					for _, dt := range numDtypes {
						for _, form := range []string{"TT", "TS", "ST"} {
							n++
							api := []string{"func", "method"}[n%2]
							add(dt, op, form, []int{2, 2}, "C", "C", api)
						}
						// one-element operands take special dispatch paths
						for si, sh := range [][]int{{}, {1}, {1, 1}} {
							add(dt, op, []string{"TT", "TS", "ST"}[(n+si)%3], sh, "C", "C", []string{"func", "method"}[(n+si)%2])
						}
						add(dt, op, "TT", []int{1}, "C", "C", "func")
					}
				}
				for _, dt := range []string{"int64", "float64", "int8", "complex128", "int32", "float32", "uint16"} {
					for _, op := range []string{"Add", "Sub", "Div", "Mul"} {
						for i, la := range opndLayouts {
							for j, lb := range opndLayouts {
								if (dt == "int32" || dt == "float32" || dt == "uint16" || dt == "complex128" || dt == "int8") && (i+j)%3 != 0 && !(la != lb && (la == "C" || lb == "C")) {
									continue
								}
								add(dt, op, "TT", []int{2, 3}, la, lb, []string{"func", "method"}[(i+j)%2])
							}
							add(dt, op, "TS", []int{2, 3}, la, "C", "func")
							add(dt, op, "ST", []int{2, 3}, la, "C", "method")
						}
					}
				}
				// Mod, Pow and the two Between operations are separate copies of the engine method: every form over every operand layout
				for oi, op := range []string{"Mod", "Pow", "MinBetween", "MaxBetween"} {
					for i, la := range opndLayouts {
						dt := []string{"int64", "float64", "int16", "float32"}[(oi+i)%4]
						if op == "Pow" {
							dt = []string{"float64", "float32"}[i%2]
						}
						add(dt, op, "TS", []int{2, 3}, la, "C", "func")
						add(dt, op, "ST", []int{2, 3}, la, "C", "func")
						add(dt, op, "TT", []int{2, 3}, la, opndLayouts[(i+oi+1)%len(opndLayouts)], "func")
						add(dt, op, "TT", []int{2, 3}, opndLayouts[(i+oi+2)%len(opndLayouts)], la, "func")
					}
				}
				for _, sh := range [][]int{{3}, {1, 3}, {3, 1}, {2, 1, 2}} {
					for i, op := range arithOps {
						add([]string{"int", "float64", "uint8", "float32"}[i%4], op, "TT", sh, opndLayouts[i%5], opndLayouts[(i+2)%5], "func")
					}
				}
			} else {
				for _, op := range arithOps {
					for _, dt := range numDtypes {
						for _, form := range []string{"TT", "TS", "ST"} {
							for _, sh := range [][]int{{2, 2}, {2, 3}, {3}, {2, 1, 2}, {1, 3}, {}, {1}, {1, 1}} {
								for _, la := range opndLayouts {
									lbs := opndLayouts
									if form != "TT" {
										lbs = []string{"C"}
									}
									for _, lb := range lbs {
										for _, api := range []string{"func", "method"} {
											add(dt, op, form, sh, la, lb, api)
										}
									}
								}
							}
						}
					}
				}
			}
			for _, op := range []string{"Add", "Sub", "Mul", "Div", "Pow", "Mod", "MinBetween"} {
				for _, kind := range []string{"shape-size", "shape-rank", "shape-rank3", "dtype", "dtype-int", "dtype-scalar", "class-bool", "class-string"} {
					for _, api := range []string{"func", "method"} {
						if api == "method" && op == "MinBetween" {
							continue
						}
						if kind == "class-string" && op == "MinBetween" {
							continue // strings are ordered: min/max of strings is inside the documented class
						}
						out = append(out, mkInst("vhC06Refuse", map[string]interface{}{"op": op, "kind": kind, "api": api}, "op", "kind", "api"))
					}
				}
			}
			return out
		},
	}
}

var cmpOps = []string{"Lt", "Gt", "Lte", "Gte", "ElEq", "ElNe"}
var unaryOps = []string{"Neg", "Inv", "Square", "Cube", "Abs", "Sign", "Clamp", "Sqrt", "Cbrt", "InvSqrt", "Exp", "Log", "Log2", "Log10", "Tanh"}

func init() {
	props["C11"] = &propDef{
		ID:       "C11",
		Anchored: []string{"tensor.Lt", "tensor.Gt", "tensor.Lte", "tensor.Gte", "tensor.ElEq", "tensor.ElNe", "StdEng).Lt", "StdEng).Gt", "StdEng).ElEq", "StdEng).ElNe", "StdEng).Lte", "StdEng).Gte", "execution.Lt", "execution.Gt", "execution.Eq", "execution.Ne", "execution.Lte", "execution.Gte", "Same"},
		Bounds: map[string]interface{}{"elements_and_scalar": "symbolic over the whole dtype range (NaN, equal pairs and extremes are inside)",
			"matrix_quick": "6 comparisons x 17 dtypes (ordered ops on ordered types; equality on all comparable types incl. bool, complex, string, uintptr) x {TT,TS,ST} x {bool, same-type, unsafe, reuse-bool, reuse-same} on contiguous (2,2) (rotating variants), one-element shapes, and layout pairs for int64/float64/int8",
			"strings":      "ElEq/ElNe with symbolic strings; Lt..Gte on strings are not executed (ordering of symbolic strings is not encoded)"},
		Instances: func(tier string, seed int64) []Instance {
			var out []Instance
			variants := []string{"bool", "same", "unsafe", "reuse-bool", "reuse-same"}
			add := func(dt, op, form string, sh []int, la, lb, api, variant, ld string) {
				if !layoutOK(sh, la) || (form == "TT" && !layoutOK(sh, lb)) || !layoutOK(sh, ld) {
					return
				}
				if dt == "string" && op != "ElEq" && op != "ElNe" {
					return
				}
				out = append(out, mkInst("vhC11Cmp", map[string]interface{}{"dtype": dt, "op": op, "form": form, "shape": sh, "la": la, "lb": lb, "api": api, "variant": variant, "ld": ld},
					"dtype", "op", "form", "shape", "la", "lb", "api", "variant", "ld"))
			}
			n := 0
			for _, op := range cmpOps {
				for _, dt := range allDtypes {
					for fi, form := range []string{"TT", "TS", "ST"} {
						for vi, v := range variants {
							n++
							if tier == "quick" && (n+fi+vi)%3 != 0 && !(v == "bool" && form == "TT") {
								continue
							}
							add(dt, op, form, []int{2, 2}, "C", "C", []string{"func", "method"}[n%2], v, "C")
						}
					}
					for si, sh := range [][]int{{}, {1}, {1, 1}} {
						for vi, v := range []string{"bool", "same", "reuse-same"} {
							add(dt, op, []string{"TT", "TS", "ST"}[(n+si+vi)%3], sh, "C", "C", []string{"func", "method"}[(n+si)%2], v, "C")
						}
					}
				}
			}
			if tier == "quick" {
				// the iterator-driven kernels are generated per element type, operand order and result kind: every ordered dtype
				// with a sliced operand, scalar on either side, bool / same-type / unsafe results
				for oi, op := range cmpOps {
					for di, dt := range ordDtypes {
						for fi, form := range []string{"TS", "ST"} {
							for vi, v := range []string{"bool", "same", "unsafe"} {
								add(dt, op, form, []int{2, 3}, []string{"S", "T", "SS"}[(oi+di+vi+fi)%3], "C", "func", v, "C")
							}
						}
					}
				}
			}
			ldts := []string{"int64", "float64", "int8"}
			if tier == "thorough" {
				ldts = ordDtypes
			}
			for _, dt := range ldts {
				for oi, op := range cmpOps {
					for i, la := range opndLayouts {
						for j, lb := range opndLayouts {
							if tier == "quick" && dt == "int8" && (i+j)%2 != 0 {
								continue
							}
							v := variants[(i+j+oi)%len(variants)]
							add(dt, op, "TT", []int{2, 3}, la, lb, []string{"func", "method"}[(i+j)%2], v, []string{"C", "S"}[(i+oi)%2])
							if tier == "thorough" {
								for _, v2 := range variants {
									add(dt, op, "TT", []int{2, 3}, la, lb, "func", v2, "C")
								}
							}
						}
						add(dt, op, "TS", []int{2, 3}, la, "C", "func", variants[(i+oi)%len(variants)], "C")
						add(dt, op, "ST", []int{2, 3}, la, "C", "method", variants[(i+oi+1)%len(variants)], "C")
					}
				}
			}
			return out
		},
	}
	props["C12"] = &propDef{
		ID:       "C12",
		Anchored: []string{"tensor.Neg", "tensor.Inv", "tensor.Square", "tensor.Cube", "tensor.Abs", "tensor.Sign", "tensor.Clamp", "tensor.Sqrt", "tensor.Cbrt", "tensor.InvSqrt", "tensor.Exp", "tensor.Log", "tensor.Tanh", "unaryCheck", "prepDataUnary", ").Apply", "StdEng).Map", "execution.Map", "execution.Neg", "execution.Abs", "execution.Clamp", "execution.Sign", "execution.Sqrt", "execution.Inv", "execution.Square", "execution.Cube"},
		Bounds: map[string]interface{}{"elements": "symbolic over the whole dtype range; clamp bounds symbolic with lo<=hi, not NaN", "exact": "Neg, Inv, Square, Cube, Abs, Sign, Clamp, Sqrt, InvSqrt are decided exactly (bit-vector / IEEE)",
			"transcendental": "Exp, Log, Log2, Log10, Tanh, Cbrt and complex Sqrt are uninterpreted functions of the element type's routine (float32: math32.F(x) or float32(math.F(float64(x))) accepted)",
			"matrix_quick":   "15 ops x 14 numeric dtypes on contiguous (2,2) safe mode; operand layouts {C,T,S,SS,M} x modes {safe,unsafe,reuse,incr,reuse==operand} for float64/int/int8/float32; Apply with an uninterpreted user function", "int_inv_zero": "assumed away (1/0 panics in Go)"},
		Instances: func(tier string, seed int64) []Instance {
			var out []Instance
			add := func(dt, op string, sh []int, la, mode, ld string) {
				if !layoutOK(sh, la) || !layoutOK(sh, ld) {
					return
				}
				out = append(out, mkInst("vhC12Unary", map[string]interface{}{"dtype": dt, "op": op, "shape": sh, "la": la, "mode": mode, "ld": ld}, "dtype", "op", "shape", "la", "mode", "ld"))
			}
			modes := []string{"", "unsafe", "reuse", "incr", "reuseA"}
			for _, op := range unaryOps {
				for _, dt := range numDtypes {
					add(dt, op, []int{2, 2}, "C", "", "C")
					add(dt, op, []int{}, "C", "", "C")
				}
			}
			ldts := []string{"float64", "int", "int8", "float32"}
			if tier == "thorough" {
				ldts = numDtypes
			}
			n := 0
			for _, dt := range ldts {
				for _, op := range unaryOps {
					for li, la := range opndLayouts {
						for mi, mode := range modes {
							n++
							// every operation has its own hand-written copy of the mode/iterator branching: float64 takes the full
							// op x layout x mode matrix, the other dtypes a rotating third
							if tier == "quick" && (n+li+mi)%3 != 0 && dt != "float64" {
								continue
							}
							add(dt, op, []int{2, 3}, la, mode, []string{"C", "S"}[(li+mi)%2])
						}
					}
				}
			}
			for _, dt := range []string{"float64", "int", "float32", "uint8", "int16"} {
				for _, la := range opndLayouts {
					for mi, mode := range []string{"", "unsafe", "reuse", "incr"} {
						out = append(out, mkInst("vhC12Apply", map[string]interface{}{"dtype": dt, "shape": []int{2, 3}, "la": la, "mode": mode, "ld": []string{"C", "S"}[mi%2]}, "dtype", "la", "mode", "ld"))
					}
				}
			}
			// one-element tensors take a separate branch of the map dispatch
			for _, dt := range []string{"float64", "float32", "int", "uint8", "int16", "int64", "complex128"} {
				for _, sh1 := range [][]int{{}, {1}, {1, 1}} {
					for _, mode := range []string{"", "unsafe"} {
						out = append(out, mkInst("vhC12Apply", map[string]interface{}{"dtype": dt, "shape": sh1, "la": "C", "mode": mode, "ld": "C"}, "dtype", "shape", "la", "mode", "ld"))
					}
				}
			}
			for _, op := range unaryOps {
				for _, dt := range []string{"bool", "string"} {
					out = append(out, mkInst("vhC12Refuse", map[string]interface{}{"op": op, "dtype": dt}, "op", "dtype"))
				}
			}
			return out
		},
	}
}

func init() {
	props["C07"] = &propDef{
		ID: "C07",
		Anchored: []string{"ParseFuncOpts", "handleFuncOpts", "reuseCheckShape", "prepDataVV", "prepDataVS", "prepDataSV", "prepDataUnary", "StdEng).Add", "StdEng).Sub", "StdEng).Mul", "StdEng).Div", "StdEng).AddScalar", "StdEng).SubScalar",
			"StdEng).Lt", "StdEng).ElEq", "StdEng).Neg", "StdEng).Abs", "StdEng).Square", ").Clone", "UseUnsafe", "WithReuse", "WithIncr", "AsSameType"},
		Bounds: map[string]interface{}{"modes": "safe, unsafe, reuse, incr, reuse aliasing operand a, reuse aliasing operand b", "operations": "Add/Sub/Mul/Div (tensor-tensor, tensor-scalar, scalar-tensor), 6 comparisons (bool / same-type / unsafe / reuse variants), Neg/Abs/Square/Sqrt/Clamp/Sign/Inv/Cube",
			"layouts": "operand layouts {C,T,S,SS,M} (pairs), destination layouts {contiguous, sliced view}", "dtypes": "float64, int, int8, complex128, float32, uint16 (rotating)", "elements": "all operands, reuse and incr tensors symbolic",
			"view_destinations": "a non-contiguous view as reuse/incr destination may be refused with an error; then nothing may be modified (asserted)", "zero_divisors": "assumed away in non-safe modes (decided in C06)"},
		Instances: func(tier string, seed int64) []Instance {
			var out []Instance
			sh := []int{2, 3}
			modes := []string{"", "unsafe", "reuse", "incr", "reuseA", "reuseB"}
			dts := []string{"float64", "int", "int8", "complex128", "float32", "uint16"}
			n := 0
			for _, op := range []string{"Add", "Sub", "Mul", "Div"} {
				for fi, form := range []string{"TT", "TS", "ST"} {
					for i, la := range opndLayouts {
						for j, lb := range opndLayouts {
							if form != "TT" && j > 0 {
								continue
							}
							for mi, mode := range modes {
								for li, ld := range []string{"C", "S", "T"} {
									n++
									if (mode == "" || mode == "unsafe" || mode == "reuseA" || mode == "reuseB") && li > 0 {
										continue
									}
									if tier == "quick" && form == "TT" && (i+j+mi+fi+li)%3 != 0 {
										continue
									}
									dt := dts[n%len(dts)]
									out = append(out, mkInst("vhC06Bin", map[string]interface{}{"dtype": dt, "op": op, "form": form, "shape": sh, "la": la, "lb": lb, "api": []string{"func", "method"}[n%2], "mode": mode, "ld": ld},
										"dtype", "op", "form", "la", "lb", "api", "mode", "ld"))
								}
							}
						}
					}
				}
			}
			// destinations whose data order differs from the operands' (incr must still add by logical position; plain reuse of
			// the other order is C16's open finding and excluded there by region)
			for _, op := range []string{"Add", "Sub", "Mul"} {
				for _, tr := range [][3]string{{"C", "C", "F"}, {"F", "F", "C"}, {"C", "F", "F"}, {"F", "C", "C"}} {
					for _, mode := range []string{"incr", "reuse"} {
						for _, form := range []string{"TT", "TS"} {
							n++
							out = append(out, mkInst("vhC06Bin", map[string]interface{}{"dtype": dts[n%len(dts)], "op": op, "form": form, "shape": sh, "la": tr[0], "lb": tr[1], "api": []string{"func", "method"}[n%2], "mode": mode, "ld": tr[2]},
								"dtype", "op", "form", "la", "lb", "api", "mode", "ld"))
						}
					}
				}
			}
			variants := []string{"bool", "same", "unsafe", "reuse-bool", "reuse-same"}
			for oi, op := range cmpOps {
				for fi, form := range []string{"TT", "TS", "ST"} {
					for i, la := range opndLayouts {
						for j, lb := range opndLayouts {
							if form != "TT" && j > 0 {
								continue
							}
							for vi, v := range variants {
								n++
								if tier == "quick" && (i+j+vi+oi+fi)%4 != 0 {
									continue
								}
								ld := []string{"C", "S", "T"}[n%3]
								out = append(out, mkInst("vhC11Cmp", map[string]interface{}{"dtype": []string{"float64", "int", "int8", "uint16"}[n%4], "op": op, "form": form, "shape": sh, "la": la, "lb": lb, "api": []string{"func", "method"}[n%2], "variant": v, "ld": ld},
									"dtype", "op", "form", "la", "lb", "api", "variant", "ld"))
							}
						}
					}
				}
			}
			for _, op := range []string{"Neg", "Abs", "Square", "Sqrt", "Clamp", "Sign", "Inv", "Cube"} {
				for _, la := range opndLayouts {
					for _, mode := range []string{"", "unsafe", "reuse", "incr", "reuseA"} {
						for li, ld := range []string{"C", "S", "T"} {
							if (mode == "" || mode == "unsafe" || mode == "reuseA") && li > 0 {
								continue
							}
							n++
							out = append(out, mkInst("vhC12Unary", map[string]interface{}{"dtype": []string{"float64", "float32", "int", "int8"}[n%4], "op": op, "shape": sh, "la": la, "mode": mode, "ld": ld}, "dtype", "op", "la", "mode", "ld"))
						}
					}
				}
			}
			// one-element tensors take dedicated dispatch paths in every *Scalar method
			for _, one := range [][]int{{1}, {1, 1}, {}} {
				for _, op := range []string{"Add", "Sub", "Mul", "Div"} {
					for _, form := range []string{"TT", "TS", "ST"} {
						for _, mode := range []string{"", "unsafe", "reuse", "incr"} {
							n++
							out = append(out, mkInst("vhC06Bin", map[string]interface{}{"dtype": dts[n%len(dts)], "op": op, "form": form, "shape": one, "la": "C", "lb": "C", "api": []string{"func", "method"}[n%2], "mode": mode, "ld": "C"},
								"dtype", "op", "form", "shape", "api", "mode"))
						}
					}
				}
				for _, op := range cmpOps {
					for _, form := range []string{"TT", "TS", "ST"} {
						for _, v := range variants {
							n++
							out = append(out, mkInst("vhC11Cmp", map[string]interface{}{"dtype": []string{"float64", "int", "int8", "uint16"}[n%4], "op": op, "form": form, "shape": one, "la": "C", "lb": "C", "api": []string{"func", "method"}[n%2], "variant": v, "ld": "C"},
								"dtype", "op", "form", "shape", "api", "variant"))
						}
					}
				}
			}
			// drop instances whose dtype the operation does not accept (refusal is C06/C11/C12's subject)
			var keep []Instance
			for _, in := range out {
				op, _ := in.Cfg["op"].(string)
				dt, _ := in.Cfg["dtype"].(string)
				if in.Harness == "vhC12Unary" {
					isF := dt == "float64" || dt == "float32"
					if (op == "Sqrt") && !isF {
						in.Cfg["dtype"] = "float64"
						in.Name = strings.Replace(in.Name, "/"+dt+"/", "/float64/", 1)
					}
				}
				keep = append(keep, in)
			}
			return keep
		},
	}
}

func init() {
	props["C08"] = &propDef{
		ID: "C08",
		Anchored: []string{"tensor.Sum", ").Sum", ").Max", ").Min", ").Reduce", "StdEng).reduce", "OptimizedReduce", "prepReduce", "ReduceFirst", "ReduceLast", "ReduceDefault", "execution.Sum", "execution.Max", "execution.Min", "execution.Argmax", "execution.Argmin",
			"argmaxDenseTensor", "argminDenseTensor", "tensor.Argmax", "tensor.Argmin", "execution.Reduce", "execution.reduce", "MonotonicSum", "MonotonicMax", "MonotonicMin"},
		Bounds: map[string]interface{}{"elements": "symbolic (ties, negatives, wrap-around inside); integer sums in wrapping bit-vectors; float sums in ring mode (exact integers); float max/min and arg-reductions in the FP theory with NaN assumed away",
			"shapes": "quick (3), (2,3), (3,1), (2,3,2), (2,2,2,2); thorough adds (4), (3,2), (1,3), (2,2,3), (3,2,2), (2,1,2,2)", "axes": "every non-empty subset of axes for Sum/Max/Min; every single axis and all-axes for Argmax/Argmin",
			"layouts": "C, T, S, SS, M", "generic_reduce": "Dense.Reduce with an uninterpreted binary function (fold seeded with the default value or the first element accepted)"},
		Instances: func(tier string, seed int64) []Instance {
			var out []Instance
			shapes := [][]int{{3}, {2, 3}, {3, 1}, {2, 3, 2}, {2, 2, 2, 2}}
			if tier == "thorough" {
				shapes = append(shapes, []int{4}, []int{3, 2}, []int{1, 3}, []int{2, 2, 3}, []int{3, 2, 2}, []int{2, 1, 2, 2})
			}
			n := 0
			for _, sh := range shapes {
				r := len(sh)
				for mask := 1; mask < (1 << uint(r)); mask++ {
					var along []int
					for i := 0; i < r; i++ {
						if mask&(1<<uint(i)) != 0 {
							along = append(along, i)
						}
					}
					for _, op := range []string{"Sum", "Max", "Min"} {
						for li, la := range opndLayouts {
							if !layoutOK(sh, la) {
								continue
							}
							for di, dt := range ordDtypes {
								n++
								if tier == "quick" && !(la == "C" && r <= 3 && len(along) == 1) && (n+li+di)%7 != 0 {
									continue
								}
								if tier == "thorough" && r == 4 && (n+di)%3 != 0 {
									continue
								}
								isF := dt == "float32" || dt == "float64"
								if tier == "quick" && isF && op != "Sum" && prodInts(sh) > 6 {
									continue // FP-theory folds over more than 6 elements exceed the quick time limit: thorough tier
								}
								in := mkInst("vhC08Reduce", map[string]interface{}{"dtype": dt, "op": op, "shape": sh, "along": along, "la": la, "api": []string{"method", "func"}[n%2]}, "dtype", "op", "shape", "along", "la")
								in.Ring = op == "Sum" && (dt == "float32" || dt == "float64")
								out = append(out, in)
							}
						}
					}
				}
				for axis := -1; axis < r; axis++ {
					for _, op := range []string{"Argmax", "Argmin"} {
						for li, la := range opndLayouts {
							if !layoutOK(sh, la) {
								continue
							}
							for di, dt := range ordDtypes {
								n++
								if tier == "quick" && !(la == "C" && r <= 2) && (n+li+di)%5 != 0 {
									continue
								}
								if tier == "quick" && (dt == "float32" || dt == "float64") && prodInts(sh) > 6 {
									continue
								}
								out = append(out, mkInst("vhC08Arg", map[string]interface{}{"dtype": dt, "op": op, "shape": sh, "axis": axis, "la": la, "api": []string{"method", "func"}[n%2]}, "dtype", "op", "shape", "axis", "la"))
							}
						}
					}
				}
				for axis := 0; axis < r; axis++ {
					for _, la := range opndLayouts {
						if layoutOK(sh, la) && (tier == "thorough" || r <= 3) {
							out = append(out, mkInst("vhC08Generic", map[string]interface{}{"shape": sh, "axis": axis, "la": la}, "shape", "axis", "la"))
						}
					}
				}
			}
			return out
		},
	}
}

func prodInts(s []int) int {
	p := 1
	for _, d := range s {
		p *= d
	}
	return p
}

func init() {
	props["C10"] = &propDef{
		ID: "C10",
		Anchored: []string{").Concat", ").Stack", ").Hstack", ").Vstack", ").Repeat", "tensor.Concat", "tensor.Stack", "tensor.Repeat", "denseConcat", "StackDense", "denseSimpleStack", "denseViewStack", "doViewStack", "denseRepeat", "fastCopyDenseRepeat", "copyDenseSliced",
			"Shape).Concat", "Shape).Repeat", "assignArray", "sliceDense"},
		Bounds: map[string]interface{}{"operands": "1-3 (quick) / 1-4 (thorough) operands, every operand layout in {C,T,S,SS,M,F} independently (rotating pairs in quick)", "shapes": "rank 1-3 operand shapes with dims<=3 (rank 4 in thorough), every valid axis",
			"repeat_counts": "every count symbolic in 0..2 (quick) / 0..3 (thorough), enumerated by the solver because counts size the result; uniform (broadcast) and per-element counts; AllAxes", "elements": "symbolic; element sizes 1,2,4,8,16 and string",
			"empty_results": "a result with zero entries along the axis (all counts zero) is not compared"},
		Instances: func(tier string, seed int64) []Instance {
			var out []Instance
			lays := []string{"C", "T", "S", "SS", "M", "F"}
			dts := []string{"float64", "int8", "int16", "float32", "complex128", "string", "bool", "int"}
			n := 0
			type cc struct {
				shapes [][]int
				axis   int
			}
			concats := []cc{
				{[][]int{{2}, {3}}, 0}, {[][]int{{2, 3}, {1, 3}}, 0}, {[][]int{{2, 3}, {2, 2}}, 1}, {[][]int{{2, 3}, {2, 3}, {2, 3}}, 0}, {[][]int{{2, 1}, {2, 2}}, 1},
				{[][]int{{2, 2, 2}, {2, 1, 2}}, 1}, {[][]int{{2, 2, 2}, {2, 2, 3}}, 2}, {[][]int{{1, 2, 2}, {2, 2, 2}}, 0}, {[][]int{{1, 3}, {1, 3}}, 0}, {[][]int{{3, 1}, {3, 1}}, 1},
			}
			if tier == "thorough" {
				concats = append(concats, cc{[][]int{{2, 3}, {2, 3}, {1, 3}, {2, 3}}, 0}, cc{[][]int{{2, 2, 1, 2}, {2, 2, 2, 2}}, 2}, cc{[][]int{{3}, {1}, {2}}, 0})
			}
			for ci, c := range concats {
				for li := 0; li < len(lays); li++ {
					for lj := 0; lj < len(lays); lj++ {
						n++
						if tier == "quick" && (li+2*lj+ci)%4 != 0 {
							continue
						}
						ls := []string{lays[li], lays[lj], lays[(li+lj)%len(lays)], lays[(li+1)%len(lays)]}[:len(c.shapes)]
						okL := true
						for k, l := range ls {
							if !layoutOK(c.shapes[k], l) {
								okL = false
							}
						}
						if !okL {
							continue
						}
						cfg := map[string]interface{}{"dtype": dts[n%len(dts)], "n": len(c.shapes), "axis": c.axis, "variant": []string{"concat", "func"}[n%2], "layouts": strings.Join(ls, ",")}
						for k, s := range c.shapes {
							cfg[fmt.Sprintf("shape%d", k)] = s
						}
						in := mkInst("vhC10Concat", cfg, "dtype", "n", "axis", "variant", "layouts", "shape0", "shape1")
						out = append(out, in)
					}
				}
			}
			// hstack / vstack
			for _, v := range []string{"hstack", "vstack"} {
				for li, la := range lays {
					shs := [][]int{{2, 3}, {2, 3}}
					ax := 1
					if v == "vstack" {
						ax = 0
					}
					cfg := map[string]interface{}{"dtype": dts[li%len(dts)], "n": 2, "axis": ax, "variant": v, "layouts": la + "," + lays[(li+2)%len(lays)], "shape0": shs[0], "shape1": shs[1]}
					out = append(out, mkInst("vhC10Concat", cfg, "dtype", "variant", "layouts"))
					if v == "hstack" {
						cfg2 := map[string]interface{}{"dtype": dts[li%len(dts)], "n": 2, "axis": 0, "variant": v, "layouts": "C,C", "shape0": []int{2}, "shape1": []int{3}}
						out = append(out, mkInst("vhC10Concat", cfg2, "dtype", "variant", "layouts", "shape0"))
					}
				}
			}
			// hstack / vstack of rank-3 (thorough: rank-4) operands: the join axis is 1 / 0 whatever the rank
			hv := [][2][]int{{{2, 2, 2}, {2, 1, 2}}, {{2, 2, 3}, {2, 1, 3}}}
			if tier == "thorough" {
				hv = append(hv, [2][]int{{1, 2, 1, 2}, {1, 1, 1, 2}}, [2][]int{{2, 2, 2}, {2, 2, 2}})
			}
			for hi, pr := range hv {
				cfg := map[string]interface{}{"dtype": dts[hi%len(dts)], "n": 2, "axis": 1, "variant": "hstack", "layouts": "C," + lays[hi%len(lays)], "shape0": pr[0], "shape1": pr[1]}
				out = append(out, mkInst("vhC10Concat", cfg, "dtype", "variant", "layouts", "shape0", "shape1"))
				vs := [2][]int{append([]int{}, pr[0]...), append([]int{}, pr[0]...)}
				vs[1][0] = 1
				cfg2 := map[string]interface{}{"dtype": dts[(hi+1)%len(dts)], "n": 2, "axis": 0, "variant": "vstack", "layouts": lays[hi%len(lays)] + ",C", "shape0": vs[0], "shape1": vs[1]}
				out = append(out, mkInst("vhC10Concat", cfg2, "dtype", "variant", "layouts", "shape0", "shape1"))
			}
			// stack
			stShapes := [][]int{{3}, {2, 3}, {2, 2}, {1, 3}, {3, 1}, {2, 1, 2}}
			if tier == "thorough" {
				stShapes = append(stShapes, []int{2, 2, 2}, []int{2, 3, 2})
			}
			for si, sh := range stShapes {
				for axis := 0; axis <= len(sh); axis++ {
					for li := 0; li < len(lays); li++ {
						for lj := 0; lj < len(lays); lj++ {
							n++
							if tier == "quick" && (li+3*lj+si+axis)%5 != 0 {
								continue
							}
							for _, nops := range []int{2, 3} {
								if nops == 3 && (n%3 != 0) {
									continue
								}
								ls := []string{lays[li], lays[lj], lays[(li+lj+1)%len(lays)]}[:nops]
								okL := true
								for _, l := range ls {
									if !layoutOK(sh, l) {
										okL = false
									}
								}
								if !okL {
									continue
								}
								cfg := map[string]interface{}{"dtype": dts[n%len(dts)], "n": nops, "axis": axis, "variant": []string{"method", "func"}[n%2], "layouts": strings.Join(ls, ",")}
								for k := 0; k < nops; k++ {
									cfg[fmt.Sprintf("shape%d", k)] = sh
								}
								out = append(out, mkInst("vhC10Stack", cfg, "dtype", "n", "axis", "variant", "layouts", "shape0"))
							}
						}
					}
				}
			}
			// repeat
			rpShapes := [][]int{{3}, {2, 3}, {3, 2}, {1, 3}, {3, 1}, {2, 2, 2}}
			if tier == "thorough" {
				rpShapes = append(rpShapes, []int{2, 3, 2}, []int{2, 1, 2}, []int{2, 2, 1, 2})
			}
			maxc := 2
			if tier == "thorough" {
				maxc = 3
			}
			for _, sh := range rpShapes {
				for axis := -1; axis < len(sh); axis++ {
					for li, la := range lays {
						if !layoutOK(sh, la) {
							continue
						}
						dim := prodInts(sh)
						if axis >= 0 {
							dim = sh[axis]
						}
						for _, nrep := range []int{1, dim} {
							n++
							if nrep > 3 && tier == "quick" {
								continue
							}
							if tier == "quick" && la != "C" && (n+li)%3 != 0 && !(len(sh) >= 2 && prodInts(sh) <= 6 && nrep == 1) {
								continue // (non-contiguous operands: every axis of the small matrices, a sample of the rest)
							}
							cfg := map[string]interface{}{"dtype": dts[n%len(dts)], "axis": axis, "nrep": nrep, "maxcount": maxc, "variant": []string{"method", "func"}[n%2], "layouts": la, "shape0": sh}
							out = append(out, mkInst("vhC10Repeat", cfg, "dtype", "axis", "nrep", "variant", "layouts", "shape0"))
						}
					}
				}
			}
			for _, k := range []string{"concat-mismatch", "concat-mismatch-unit", "concat-mismatch-longer", "hstack-mismatch-unit", "vstack-mismatch-unit", "concat-rank", "concat-axis", "stack-mismatch", "stack-axis", "repeat-counts", "repeat-axis", "vstack-rank1"} {
				out = append(out, mkInst("vhC10Refuse", map[string]interface{}{"kind": k}, "kind"))
			}
			return out
		},
	}
}

func factorisations(n int, maxRank int) [][]int {
	var out [][]int
	var rec func(rem int, cur []int)
	rec = func(rem int, cur []int) {
		if len(cur) > 0 && rem == 1 {
			out = append(out, append([]int(nil), cur...))
		}
		if len(cur) >= maxRank {
			return
		}
		for d := 1; d <= rem; d++ {
			if rem%d == 0 && !(d == 1 && len(cur) > 0 && cur[len(cur)-1] == 1) {
				rec(rem/d, append(cur, d))
			}
		}
	}
	rec(n, nil)
	return out
}

func init() {
	props["C13"] = &propDef{
		ID:       "C13",
		Anchored: []string{"Shape).S", "Shape).Repeat", "Shape).Concat", "AP).S", "AP).T", ").Reshape", ").reshape", ").setShape", ").sanity", "TotalSize", "CalcStrides", "ProdInts"},
		Bounds: map[string]interface{}{"slice": "parent shapes (5), (2,5), (3,4), (1,3), (2,3,2); triples symbolic in [-2, dim+2], single indices unbounded; Shape.S compared with Dense.Slice (shape and error)",
			"repeat": "axis symbolic in [-1, rank+1], counts symbolic 0..2 (solver-enumerated)", "concat": "operand dims symbolic 1..2 (rank<=2) / 1..3 thorough, axis symbolic in [-1, rank+1]", "transpose": "symbolic axes (all permutations)",
			"reshape": "every factorisation (rank<=3) of the size after layouts C,F,T,S,SS,M and a pending lazy transpose; symbolic target dims 1..12 for the size check", "metadata": "two symbolic in-range coordinate vectors: offsets in bounds and distinct, for layouts x {T, T+Transpose, clone, materialize, slice}"},
		Instances: func(tier string, seed int64) []Instance {
			var out []Instance
			type sp struct {
				s     []int
				kinds []string
			}
			sl := []sp{{[]int{5}, []string{"r", "i"}}, {[]int{2, 5}, []string{"nr", "rn", "ri", "ir", "r", "i", "ii"}}, {[]int{3, 4}, []string{"nr", "rn"}}, {[]int{1, 3}, []string{"ni", "nr", "in", "rn"}}, {[]int{2, 3, 2}, []string{"nrn", "nnr", "inr", "rii"}}}
			if tier == "thorough" {
				sl = append(sl, sp{[]int{2, 5}, []string{"rr"}}, sp{[]int{4, 3}, []string{"rr", "nr"}}, sp{[]int{3, 1}, []string{"rn", "nr", "ii"}}, sp{[]int{2, 2, 3}, []string{"nnr", "rnr"}})
			}
			for _, s := range sl {
				for _, k := range s.kinds {
					for _, base := range []string{"C", "F", "T"} {
						if tier == "quick" && base != "C" && len(k) > 1 && k[0] == 'r' {
							continue
						}
						out = append(out, mkInst("vhC13Slice", map[string]interface{}{"shape": s.s, "kinds": k, "box": 2, "base": base}, "shape", "kinds", "base"))
					}
				}
			}
			for _, sh := range [][]int{{3}, {2, 3}, {1, 3}, {3, 1}, {2, 2, 2}, {}, {1}, {1, 1}, {1, 1, 1}, {1, 2, 1}} {
				dimsN := map[int]bool{1: true}
				for _, d := range sh {
					dimsN[d] = true
				}
				dimsN[prodInts(sh)] = true
				for nrep := range dimsN {
					if nrep > 3 && tier == "quick" {
						continue
					}
					out = append(out, mkInst("vhC13Repeat", map[string]interface{}{"shape": sh, "nrep": nrep}, "shape", "nrep"))
				}
			}
			out = append(out, mkInst("vhC13Concat", map[string]interface{}{"rank": 1, "maxdim": 3}, "rank"))
			out = append(out, mkInst("vhC13Concat", map[string]interface{}{"rank": 2, "maxdim": 2}, "rank"))
			if tier == "thorough" {
				out = append(out, mkInst("vhC13Concat", map[string]interface{}{"rank": 2, "maxdim": 3}, "rank", "maxdim"))
				out = append(out, mkInst("vhC13Concat", map[string]interface{}{"rank": 3, "maxdim": 2}, "rank"))
			}
			for _, sh := range [][]int{{3}, {2, 3}, {1, 3}, {2, 3, 2}, {2, 2, 2, 2}} {
				if len(sh) == 4 && tier == "quick" {
					continue
				}
				for _, base := range []string{"C", "F", "S"} {
					if layoutOK(sh, base) {
						out = append(out, mkInst("vhC13T", map[string]interface{}{"shape": sh, "base": base}, "shape", "base"))
					}
				}
				if len(sh) >= 2 && len(sh) <= 3 {
					// two successive lazy transposes (row-major sources; for column-major ones the move is C03's finding)
					out = append(out, mkInst("vhC13T", map[string]interface{}{"shape": sh, "base": "C", "twice": 1}, "shape", "base", "twice"))
				}
			}
			for _, sh := range [][]int{{6}, {2, 3}, {3, 2}, {1, 6}, {2, 3, 2}, {4}, {2, 2}} {
				n := prodInts(sh)
				tos := factorisations(n, 3)
				tos = append(tos, []int{n + 1}, []int{2, n})
				for _, lay := range []string{"C", "F", "T", "S", "SS", "M"} {
					if !layoutOK(sh, lay) {
						continue
					}
					for _, lt := range []int{0, 1} {
						if lt == 1 && (lay == "T" || len(sh) < 2) {
							continue
						}
						for ti, to := range tos {
							if tier == "quick" && len(tos) > 6 && (ti+len(lay)+lt)%3 != 0 {
								continue
							}
							out = append(out, mkInst("vhC13Reshape", map[string]interface{}{"shape": sh, "to": to, "layout": lay, "lazyT": lt, "thenT": (ti + lt) % 2, "pre": ""}, "shape", "to", "layout", "lazyT", "thenT"))
						}
					}
				}
			}
			// views cut with a partial slice list (window on the leading axis), row- and column-major, then reshape
			for _, sh := range [][]int{{4, 3}, {3, 2}, {4, 2, 2}, {6, 1}, {1, 6}} {
				for _, base := range []string{"C", "F"} {
					for _, pre := range []string{"W", "TW", "WT", "T"} {
						n := prodInts(sh)
						if sh[0] >= 3 && (pre == "W" || pre == "WT") {
							n = n / sh[0] * (sh[0] - 1)
						}
						if pre == "TW" && sh[len(sh)-1] >= 3 {
							n = n / sh[len(sh)-1] * (sh[len(sh)-1] - 1)
						}
						for ti, to := range append(factorisations(n, 2), []int{n + 1}) {
							out = append(out, mkInst("vhC13Reshape", map[string]interface{}{"shape": sh, "to": to, "layout": base, "lazyT": 0, "thenT": (ti + 1) % 2, "pre": pre}, "shape", "to", "layout", "pre", "thenT"))
						}
					}
				}
			}
			for _, sh := range [][]int{{6}, {2, 3}, {2, 3, 2}} {
				for nd := 1; nd <= 3; nd++ {
					out = append(out, mkInst("vhC13ReshapeSym", map[string]interface{}{"shape": sh, "ndims": nd}, "shape", "ndims"))
				}
			}
			for _, sh := range [][]int{{3}, {2, 3}, {1, 3}, {3, 1}, {2, 3, 2}, {2, 1, 2}} {
				for _, lay := range []string{"C", "F", "T", "S", "SS", "M"} {
					if !layoutOK(sh, lay) {
						continue
					}
					for _, post := range []string{"", "T", "TX", "clone", "mat", "slice0"} {
						out = append(out, mkInst("vhC13Meta", map[string]interface{}{"shape": sh, "layout": lay, "post": post}, "shape", "layout", "post"))
					}
				}
			}
			return out
		},
	}
}

func init() {
	props["C15"] = &propDef{
		ID: "C15",
		Anchored: []string{"MaskedEqual", "MaskedNotEqual", "MaskedGreater", "MaskedLess", "MaskedInside", "MaskedOutside", "MaskedValues", "MaskedReduce", "MaskedCount", "MaskedAny", "MaskedAll", "doMask", "FlatMaskedContiguous", "FlatNotMaskedContiguous",
			"FlatMaskedEdges", "FlatNotMaskedEdges", ").Filled", ").FilledInplace", "FlatMaskedIterator", "transposeMask", ").MaskAt", ").Slice", "Iter"},
		Bounds: map[string]interface{}{"predicates": "10 predicate forms (Equal, NotEqual, Greater, GreaterEqual, Less, LessEqual, Inside, Outside, Values with and without atol) x 12 ordered dtypes x soft/hard x with/without a prior mask; data, thresholds and every prior mask bit symbolic (3 elements)",
			"inspection": "every mask over <=6 (quick) / <=8 (thorough) elements (each bit symbolic) on shapes (), (4), (3,1), (1,3), (2,3), (2,2,2): counts, any/all (global and per axis), contiguous runs, edges, Filled/FilledInplace with symbolic data and fill value",
			"movement":   "mask follows elements through lazy T, physical Transpose (also mask storage order) and slicing with solver-enumerated ranges", "operations": "Add/Sub/Mul on masked operands: positions valid in all operands hold the unmasked value"},
		Instances: func(tier string, seed int64) []Instance {
			var out []Instance
			preds := []string{"Equal", "NotEqual", "Greater", "GreaterEqual", "Less", "LessEqual", "Inside", "Outside", "Values2", "Values3"}
			for _, p := range preds {
				for _, dt := range ordDtypes {
					for _, soft := range []int{0, 1} {
						for _, prior := range []int{0, 1} {
							out = append(out, mkInst("vhC15Pred", map[string]interface{}{"dtype": dt, "pred": p, "shape": []int{3}, "soft": soft, "prior": prior}, "dtype", "pred", "soft", "prior"))
						}
					}
				}
			}
			for _, dt := range fltDtypes {
				for _, soft := range []int{0, 1} {
					out = append(out, mkInst("vhC15Pred", map[string]interface{}{"dtype": dt, "pred": "Values3", "shape": []int{2}, "soft": soft, "prior": 1, "rtol1": 1}, "dtype", "pred", "soft", "rtol1"))
				}
			}
			for _, dt := range []string{"float64", "int8", "uint16"} {
				for _, p := range []string{"Greater", "Inside", "Equal"} {
					out = append(out, mkInst("vhC15Pred", map[string]interface{}{"dtype": dt, "pred": p, "shape": []int{2, 2}, "soft": 0, "prior": 1}, "dtype", "pred", "shape"))
				}
			}
			ishapes := [][]int{{}, {4}, {3, 1}, {1, 3}, {2, 3}, {2, 2, 2}}
			if tier == "thorough" {
				ishapes = append(ishapes, []int{8}, []int{2, 4}, []int{4, 2}, []int{2, 1, 3})
			}
			for _, sh := range ishapes {
				for _, what := range []string{"count", "runs", "edges", "filled", "filledinplace"} {
					if len(sh) == 0 && (what == "runs" || what == "edges") {
						continue
					}
					out = append(out, mkInst("vhC15Inspect", map[string]interface{}{"shape": sh, "what": what}, "shape", "what"))
				}
				for ax := 0; ax < len(sh); ax++ {
					if len(sh) >= 2 {
						out = append(out, mkInst("vhC15Inspect", map[string]interface{}{"shape": sh, "what": "axis", "axis": ax}, "shape", "what", "axis"))
					}
				}
			}
			for _, sh := range [][]int{{2, 3}, {3, 1}, {1, 3}, {2, 2, 2}, {3}} {
				for _, op := range []string{"T", "TX"} {
					if len(sh) >= 2 {
						out = append(out, mkInst("vhC15Move", map[string]interface{}{"shape": sh, "op": op}, "shape", "op"))
					}
				}
				for ax := 0; ax < len(sh); ax++ {
					if sh[ax] >= 2 {
						out = append(out, mkInst("vhC15Move", map[string]interface{}{"shape": sh, "op": "slice", "axis": ax}, "shape", "op", "axis"))
					}
				}
			}
			for _, sh := range [][]int{{3}, {2, 2}} {
				for _, op := range []string{"Add", "Sub", "Mul"} {
					for _, bm := range []int{0, 1} {
						out = append(out, mkInst("vhC15Ops", map[string]interface{}{"shape": sh, "op": op, "bmasked": bm}, "shape", "op", "bmasked"))
						// every generated element type of the masked kernels (rotating), both sides masked / one side, safe / unsafe
						for di, dt := range []string{"int", "int8", "int32", "int64", "uint8", "uint16", "float32", "complex128"} {
							if tier == "quick" && (di+len(sh)+bm+len(op))%2 != 0 {
								continue
							}
							cfg := map[string]interface{}{"shape": sh, "op": op, "bmasked": bm, "dtype": dt, "mode": []string{"", "unsafe"}[di%2]}
							if bm == 1 && di%3 == 0 {
								cfg["amasked"] = -1
							}
							out = append(out, mkInst("vhC15Ops", cfg, "dtype", "shape", "op", "bmasked", "mode", "amasked"))
						}
					}
				}
			}
			return out
		},
	}
}

func init() {
	props["C09"] = &propDef{
		ID: "C09",
		Anchored: []string{").Inner", ").MatVecMul", ").MatMul", ").Outer", ").TensorMul", ").Trace", "tensor.Dot", "tensor.Contract", "tensor.MatMul", "tensor.MatVecMul", "tensor.Inner", "tensor.Outer", "StdEng).Dot", "StdEng).Inner", "StdEng).MatVecMul", "StdEng).MatMul",
			"StdEng).Outer", "StdEng).Trace", "handleReuse", "handleIncr"},
		Bounds: map[string]interface{}{"arithmetic": "ring mode: float and complex elements are mathematical integers, + - x exact (this is the statement's 'exactly for integer-valued inputs' clause; rounding for non-integer inputs is outside the claim)",
			"blas":   "gonum's Sdot/Ddot/C,Zdotu, gemv, gemm, ger(u) replaced by the reference semantics of the row-major BLAS interface including argument checks (bad leading dimension, short slices, illegal transpose -> panic)",
			"shapes": "quick: dims<=3 vectors, dims<=2..3 matrices, rank-3 contractions with dims<=2; thorough: dims<=3 (vectors <=4), rank 3-4 contractions", "layouts": "C, lazily transposed, column-major, sliced view, step-sliced view, materialised - per operand",
			"modes": "safe, reuse, incr"},
		Assume: []string{"BLAS reference model instead of gonum's implementation (its own arithmetic and assembly kernels are outside the claim)"},
		Instances: func(tier string, seed int64) []Instance {
			var out []Instance
			lays := []string{"C", "LT", "F", "S", "SS", "M"}
			dts := []string{"float64", "float32", "complex128", "complex64"}
			n := 0
			add := func(routine string, sa, sb []int, la, lb, mode, api string, extra map[string]interface{}) {
				if !layoutOK(sa, strings.Replace(la, "LT", "T", 1)) || (sb != nil && !layoutOK(sb, strings.Replace(lb, "LT", "T", 1))) {
					return
				}
				n++
				dt := dts[n%len(dts)]
				if api == "dot" && mode == "incr" {
					dt = dts[n%2] // Dot refuses complex increments: exercise the float path
				}
				cfg := map[string]interface{}{"dtype": dt, "routine": routine, "sa": sa, "sb": sb, "la": la, "lb": lb, "mode": mode, "api": api}
				for k, v := range extra {
					cfg[k] = v
				}
				in := mkInst("vhC09", cfg, "dtype", "routine", "sa", "sb", "la", "lb", "mode", "api")
				if extra != nil {
					if _, ok := extra["chain"]; ok {
						in.Name += fmt.Sprintf("/ld=%v/chain", extra["ld"])
					} else {
						in.Name += fmt.Sprintf("/%v-%v", extra["axesA"], extra["axesB"])
					}
				}
				in.Ring = true
				out = append(out, in)
			}
			vecs := [][]int{{3}, {3, 1}, {1, 3}}
			for _, va := range vecs {
				for _, vb := range vecs {
					for i, la := range lays {
						for j, lb := range lays {
							if tier == "quick" && (i+j)%3 != 0 && !(la == "C" && lb == "C") {
								continue
							}
							if len(va) == 1 && len(vb) == 1 {
								add("Inner", va, vb, la, lb, "", []string{"method", "func"}[(i+j)%2], nil)
							}
							if len(va) == 1 && len(vb) == 1 || tier == "thorough" {
								add("Outer", va, vb, la, lb, []string{"", "reuse", "incr"}[(i+j)%3], []string{"method", "func"}[(i+j)%2], nil)
							}
						}
					}
				}
			}
			mats := [][2][]int{{{2, 3}, {3, 2}}, {{2, 2}, {2, 2}}, {{1, 3}, {3, 2}}, {{3, 1}, {1, 2}}}
			if tier == "thorough" {
				mats = append(mats, [2][]int{{3, 3}, {3, 3}}, [2][]int{{3, 2}, {2, 1}})
			}
			for _, mm := range mats {
				for i, la := range lays {
					for j, lb := range lays {
						for mi, mode := range []string{"", "reuse", "incr"} {
							if tier == "quick" && (i+j+mi)%3 != 0 && !(la == "C" && lb == "C") {
								continue
							}
							add("MatMul", mm[0], mm[1], la, lb, mode, []string{"method", "func", "dot"}[(i+j+mi)%3], nil)
						}
					}
					for mi, mode := range []string{"", "reuse", "incr"} {
						for j, lb := range lays {
							if tier == "quick" && (i+j+mi)%3 != 0 {
								continue
							}
							add("MatVecMul", mm[0], []int{mm[0][1]}, la, lb, mode, []string{"method", "func"}[(i+mi)%2], nil)
						}
					}
					add("Trace", mm[0], nil, la, "C", "", "method", nil)
				}
			}
			// destinations that carry a lazy transposition, then used as the operand of a second product
			for _, mm := range [][2][]int{{{2, 3}, {3, 2}}, {{2, 3}, {3, 3}}} {
				for _, api := range []string{"method", "func", "dot"} {
					add("MatMul", mm[0], mm[1], "C", "C", "reuse", api, map[string]interface{}{"ld": "T", "chain": 1})
					add("MatMul", mm[0], mm[1], "LT", "C", "reuse", api, map[string]interface{}{"ld": "C", "chain": 1})
				}
			}
			type tm struct {
				sa, sb []int
				aa, ab []int
			}
			tms := []tm{{[]int{2, 2, 2}, []int{2, 2}, []int{2}, []int{0}}, {[]int{2, 2, 2}, []int{2, 2, 2}, []int{1, 2}, []int{0, 1}}, {[]int{2, 3}, []int{3, 2}, []int{1}, []int{0}}, {[]int{2, 2, 2}, []int{2, 2, 2}, []int{0}, []int{2}},
				{[]int{2, 2, 2}, []int{2, 2, 2}, []int{2, 0}, []int{1, 0}}, {[]int{2, 2}, []int{2, 2, 2}, []int{0}, []int{1}}}
			if tier == "thorough" {
				tms = append(tms, tm{[]int{2, 2, 2, 2}, []int{2, 2}, []int{3}, []int{0}}, tm{[]int{2, 2, 2, 2}, []int{2, 2, 2}, []int{1, 3}, []int{0, 2}}, tm{[]int{2, 3, 2}, []int{2, 3}, []int{1}, []int{1}})
			}
			for _, t := range tms {
				for i, la := range []string{"C", "LT", "F", "S"} {
					for j, lb := range []string{"C", "LT", "F", "S"} {
						if tier == "quick" && (i+j)%2 != 0 {
							continue
						}
						add("TensorMul", t.sa, t.sb, la, lb, "", []string{"method", "func"}[(i+j)%2], map[string]interface{}{"axesA": t.aa, "axesB": t.ab})
					}
				}
			}
			// operands that do not conform must be refused (error or panic), in both orders
			for _, mm := range [][3]interface{}{{"Inner", []int{2}, []int{3}}, {"Inner", []int{3}, []int{2}}, {"Inner", []int{2, 1}, []int{3}}, {"Inner", []int{1, 2}, []int{1, 3}}, {"Inner", []int{3}, []int{1, 2}},
				{"MatVecMul", []int{2, 3}, []int{2}}, {"MatVecMul", []int{2, 3}, []int{4}}, {"MatMul", []int{2, 3}, []int{2, 3}}, {"MatMul", []int{2, 3}, []int{4, 2}}, {"MatMul", []int{3, 2}, []int{1, 2}}} {
				for _, api := range []string{"method", "func", "dot"} {
					if api == "func" && mm[0].(string) != "Inner" {
						continue
					}
					if api == "dot" && (mm[0].(string) == "Inner" || len(mm[2].([]int)) == 2 && mm[2].([]int)[0] == 1) {
						continue // Dot dispatches on the operands' vector-likeness: (m,k) x (1,k) is a valid matrix-vector product there
					}
					in := mkInst("vhC09", map[string]interface{}{"dtype": "float64", "routine": mm[0], "sa": mm[1], "sb": mm[2], "la": "C", "lb": "C", "mode": "", "api": api, "mismatch": 1}, "routine", "sa", "sb", "api", "mismatch")
					in.Ring = true
					out = append(out, in)
				}
			}
			return out
		},
	}
}

func init() {
	props["C16"] = &propDef{
		ID:       "C16",
		Anchored: []string{"AsFortran", "CalcStridesColMajor", "DataOrder", "HasSameOrder", "setDataOrder", "prepDataVV", "copyDenseIter", "handleFuncOpts", "StdEng).MatMul", "StdEng).MatVecMul", "StdEng).Outer", "StackDense", "tensor.Copy", "colMajor", "IsColMajor"},
		Bounds: map[string]interface{}{"method": "the harnesses of C01-C13 are re-run with each operand (and reuse/incr destination) independently column-major; their oracles are written over logical coordinates, so 'same logical result as the row-major run' is the same assertion",
			"operations": "element access, slicing (symbolic triples), transposition programs, frame/alias/copy, iterators, arithmetic/comparison/unary with option modes, reductions and arg-reductions, products, concat/stack/repeat, shape calculators, reshape (follows the tensor's own data order)",
			"shapes":     "rank 1-3 (rank 4 in thorough)", "serialisation": "covered by C14 where applicable"},
		Instances: func(tier string, seed int64) []Instance {
			var out []Instance
			n := 0
			// C01-style access
			for _, sh := range [][]int{{3}, {2, 3}, {3, 1}, {1, 3}, {2, 1, 2}, {2, 2, 2}} {
				for _, variant := range []string{"fraw", "fconv"} {
					for _, lay := range []string{"C", "T", "S", "TS"} {
						if (lay == "S" && sh[0] < 2) || (lay == "TS" && sh[len(sh)-1] < 2) || (lay == "T" && len(sh) < 2) {
							continue
						}
						for _, h := range []string{"vhC01At", "vhC01SetAt"} {
							n++
							out = append(out, mkInst(h, map[string]interface{}{"dtype": []string{"float64", "int8", "complex128", "string", "int16"}[n%5], "shape": sh, "variant": variant, "layout": lay, "arity_delta": 0}, "dtype", "shape", "variant", "layout"))
						}
					}
				}
			}
			// slicing / transposition / views / iterators with column-major sources
			for _, k := range []string{"rn", "nr", "ri", "r", "i"} {
				out = append(out, mkInst("vhC02Slice", map[string]interface{}{"dtype": "int", "shape": []int{3, 4}, "base": "F", "pre": []string{"", "T", "W"}[n%3], "kinds": k, "box": 2, "mat": n % 2, "splitstep": 0}, "shape", "base", "pre", "kinds"))
				n++
			}
			for _, sh := range [][]int{{2, 3}, {2, 3, 2}} {
				for _, prog := range []string{"T", "TU", "TX", "TM", "S", "R", "TT", "DX"} {
					n++
					out = append(out, mkInst("vhC03Prog", map[string]interface{}{"dtype": []string{"float64", "int8", "complex128"}[n%3], "shape": sh, "base": "F", "prog": prog, "storage": 1, "safeut": 1}, "dtype", "shape", "base", "prog"))
				}
			}
			for _, w := range []string{"memset", "zero", "setat", "copy", "neg", "add", "addscalar"} {
				for _, view := range []string{"slice", "T", "Tslice"} {
					n++
					dt := "float64"
					out = append(out, mkInst("vhC04Frame", map[string]interface{}{"dtype": dt, "shape": []int{3, 4}, "base": "F", "view": view, "axis": n % 2, "write": w, "srclayout": []string{"C", "F", "T"}[n%3]}, "view", "write", "srclayout", "axis"))
				}
			}
			for _, op := range []string{"clone", "materialize", "copy", "copyto", "safet", "apitranspose"} {
				for _, lt := range []int{0, 1} {
					if op == "copyto" && lt == 1 {
						continue
					}
					out = append(out, mkInst("vhC04Copy", map[string]interface{}{"dtype": "float64", "shape": []int{2, 3}, "layout": "F", "lazyT": lt, "op": op}, "op", "lazyT"))
				}
			}
			for _, sh := range [][]int{{3}, {2, 3}, {1, 3}, {3, 1}, {2, 2, 2}} {
				for _, lt := range []int{0, 1} {
					if lt == 1 && len(sh) < 2 {
						continue
					}
					out = append(out, mkInst("vhC05Dense", map[string]interface{}{"shape": sh, "layout": "F", "prog": "nFR", "lazyT": lt}, "shape", "lazyT"))
				}
				out = append(out, mkInst("vhC05Mult", map[string]interface{}{"shape": sh, "la": "F", "lb": "C", "lc": ""}, "shape", "la", "lb"))
				out = append(out, mkInst("vhC05Mult", map[string]interface{}{"shape": sh, "la": "C", "lb": "F", "lc": "T"}, "shape", "la", "lb", "lc"))
			}
			// elementwise families: every operand / destination independently column-major
			fl := []string{"F", "C", "T", "S"}
			for _, sh := range [][]int{{2, 3}, {3}, {2, 1, 2}} {
				for _, op := range []string{"Add", "Sub", "Mul", "Div", "Mod", "Pow", "MinBetween", "MaxBetween"} {
					for i, la := range fl {
						for j, lb := range fl {
							if la != "F" && lb != "F" {
								continue
							}
							if !layoutOK(sh, la) || !layoutOK(sh, lb) {
								continue
							}
							n++
							if tier == "quick" && len(sh) != 2 && (i+j+n)%3 != 0 {
								continue
							}
							dt := []string{"float64", "int", "int8", "complex128", "float32", "uint16"}[n%6]
							if (op == "Mod" || op == "MinBetween" || op == "MaxBetween") && dt == "complex128" {
								dt = "int32"
							}
							if op == "Pow" && dt != "float64" && dt != "float32" && dt != "complex128" {
								dt = "float64"
							}
							for mi, mode := range []string{"", "unsafe", "reuse", "incr"} {
								if mi > 0 && (tier == "quick" && (n+mi)%4 != 0) {
									continue
								}
								if mode != "" && (op == "MinBetween" || op == "MaxBetween") {
									continue
								}
								api := []string{"func", "method"}[n%2]
								if op == "MinBetween" || op == "MaxBetween" {
									api = "func"
								}
								out = append(out, mkInst("vhC06Bin", map[string]interface{}{"dtype": dt, "op": op, "form": "TT", "shape": sh, "la": la, "lb": lb, "api": api, "mode": mode, "ld": []string{"F", "C"}[(n+mi)%2]},
									"dtype", "op", "shape", "la", "lb", "mode", "ld"))
							}
						}
						if la == "F" {
							for _, form := range []string{"TS", "ST"} {
								n++
								out = append(out, mkInst("vhC06Bin", map[string]interface{}{"dtype": []string{"float64", "int"}[n%2], "op": op, "form": form, "shape": sh, "la": "F", "lb": "C", "api": "func", "mode": "", "ld": "C"}, "dtype", "op", "form", "shape", "la"))
							}
						}
					}
				}
				if len(sh) == 2 {
					for _, op := range []string{"Add", "Mul"} {
						for _, tr := range [][3]string{{"C", "C", "F"}, {"F", "F", "C"}, {"C", "F", "F"}, {"F", "C", "C"}} {
							for _, mode := range []string{"incr", "reuse"} {
								for _, form := range []string{"TT", "TS"} {
									n++
									out = append(out, mkInst("vhC06Bin", map[string]interface{}{"dtype": []string{"float64", "int", "float32"}[n%3], "op": op, "form": form, "shape": sh, "la": tr[0], "lb": tr[1], "api": "func", "mode": mode, "ld": tr[2]},
										"dtype", "op", "form", "shape", "la", "lb", "mode", "ld"))
								}
							}
						}
					}
				}
				if len(sh) == 2 {
					// two column-major operands into a fresh / reuse result (open finding KF-C16-cmp-colmajor) and unsafe (correct)
					for vi, v := range []string{"bool", "same", "reuse-bool", "unsafe"} {
						out = append(out, mkInst("vhC11Cmp", map[string]interface{}{"dtype": []string{"float64", "int"}[vi%2], "op": cmpOps[vi%len(cmpOps)], "form": "TT", "shape": sh, "la": "F", "lb": "F", "api": "func", "variant": v, "ld": "C"},
							"dtype", "op", "shape", "la", "lb", "variant", "ld"))
					}
				}
				for oi, op := range cmpOps {
					for _, la := range fl {
						for _, lb := range fl {
							if (la != "F" && lb != "F") || !layoutOK(sh, la) || !layoutOK(sh, lb) {
								continue
							}
							n++
							if tier == "quick" && (n+oi)%2 != 0 {
								continue
							}
							v := []string{"bool", "same", "unsafe", "reuse-bool", "reuse-same"}[n%5]
							out = append(out, mkInst("vhC11Cmp", map[string]interface{}{"dtype": []string{"float64", "int", "float32", "int8"}[n%4], "op": op, "form": "TT", "shape": sh, "la": la, "lb": lb, "api": []string{"func", "method"}[n%2], "variant": v, "ld": []string{"F", "C"}[n%2]},
								"dtype", "op", "shape", "la", "lb", "variant", "ld"))
						}
					}
				}
				for _, op := range []string{"Neg", "Abs", "Square", "Sqrt", "Clamp", "Sign", "Exp", "Inv"} {
					for mi, mode := range []string{"", "unsafe", "reuse", "incr"} {
						n++
						dt := []string{"float64", "float32"}[n%2]
						out = append(out, mkInst("vhC12Unary", map[string]interface{}{"dtype": dt, "op": op, "shape": sh, "la": "F", "mode": mode, "ld": []string{"F", "C"}[(n+mi)%2]}, "dtype", "op", "shape", "la", "mode", "ld"))
					}
				}
				out = append(out, mkInst("vhC12Apply", map[string]interface{}{"dtype": "float64", "shape": sh, "la": "F", "mode": "", "ld": "C"}, "shape", "la"))
			}
			// every comparison / arithmetic dispatcher x dtype with mixed data orders (iterator kernels)
			for _, pr := range [][2]string{{"F", "C"}, {"C", "F"}} {
				for _, dt := range ordDtypes {
					for _, op := range cmpOps {
						out = append(out, mkInst("vhC11Cmp", map[string]interface{}{"dtype": dt, "op": op, "form": "TT", "shape": []int{2, 3}, "la": pr[0], "lb": pr[1], "api": "func", "variant": "bool", "ld": "C"}, "dtype", "op", "la", "lb", "variant"))
					}
				}
				for _, dt := range numDtypes {
					for _, op := range []string{"Add", "Sub", "Mul", "Div"} {
						out = append(out, mkInst("vhC06Bin", map[string]interface{}{"dtype": dt, "op": op, "form": "TT", "shape": []int{2, 3}, "la": pr[0], "lb": pr[1], "api": "func", "mode": "", "ld": "C"}, "dtype", "op", "la", "lb"))
					}
				}
			}
			// serialisation of column-major tensors (the formats that carry the data order)
			for _, format := range []string{"gob", "pb", "fb", "npy", "csv"} {
				for _, sh := range [][]int{{2, 3}, {2, 1, 2}} {
					if format == "csv" && len(sh) != 2 {
						continue
					}
					for _, masked := range []int{0, 1} {
						cfg := map[string]interface{}{"dtype": []string{"float64", "int16"}[masked], "format": format, "shape": sh, "layout": "F"}
						keys := []string{"format", "dtype", "shape", "layout"}
						if masked == 1 {
							cfg["masked"] = 1
							keys = append(keys, "masked")
						}
						out = append(out, mkInst("vhC14", cfg, keys...))
					}
				}
			}
			// reductions
			for _, sh := range [][]int{{3}, {2, 3}, {2, 3, 2}} {
				r := len(sh)
				for mask := 1; mask < (1 << uint(r)); mask++ {
					var along []int
					for i := 0; i < r; i++ {
						if mask&(1<<uint(i)) != 0 {
							along = append(along, i)
						}
					}
					for _, op := range []string{"Sum", "Max", "Min"} {
						n++
						dt := []string{"int", "float64", "int8", "uint16"}[n%4]
						in := mkInst("vhC08Reduce", map[string]interface{}{"dtype": dt, "op": op, "shape": sh, "along": along, "la": "F", "api": []string{"method", "func"}[n%2]}, "dtype", "op", "shape", "along", "la")
						in.Ring = op == "Sum" && dt == "float64"
						out = append(out, in)
					}
				}
				for axis := -1; axis < r; axis++ {
					for _, op := range []string{"Argmax", "Argmin"} {
						n++
						out = append(out, mkInst("vhC08Arg", map[string]interface{}{"dtype": []string{"int", "float64"}[n%2], "op": op, "shape": sh, "axis": axis, "la": "F", "api": "method"}, "dtype", "op", "shape", "axis", "la"))
					}
				}
			}
			// products (both column-major, and mixed)
			for _, mm := range [][2][]int{{{2, 3}, {3, 2}}, {{2, 2}, {2, 2}}} {
				for _, lays := range [][2]string{{"F", "F"}, {"F", "C"}, {"C", "F"}, {"F", "LT"}} {
					for _, mode := range []string{"", "reuse", "incr"} {
						n++
						in := mkInst("vhC09", map[string]interface{}{"dtype": []string{"float64", "float32", "complex128"}[n%3], "routine": "MatMul", "sa": mm[0], "sb": mm[1], "la": lays[0], "lb": lays[1], "mode": mode, "api": "method"}, "dtype", "routine", "sa", "la", "lb", "mode")
						in.Ring = true
						out = append(out, in)
						in2 := mkInst("vhC09", map[string]interface{}{"dtype": []string{"float64", "float32"}[n%2], "routine": "MatVecMul", "sa": mm[0], "sb": []int{mm[0][1]}, "la": lays[0], "lb": lays[1], "mode": mode, "api": "method"}, "dtype", "routine", "sa", "la", "lb", "mode")
						in2.Ring = true
						out = append(out, in2)
					}
				}
			}
			for _, la := range []string{"F", "C"} {
				for _, lb := range []string{"F", "C"} {
					if la == "C" && lb == "C" {
						continue
					}
					in := mkInst("vhC09", map[string]interface{}{"dtype": "float64", "routine": "Outer", "sa": []int{2}, "sb": []int{3}, "la": la, "lb": lb, "mode": "", "api": "method"}, "routine", "la", "lb")
					in.Ring = true
					out = append(out, in)
					in3 := mkInst("vhC09", map[string]interface{}{"dtype": "float64", "routine": "Inner", "sa": []int{3}, "sb": []int{3}, "la": la, "lb": lb, "mode": "", "api": "method"}, "routine", "la", "lb")
					in3.Ring = true
					out = append(out, in3)
				}
			}
			// concat / stack / repeat
			for _, lays := range []string{"F,F", "F,C", "C,F", "F,T"} {
				for _, v := range []string{"concat", "func"} {
					out = append(out, mkInst("vhC10Concat", map[string]interface{}{"dtype": "float64", "n": 2, "axis": n % 2, "variant": v, "layouts": lays, "shape0": []int{2, 3}, "shape1": []int{2, 3}}, "variant", "layouts", "axis"))
					n++
				}
				out = append(out, mkInst("vhC10Stack", map[string]interface{}{"dtype": "float64", "n": 2, "axis": n % 3, "variant": "method", "layouts": lays, "shape0": []int{2, 3}, "shape1": []int{2, 3}}, "layouts", "axis"))
			}
			for axis := -1; axis < 2; axis++ {
				out = append(out, mkInst("vhC10Repeat", map[string]interface{}{"dtype": "float64", "axis": axis, "nrep": 1, "maxcount": 2, "variant": "method", "layouts": "F", "shape0": []int{2, 3}}, "axis", "layouts"))
			}
			// shape algebra and reshape
			for _, k := range []string{"nr", "rn", "ri"} {
				out = append(out, mkInst("vhC13Slice", map[string]interface{}{"shape": []int{2, 5}, "kinds": k, "box": 2, "base": "F"}, "shape", "kinds", "base"))
			}
			for _, to := range [][]int{{3, 2}, {6}, {1, 6}, {2, 3}} {
				out = append(out, mkInst("vhC13Reshape", map[string]interface{}{"shape": []int{2, 3}, "to": to, "layout": "F", "lazyT": 0, "thenT": 1, "pre": ""}, "to", "layout"))
			}
			for _, post := range []string{"", "T", "clone", "mat", "slice0"} {
				out = append(out, mkInst("vhC13Meta", map[string]interface{}{"shape": []int{2, 3, 2}, "layout": "F", "post": post}, "layout", "post"))
			}
			return out
		},
	}
}

func init() {
	props["C17"] = &propDef{
		ID:          "C17",
		KernelLevel: true,
		Anchored:    []string{"execution.", "storage.", "MaskedEqual", "MaskedGreater", "MaskedLess", "array).Get", "array).Set", "native."},
		Bounds: map[string]interface{}{"kernel_level": "every function of internal/execution/generic_*.go with a slice parameter whose name parses into (op, variant, dtype): symbolic slices of length 3 (4 with iterators: a contiguous and a lazily-transposed (2,2) access pattern), symbolic scalars, real FlatIterators; every cell of every argument compared with the type-generic table entry",
			"dispatch_level":     "public-API harnesses of C06/C11/C12/C08/C15 instantiated at EVERY element type the operation accepts, incl. iterator and incr variants (catches a reflect.Type case wired to the wrong kernel)",
			"cross_type":         "int8->16/32/64, int16->32/64, int32->64, uint likewise, float32->float64: + - x (and / % at 8->16 quick, all pairs with 60 s in thorough) agree after conversion when the wide result is representable; comparisons agree unconditionally",
			"native_conversions": "package native Vector*/Matrix*/Tensor3*/Select* and the reflect-based generic Vector/Matrix/Tensor3 for all 16 element types on the contiguous layout (thorough: + F,T,S), shapes (3),(2,3),(3,1),(2,3,2),(2,2,3), every axis (+ rank 4, scalar, 1-dims, rank mismatches in thorough); elements symbolic",
			"not_covered":        "string kernels (ordering of symbolic strings is not encoded), reduce/map helper kernels taking function values (exercised through C08/C12), masked arg kernels (C15/C08)"},
		Instances: func(tier string, seed int64) []Instance {
			var out []Instance
			n := 0
			// dispatch level: every dtype x op x variant through the public API (contiguous + iterator path + incr)
			for _, dt := range numDtypes {
				for _, op := range arithOps {
					for _, form := range []string{"TT", "TS", "ST"} {
						for _, la := range []string{"C", "T"} {
							for _, mode := range []string{"", "incr"} {
								n++
								if tier == "quick" && mode == "incr" && (n%2 == 0) {
									continue
								}
								if mode == "incr" && (op == "MinBetween" || op == "MaxBetween") {
									continue
								}
								out = append(out, mkInst("vhC06Bin", map[string]interface{}{"dtype": dt, "op": op, "form": form, "shape": []int{2, 2}, "la": la, "lb": "C", "api": "func", "mode": mode, "ld": "C"}, "dtype", "op", "form", "la", "mode"))
							}
						}
					}
				}
			}
			for _, dt := range allDtypes {
				for _, op := range cmpOps {
					for _, form := range []string{"TT", "TS", "ST"} {
						for _, la := range []string{"C", "T"} {
							for vi, v := range []string{"bool", "same"} {
								n++
								if tier == "quick" && (n+vi)%2 == 0 {
									continue
								}
								if dt == "string" && (v == "same" || (op != "ElEq" && op != "ElNe")) {
									continue
								}
								out = append(out, mkInst("vhC11Cmp", map[string]interface{}{"dtype": dt, "op": op, "form": form, "shape": []int{2, 2}, "la": la, "lb": "C", "api": "func", "variant": v, "ld": "C"}, "dtype", "op", "form", "la", "variant"))
							}
						}
					}
				}
			}
			for _, dt := range numDtypes {
				for _, op := range unaryOps {
					for _, la := range []string{"C", "T"} {
						out = append(out, mkInst("vhC12Unary", map[string]interface{}{"dtype": dt, "op": op, "shape": []int{2, 2}, "la": la, "mode": "", "ld": "C"}, "dtype", "op", "la"))
					}
				}
			}
			for _, dt := range ordDtypes {
				for _, op := range []string{"Sum", "Max", "Min"} {
					for _, along := range [][]int{{0}, {1}, {0, 1}} {
						in := mkInst("vhC08Reduce", map[string]interface{}{"dtype": dt, "op": op, "shape": []int{2, 3}, "along": along, "la": "C", "api": "method"}, "dtype", "op", "along")
						in.Ring = op == "Sum" && (dt == "float32" || dt == "float64")
						out = append(out, in)
					}
				}
				for _, op := range []string{"Argmax", "Argmin"} {
					for _, axis := range []int{-1, 0, 1} {
						out = append(out, mkInst("vhC08Arg", map[string]interface{}{"dtype": dt, "op": op, "shape": []int{2, 3}, "axis": axis, "la": "C", "api": "method"}, "dtype", "op", "axis"))
					}
				}
				for _, p := range []string{"Equal", "NotEqual", "Greater", "GreaterEqual", "Less", "LessEqual", "Inside", "Outside", "Values3"} {
					for _, soft := range []int{0, 1} {
						out = append(out, mkInst("vhC15Pred", map[string]interface{}{"dtype": dt, "pred": p, "shape": []int{3}, "soft": soft, "prior": 1, "rtol1": 1}, "dtype", "pred", "soft"))
					}
				}
			}
			// typed getters / setters for every element type (array.Get / array.Set / storage accessors)
			for _, dt := range allDtypes {
				out = append(out, mkInst("vhC01At", map[string]interface{}{"dtype": dt, "shape": []int{2, 2}, "variant": "row", "layout": "C", "arity_delta": 0}, "dtype"))
				out = append(out, mkInst("vhC01SetAt", map[string]interface{}{"dtype": dt, "shape": []int{2, 2}, "variant": "row", "layout": "C", "arity_delta": 0}, "dtype"))
			}
			pairs := []string{"i8-i16", "i8-i32", "i8-i64", "i16-i32", "i16-i64", "i32-i64", "i32-int", "u8-u16", "u8-u32", "u8-u64", "u16-u32", "u16-u64", "u32-u64", "u32-uint"}
			for _, p := range pairs {
				for _, op := range []string{"Add", "Sub", "Mul", "Div", "Mod"} {
					if (op == "Div" || op == "Mod") && tier == "quick" && !(p == "i8-i16" || p == "u8-u16" || p == "u8-u32" || p == "i8-i32") {
						continue
					}
					out = append(out, mkInst("vhC17Cross", map[string]interface{}{"pair": p, "op": op}, "pair", "op"))
				}
			}
			for _, op := range []string{"Add", "Sub", "Mul"} {
				if tier == "quick" && op != "Add" {
					continue // float32 vs float64 multiply / subtract lemmas need the 60 s limit of the thorough tier
				}
				out = append(out, mkInst("vhC17Cross", map[string]interface{}{"pair": "f32-f64", "op": op}, "pair", "op"))
			}
			out = append(out, nativeInstances(tier, "C17")...)
			return out
		},
	}
}

func init() {
	props["C19"] = &propDef{
		ID:       "C19",
		Anchored: []string{"BorrowInts", "ReturnInts", "BorrowBools", "ReturnBools", "borrowDense", "ReturnTensor", "borrowOpOpt", "returnOpOpt", "SetShape", "CloneTo", ").Clone", ").UT", ").RollAxis", "reuseCheckShape", ").TensorMul", "handleFuncOpts", "recycledDense"},
		Bounds: map[string]interface{}{"caller_slices": "T / Transpose / UT / ReturnTensor after T, Reshape (also with the tensor's own shape), Sum/Max/Min(along), Repeat, At/SetAt, New(WithShape), TensorMul(axesA,axesB), RollAxis, Slice: argument cells unchanged after the call and after the follow-up, not reachable from tensor metadata, and never handed out by the int pool afterwards",
			"histories":  "programs of 3-9 steps over {new, lazy T, UT, Transpose, Reshape, safe/unsafe/reuse/incr Add, Sum, Clone, Materialize, row-view, Memset through a tensor or view, safe Apply, ReturnTensor, borrow-and-scribble on pooled ints} on up to 6 live tensors with symbolic elements; after EVERY step every live tensor's shape and elements equal its model",
			"pool_model": "sync.Pool = LIFO stack per pool object (the item just returned is the next one handed out: the most aliasing-adversarial single schedule); channel pools are real code", "outside": "histories longer than 9 steps; other sync.Pool schedules (victim cache, per-P shards)"},
		Assume: []string{"sync.Pool modelled as a LIFO stack; finalizers never run"},
		Instances: func(tier string, seed int64) []Instance {
			var out []Instance
			add := func(cfg map[string]interface{}, keys ...string) {
				out = append(out, mkInst("vhC19Args", cfg, keys...))
			}
			for _, sp := range []struct {
				s []int
				p []int
			}{{[]int{2, 3}, []int{1, 0}}, {[]int{2, 3, 2}, []int{1, 2, 0}}, {[]int{2, 3, 2}, []int{2, 0, 1}}, {[]int{2, 2, 2, 2}, []int{3, 1, 0, 2}}} {
				for _, op := range []string{"T", "T-UT", "T-Transpose", "T-Return"} {
					add(map[string]interface{}{"op": op, "shape": sp.s, "perm": sp.p}, "op", "shape", "perm")
				}
			}
			for _, r := range []struct{ s, to []int }{{[]int{2, 3}, []int{3, 2}}, {[]int{2, 3}, []int{6}}, {[]int{2, 3, 2}, []int{4, 3}}, {[]int{6}, []int{2, 3}}} {
				add(map[string]interface{}{"op": "Reshape", "shape": r.s, "to": r.to}, "op", "shape", "to")
				add(map[string]interface{}{"op": "Reshape-own", "shape": r.s}, "op", "shape")
			}
			for _, al := range [][]int{{2, 0}, {1, 0}, {0, 1, 2}, {2, 1}, {1}} {
				for _, op := range []string{"Sum", "Max", "Min"} {
					add(map[string]interface{}{"op": op, "shape": []int{2, 3, 2}, "along": al}, "op", "along")
				}
			}
			add(map[string]interface{}{"op": "Repeat", "shape": []int{2, 3}, "axis": 1, "reps": []int{1, 0, 2}}, "op", "reps")
			add(map[string]interface{}{"op": "Repeat", "shape": []int{2, 3}, "axis": 0, "reps": []int{2}}, "op", "reps")
			for _, op := range []string{"At", "SetAt", "WithShape", "Slice"} {
				add(map[string]interface{}{"op": op, "shape": []int{2, 3, 2}}, "op", "shape")
			}
			add(map[string]interface{}{"op": "TensorMul", "shape": []int{2, 2, 2}, "axesA": []int{2, 0}, "axesB": []int{1, 0}}, "op", "axesA")
			add(map[string]interface{}{"op": "TensorMul", "shape": []int{2, 2}, "axesA": []int{1}, "axesB": []int{0}}, "op", "axesA")
			for ax := 0; ax < 3; ax++ {
				for st := 0; st <= 3; st++ {
					add(map[string]interface{}{"op": "RollAxis", "shape": []int{2, 3, 2}, "axis": ax, "start": st}, "op", "axis", "start")
				}
			}
			progs := []string{
				// masks: a view of a masked tensor is returned to the pool while the parent lives; later pooled tensors build masks
				"n0:4x2,k0,v01,R1,K2:3x2,K3:2x2,B",
				"n0:3x2,k0,c01,R0,K2:3x2,w2",
				"n0:4x2,k0,v01,z12,R1,K3:3x2,R2,K4:3x2",
				"n0:2x3,n1:2x3,a012,B,n3:2x3",
				"n0:2x3,n1:2x3,n2:6,U012,B,n3:5x7,a014",
				"n0:2x3,n1:2x3,n2:3x2,I012,B,n3:4x4",
				"n0:2x3,t0,n1:3x2,B,u0,n2:2x3,B",
				"n0:2x3x2,t0,x0,B,n1:2x3x2,R0,n2:2x3x2,B",
				"n0:2x3,c01,R0,n2:2x3,w2,B",
				"n0:4x3,v01,z12,w2,B",
				"n0:4x3,v01,p1,B",
				"n0:4x3,v01,w1,B,n2:3x3",
				"n0:2x3,m01,R1,n2:3,w2,B",
				"n0:2x3,r0:3x2,B,n1:3x2,a012,R2,n3:3x2,B",
				"n0:2x3,n1:2x3,A01,R1,n2:2x3,B",
				"n0:2x3,t0,R0,n1:2x3,t1,n2:3x2,B,u1",
				"n0:2x3x2,m01,m12,R1,n3:3x2,B",
				"n0:2x2,n1:2x2,a012,a023,R2,a014,B,R3,n5:2x2",
				// a clone of a lazily transposed tensor must own its saved access pattern: materialising, reshaping or recycling
				// the clone may not take the source's saved shape/strides with it (seen at the source's next UT)
				"n0:2x3,t0,c01,x1,B,u0",
				"n0:2x3,t0,c01,r1:6,B,u0,B",
				"n0:2x3x2,t0,c01,R1,n2:2x3x2,B,u0",
				"n0:2x3,t0,c01,u1,B,x0",
			}
			if tier == "thorough" {
				progs = append(progs,
					"n0:2x3,n1:2x3,n2:6,U012,R2,n3:6,U013,B,n4:2x3,a045",
					"n0:3x3,v01,t1,z12,w2,B,u1,w1",
					"n0:2x3,t0,r0:6,B,n1:6,a012,R2,R1,n3:6,B",
					"n0:2x3x2,t0,c01,u0,x1,B,R1,n2:2x3x2,B,R0,n3:2x3x2")
			}
			// a scalar operand given as a scalar-shaped tensor is a live tensor: every arithmetic operation, layout and mode
			// must hand it back unchanged, and must not recycle its storage (checked by a later Go-scalar operation)
			nz := 0
			for _, op := range []string{"Add", "Sub", "Mul", "Div"} {
				for _, la := range []string{"C", "T", "S", "SS"} {
					for _, mode := range []string{"", "unsafe", "reuse", "incr"} {
						nz++
						out = append(out, mkInst("vhC06Bin", map[string]interface{}{"dtype": []string{"float64", "int", "float32"}[nz%3], "op": op, "form": "TZ", "shape": []int{2, 3}, "la": la, "lb": "C", "api": "func", "mode": mode, "ld": "C", "after": 1},
							"dtype", "op", "form", "la", "api", "mode"))
					}
				}
			}
			for _, p := range progs {
				out = append(out, mkInst("vhC19Hist", map[string]interface{}{"prog": p}, "prog"))
			}
			return out
		},
	}
}

// deriveInst clones an instance with extra cfg keys and a name suffix.
func deriveInst(in Instance, extra map[string]interface{}, suffix string) Instance {
	cfg := map[string]interface{}{}
	for k, v := range in.Cfg {
		cfg[k] = v
	}
	for k, v := range extra {
		cfg[k] = v
	}
	return Instance{Harness: in.Harness, Cfg: cfg, Ring: in.Ring, Name: in.Name + "@" + suffix}
}

func init() {
	props["C20"] = &propDef{
		ID: "C20",
		Anchored: []string{"Float64Engine", "Float32Engine", "WithEngine", "handleFuncOptsF64", "handleFuncOptsF32", "prepDataVSF64", "prepDataVSF32", "divmod", "denseTranspose", "StdEng).Transpose", ").fix",
			"vecf64", "vecf32", "api_arith.go:FMA", "tensor.FMA", ").Inner"},
		Bounds: map[string]interface{}{
			"differential":          "vhC20Diff: the same symbolic element values are given to tensors of the default engine and of Float64Engine/Float32Engine; outcome, returned-tensor identity relation, result elements and the final contents of every backing array (operands, destination, cells outside view windows) are asserted bit-equal. ops Add (specialised kernel), Sub/Mul/Div (embedded default kernels reached through the specialised engine's dispatch), FMA, FMAScalar, Inner, MatMul, MatVecMul, Outer; forms tensor-tensor, tensor-scalar, scalar-tensor; modes safe/unsafe/reuse/incr/reuse-of-first-operand; layouts C,F,T,S,SS per operand and destination; shapes rank 1-3 (dims<=3)",
			"oracle":                "the C06/C07 and C09 oracle harnesses re-run with every tensor carrying the specialised engine (cfg engine), the C03 programs under the inplacetranspose tag and with the specialised engines, the C01/C03/C05 index harnesses under the noasm tag (the Go body of divmod is then the executed code)",
			"asm":                   "divmod_amd64.s is parsed from the tree and encoded instruction by instruction (MOVQ, CMPQ, JEQ, JMP, CQO, IDIVQ with #DE, NEGQ, RET) over 64-bit vectors: quotient and remainder equal Go's a/b and a%b for every a and every b != 0, with no divide error",
			"float_model":           "FMA/Inner/products in ring mode (floats as mathematical integers: exactness of the index/accumulation structure, not rounding); Add/Sub/Mul/Div in the FP theory",
			"engine_dtype_mismatch": "a float64 engine on float32 data (and vice versa) may refuse; a refusal must leave every operand untouched",
			"outside":               "operands of different shapes (the specialised Add does not re-check shapes; the default engine refuses them), sparse operands, engines other than the two shipped ones, GOARCH other than amd64 for the assembly",
		},
		Instances: func(tier string, seed int64) []Instance {
			var out []Instance
			thorough := tier == "thorough"
			out = append(out, Instance{Harness: "@asm:divmod", Cfg: map[string]interface{}{}, Name: "@asm:divmod"})
			out = append(out, mkInst("vhC20Divmod", map[string]interface{}{"tags": "noasm"}, "tags"))
			out = append(out, mkInst("vhC20Divmod", map[string]interface{}{}))
			engs := []struct{ e, dt string }{{"f64", "float64"}, {"f32", "float32"}}
			n := 0
			lays := []string{"C", "F", "T", "S"}
			shapes := [][]int{{3}, {2, 3}, {2, 1, 2}}
			if thorough {
				shapes = append(shapes, []int{3, 1}, []int{1, 3}, []int{2, 2, 2}, []int{1})
				lays = append(lays, "SS")
			}
			// differential: arithmetic
			for _, sh := range shapes {
				for _, op := range []string{"Add", "Sub", "Mul", "Div"} {
					for _, form := range []string{"TT", "TS", "ST"} {
						for _, mode := range []string{"", "unsafe", "reuse", "incr", "reuseA"} {
							for li, la := range lays {
								if !layoutOK(sh, la) {
									continue
								}
								for lj, lb := range lays {
									if form != "TT" && lj > 0 {
										continue
									}
									if !layoutOK(sh, lb) {
										continue
									}
									n++
									if op != "Add" && !thorough && n%4 != 0 {
										continue
									}
									if !thorough && op == "Add" && form == "TT" && li != 0 && lj != 0 && (li+lj+n)%2 == 0 {
										continue
									}
									ld := lays[(li+lj+n)%len(lays)]
									if !layoutOK(sh, ld) {
										ld = "C"
									}
									for ei, eg := range engs {
										if !thorough && op != "Add" && (n/4)%2 != ei {
											continue
										}
										api := []string{"func", "method"}[(n+ei)%2]
										cfg := map[string]interface{}{"dtype": eg.dt, "engine": eg.e, "op": op, "form": form, "shape": sh, "la": la, "lb": lb, "ld": ld, "mode": mode, "api": api}
										out = append(out, mkInst("vhC20Diff", cfg, "engine", "op", "form", "shape", "la", "lb", "ld", "mode", "api"))
									}
								}
							}
						}
					}
				}
			}
			// differential: FMA / FMAScalar (ring)
			for _, sh := range shapes {
				for _, op := range []string{"FMA", "FMAScalar"} {
					for li, la := range lays {
						for lj, lb := range lays {
							if op == "FMAScalar" && lj > 0 {
								continue
							}
							for lk, ld := range lays {
								if !layoutOK(sh, la) || !layoutOK(sh, lb) || !layoutOK(sh, ld) {
									continue
								}
								n++
								if !thorough && li != 0 && lj != 0 && lk != 0 && n%3 != 0 {
									continue
								}
								eg := engs[n%2]
								cfg := map[string]interface{}{"dtype": eg.dt, "engine": eg.e, "op": op, "shape": sh, "la": la, "lb": lb, "ld": ld}
								in := mkInst("vhC20Diff", cfg, "engine", "op", "shape", "la", "lb", "ld")
								in.Ring = true
								out = append(out, in)
							}
						}
					}
				}
			}
			// differential: Inner and products (ring)
			for _, la := range []string{"C", "S", "SS"} {
				for _, lb := range []string{"C", "S", "SS"} {
					for _, eg := range engs {
						cfg := map[string]interface{}{"dtype": eg.dt, "engine": eg.e, "op": "Inner", "shape": []int{3}, "la": la, "lb": lb}
						in := mkInst("vhC20Diff", cfg, "engine", "op", "shape", "la", "lb")
						in.Ring = true
						out = append(out, in)
					}
				}
			}
			for _, pr := range []struct {
				op         string
				sa, sb, sd []int
			}{{"MatMul", []int{2, 3}, []int{3, 2}, []int{2, 2}}, {"MatVecMul", []int{2, 3}, []int{3}, []int{2}}, {"Outer", []int{2}, []int{3}, []int{2, 3}}} {
				for _, mode := range []string{"", "reuse", "incr"} {
					for li, la := range []string{"C", "F", "T", "S"} {
						for lj, lb := range []string{"C", "F", "T", "S"} {
							if !layoutOK(pr.sa, la) || !layoutOK(pr.sb, lb) {
								continue
							}
							n++
							if !thorough && li != 0 && lj != 0 && n%3 != 0 {
								continue
							}
							eg := engs[n%2]
							cfg := map[string]interface{}{"dtype": eg.dt, "engine": eg.e, "op": pr.op, "shape": pr.sa, "shapeb": pr.sb, "shaped": pr.sd, "la": la, "lb": lb, "ld": "C", "mode": mode}
							in := mkInst("vhC20Diff", cfg, "engine", "op", "la", "lb", "mode")
							in.Ring = true
							out = append(out, in)
						}
					}
				}
			}
			// engine/dtype mismatch: refusal or equality, never a silent difference
			for _, op := range []string{"Add", "FMA", "FMAScalar", "Mul"} {
				for _, mode := range []string{"", "unsafe", "reuse"} {
					if op != "Add" && op != "Mul" && mode != "" {
						continue
					}
					for _, eg := range []struct{ e, dt string }{{"f64", "float32"}, {"f32", "float64"}} {
						cfg := map[string]interface{}{"dtype": eg.dt, "engine": eg.e, "op": op, "form": "TT", "shape": []int{2, 2}, "la": "C", "lb": "C", "ld": "C", "mode": mode, "api": "func"}
						in := mkInst("vhC20Diff", cfg, "engine", "dtype", "op", "mode")
						in.Ring = op == "FMA" || op == "FMAScalar"
						out = append(out, in)
					}
				}
			}
			// oracle harnesses of C06/C07/C09/C03 with the specialised engines
			pick := func(id string, every int, keep func(Instance) bool, extra func(Instance) (map[string]interface{}, string)) {
				k := 0
				for _, in := range props[id].Instances(tier, seed) {
					if !keep(in) {
						continue
					}
					k++
					if !thorough && k%every != 0 {
						continue
					}
					ex, suf := extra(in)
					out = append(out, deriveInst(in, ex, suf))
				}
			}
			engOf := func(in Instance) (map[string]interface{}, string) {
				if in.Cfg["dtype"] == "float32" {
					return map[string]interface{}{"engine": "f32"}, "f32eng"
				}
				return map[string]interface{}{"engine": "f64"}, "f64eng"
			}
			isFloat := func(in Instance) bool {
				dt, _ := in.Cfg["dtype"].(string)
				_, tagged := in.Cfg["tags"]
				return (dt == "float64" || dt == "float32") && !tagged
			}
			pick("C06", 8, isFloat, engOf)
			pick("C07", 8, isFloat, engOf)
			pick("C09", 5, isFloat, engOf)
			pick("C03", 3, func(in Instance) bool { return isFloat(in) && in.Harness == "vhC03Prog" }, engOf)
			// build tags
			untagged := func(in Instance) bool { _, t := in.Cfg["tags"]; return !t }
			tagOf := func(tag string) func(Instance) (map[string]interface{}, string) {
				return func(Instance) (map[string]interface{}, string) { return map[string]interface{}{"tags": tag}, tag }
			}
			movesData := func(in Instance) bool {
				p, _ := in.Cfg["prog"].(string)
				return untagged(in) && in.Harness == "vhC03Prog" && strings.ContainsAny(p, "XDM")
			}
			// the in-place algorithm has one routine per element size and early exits by element count: every size class
			// on small shapes (exactly 4 elements included)
			for _, dt := range []string{"int8", "int16", "float32", "float64", "complex128", "string", "bool", "uint16"} {
				for si, sh := range [][]int{{2, 2}, {2, 3}, {2, 1, 2}, {2, 2, 2}, {3, 2}, {1, 2, 2}, {3, 3}} {
					for pi, prog := range []string{"TX", "DX", "TXT", "DXD"} {
						if !thorough && pi >= 2 && (si+pi)%3 != 0 {
							continue
						}
						in := mkInst("vhC03Prog", map[string]interface{}{"dtype": dt, "shape": sh, "base": "C", "prog": prog, "storage": 1, "safeut": 1, "tags": "inplacetranspose"}, "dtype", "shape", "base", "prog")
						in.Name += "@inplacetranspose"
						out = append(out, in)
					}
				}
			}
			pick("C03", 3, movesData, tagOf("inplacetranspose"))
			pick("C03", 9, movesData, tagOf("noasm,inplacetranspose"))
			pick("C03", 12, func(in Instance) bool { return untagged(in) && in.Harness == "vhC03Prog" }, tagOf("noasm"))
			pick("C01", 10, untagged, tagOf("noasm"))
			pick("C05", 10, untagged, tagOf("noasm"))
			if thorough {
				// (sources with non-canonical strides panic in the in-place build: the open finding; only canonical ones here)
				pick("C04", 4, func(in Instance) bool {
					return untagged(in) && (in.Harness != "vhC04Copy" || (in.Cfg["layout"] == "C" && in.Cfg["lazyT"] == 0))
				}, tagOf("inplacetranspose"))
				pick("C02", 6, untagged, tagOf("noasm"))
			}
			return out
		},
	}
}

func init() {
	props["C14"] = &propDef{
		ID: "C14",
		Anchored: []string{"GobEncode", "GobDecode", "WriteNpy", "ReadNpy", "WriteCSV", "ReadCSV", "convFromStrs", "PBEncode", "PBDecode", "FBEncode", "FBDecode", "numpyDtype", "fromNumpyDtype",
			"serialization/pb", "serialization/fb", "binaryWriter", "binaryReader"},
		Bounds: map[string]interface{}{
			"round_trip": "the real encoder and the real decoder run back to back over a byte-accurate stream; element values (and mask bits) are symbolic over their full range incl. non-finite floats; dtype/shape/layout/mask presence are instantiated",
			"formats":    "npy: header text concrete, element bytes symbolic through a little-endian model of encoding/binary; pb: the generated gogo-protobuf Marshal/Unmarshal code of internal/serialization/pb is executed; fb: the flatbuffers builder and table readers (github.com/google/flatbuffers/go) are executed; gob and csv: the library's field/record logic is executed, encoding/gob and encoding/csv are FIFO models (assumed lossless), fmt %v / strconv.Parse* of a symbolic number are an injective uninterpreted string and its inverse (assumed to round-trip values; NaN payloads are not compared for csv)",
			"shapes":     "rank 0-3 (rank 4 in thorough) incl. scalars, (1,n), (n,1), length-one axes", "layouts": "C, F (column-major), T (lazily transposed), S (sliced view)", "masks": "every mask bit symbolic, through SetMaskAt in logical coordinates",
			"dtypes":  "all 16 dtypes with a Go kind the formats know (bool, ints, uints, floats, complex, string); a refusal (error) is accepted, a stream that reads back differently or cannot be read back is a violation",
			"outside": "sparse tensors (sparse_io.go has no encoder), interoperability with real NumPy / protobuf / flatbuffers readers (only self round trips), csv formats other than %v, I/O errors of the underlying writer/reader",
		},
		Assume: []string{"encoding/gob and encoding/csv transport what they are given without loss (FIFO models)", "strconv.Parse*(fmt %v of x) == x for every numeric element type (uninterpreted injective string; NaN payloads not compared)",
			"encoding/binary little-endian layout of fixed-size values (model); int/uint are rejected as not fixed-size, as the real package does", "regexp / strings / strconv on the concrete npy header are called natively"},
		Instances: func(tier string, seed int64) []Instance {
			var out []Instance
			thorough := tier == "thorough"
			shapes := [][]int{{}, {3}, {1, 3}, {3, 1}, {2, 3}, {2, 1, 2}}
			if thorough {
				shapes = append(shapes, []int{2, 2, 2}, []int{1, 2, 1, 2}, []int{1}, []int{1, 1})
			}
			allDt := []string{"bool", "int", "int8", "int16", "int32", "int64", "uint", "uint8", "uint16", "uint32", "uint64", "float32", "float64", "complex64", "complex128", "string"}
			n := 0
			for _, format := range []string{"npy", "gob", "pb", "fb", "csv"} {
				for si, sh := range shapes {
					for li, lay := range []string{"C", "F", "T", "S"} {
						if !layoutOK(sh, lay) {
							continue
						}
						for _, masked := range []int{0, 1} {
							for di, dt := range allDt {
								full := dt == "float64" || (dt == "int16" && (li == 0 || si == 4))
								if !full && !thorough {
									// other dtypes: the plain matrix, plus one rotating odd (shape, layout, mask) combination
									if !((si == 4 && li == 0 && masked == 0) || (si+li+masked+di)%11 == 0) {
										continue
									}
								}
								if masked == 1 && len(sh) == 0 {
									continue
								}
								n++
								cfg := map[string]interface{}{"dtype": dt, "format": format, "shape": sh, "layout": lay}
								keys := []string{"format", "dtype", "shape", "layout"}
								if masked == 1 {
									cfg["masked"] = 1
									keys = append(keys, "masked")
								}
								out = append(out, mkInst("vhC14", cfg, keys...))
							}
						}
					}
				}
			}
			return out
		},
	}
}

func init() {
	props["C18"] = &propDef{
		ID: "C18",
		Anchored: []string{"borrowDense", "ReturnTensor", "BorrowInts", "ReturnInts", "borrowHeader", "returnHeader", "BorrowBools", "borrowOpOpt", "returnOpOpt", "scalarPool", "allocScalar", "freeScalar",
			"StdEng).Dot", "StdEng).MatMul", "StdEng).MatVecMul", "StdEng).Inner", "StdEng).Outer", ").UT", ").T", ").Clone", ").Materialize", ").Slice", ").At", "whichblas"},
		Bounds: map[string]interface{}{
			"reduction":           "one goroutine's program (one read-only operation of the menu) is executed symbolically after a barrier; every object that exists at the barrier and is reachable from the shared operands or from a package global is shared. Obligations (at the access, over every feasible path, elements symbolic): no store into a shared operand (not even a temporary one); no store into library-global state outside a mutex; across the menu, nothing read outside a mutex is written by any menu operation; no object is put into a pool (sync.Pool or channel pool) in which it is already parked (it would be handed to two goroutines). Races are pairwise and need a write, so these three facts exclude a race between any number of goroutines running menu operations on shared read-only operands and private tensors, and with no shared location written each goroutine computes its sequential result.",
			"menu":                "At, Slice, Slice+At, iteration, Add, AddScalar, Mul, Gt, ElEq(as same type), Neg, Sqrt, Sum (all / axis), Max, Argmax, Argmin(all), MatMul, MatVecMul, Inner, Outer, Dot (mm, mv, vm, vv), TensorMul, Clone, Materialize, SafeT, Transpose/T (api, copying), Concat, Stack, Repeat, Reshape of a clone, Apply, Eq, CopyTo/Copy into a private tensor, Norm (unordered, Frobenius, 1, 2 along an axis), Outer into a column-major destination, every tensor-scalar arithmetic / comparison method (both operand orders); and on private clones: Add with reuse / reuse of another shape / incr / unsafe, scalar Mul and Gt with reuse, T+UT, Transpose, Reshape, SetAt, Zero of a slice, ReturnTensor",
			"operands":            "float64, shapes <= (2,3)/(3,2), first operand C / lazily transposed / sliced view, second operand C / transposed / sliced",
			"atomic_by_contract":  "sync.Pool Get/Put, channel send/receive/select, sync.Mutex - the executor's intrinsics; their internals and the Go memory model are trusted",
			"native_confirmation": "a counterexample is replayed as 4 goroutines x 25 runs of the operation over the same operands under the race detector (go test -race); only a reported DATA RACE counts",
			"outside":             "programs of more than one operation per goroutine and objects retained after being handed to a pool (C19 decides the bounded histories), GOMAXPROCS / scheduler effects (the claim is schedule-independent by construction), formatting (fmt), BLAS implementations other than the default gonum one (blas.Use)",
		},
		Assume: []string{"an object taken from a pool was not retained by whoever put it there (C19)", "package initialisers have completed before goroutines start"},
		Instances: func(tier string, seed int64) []Instance {
			var out []Instance
			ops := []string{"At", "Slice", "SliceAt", "Iterate", "Add", "AddScalar", "Mul", "Gt", "ElEq", "Neg", "Sqrt", "Sum", "Sum0", "Max1", "Argmax", "ArgminAll", "MatMul", "MatVecMul", "Inner", "Outer",
				"Dot-mm", "Dot-mv", "Dot-vm", "Dot-vv", "TensorMul", "Clone", "Materialize", "SafeT", "Transpose-api", "T-api", "Concat", "Stack", "Repeat", "Reshape-clone", "Apply", "Eq", "CopyTo", "Copy-api",
				"Norm-unordered", "Norm-fro", "Norm2-axis", "Norm1", "Outer-reuseF", "Concat-rowvec",
				"SubScalar", "SubScalar-left", "MulScalar", "DivScalar", "DivScalar-left", "PowScalar", "ModScalar", "GtScalar", "LteScalar-left", "ElEqScalar",
				"Priv-AddReuse", "Priv-AddReuseReshape", "Priv-AddIncr", "Priv-AddUnsafe", "Priv-ScalarReuse", "Priv-GtReuse", "Priv-T-UT", "Priv-Transpose", "Priv-Reshape", "Priv-SetAt", "Priv-SliceZero", "Priv-ReturnTensor"}
			ringOps := map[string]bool{"Outer-reuseF": true, "Sum": true, "Sum0": true, "MatMul": true, "MatVecMul": true, "Inner": true, "Outer": true, "Dot-mm": true, "Dot-mv": true, "Dot-vm": true, "Dot-vv": true, "TensorMul": true}
			lays := []string{"C", "T", "S"}
			n := 0
			for _, op := range ops {
				for li, la := range lays {
					for lj, lb := range lays {
						sa, sb := c18Shapes(op)
						if !layoutOK(sa, la) || !layoutOK(sb, lb) || (la == "T" && len(sa) < 2) || (lb == "T" && len(sb) < 2) {
							continue
						}
						n++
						if tier != "thorough" && li != 0 && lj != 0 && n%2 == 0 {
							continue
						}
						cfg := map[string]interface{}{"op": op, "la": la, "lb": lb}
						switch op {
						case "Dot-vm":
							cfg["kf"], cfg["kf_label"] = "KF-C18-dot-vm", "shared:1"
						case "Norm-unordered", "Norm-fro":
							cfg["kf"], cfg["kf_label"] = "KF-C18-norm-ap", "shared:0"
						case "Outer-reuseF":
							cfg["kf"], cfg["kf_label"] = "KF-C18-outer-colmajor", "shared:"
						}
						in := mkInst("vhC18Op", cfg, "op", "la", "lb")
						in.Ring = ringOps[op]
						out = append(out, in)
					}
				}
			}
			return out
		},
	}
}

func c18Shapes(op string) (sa, sb []int) {
	switch op {
	case "MatMul", "Dot-mm", "TensorMul":
		return []int{2, 3}, []int{3, 2}
	case "MatVecMul", "Dot-mv":
		return []int{2, 3}, []int{3}
	case "Dot-vm":
		return []int{2}, []int{2, 3}
	case "Inner", "Dot-vv":
		return []int{3}, []int{3}
	case "Outer", "Outer-reuseF":
		return []int{2}, []int{3}
	case "Concat-rowvec":
		return []int{1, 3}, []int{1, 3}
	}
	return []int{2, 3}, []int{2, 3}
}

// nativeInstances: the conversions of package native (harness/native__h_native.go). C04 asks for "every source layout" on a
// few element sizes; C17 asks for every element type on the contiguous layout plus the layouts that a conversion accepts.
func nativeInstances(tier string, prop string) []Instance {
	var out []Instance
	all := []string{"B", "I", "I8", "I16", "I32", "I64", "U", "U8", "U16", "U32", "U64", "F32", "F64", "C64", "C128", "Str"}
	type cs struct {
		conv  string
		shape []int
		axis  int
	}
	cases := []cs{{"vector", []int{3}, 0}, {"matrix", []int{2, 3}, 0}, {"matrix", []int{3, 1}, 0}, {"tensor3", []int{2, 3, 2}, 0}, {"tensor3", []int{2, 2, 3}, 0},
		{"gvector", []int{3}, 0}, {"gmatrix", []int{2, 3}, 0}, {"gtensor3", []int{2, 3, 2}, 0}, {"gtensor3", []int{2, 2, 3}, 0}, // generic.go (reflect-based)
		{"select", []int{3}, 0}, {"select", []int{2, 3}, 0}, {"select", []int{2, 3}, 1}, {"select", []int{2, 3, 2}, 0}, {"select", []int{2, 3, 2}, 1}, {"select", []int{2, 2, 3}, 2}}
	if tier == "thorough" {
		cases = append(cases, cs{"vector", []int{1}, 0}, cs{"matrix", []int{1, 4}, 0}, cs{"matrix", []int{3, 3}, 0}, cs{"tensor3", []int{3, 1, 2}, 0}, cs{"tensor3", []int{1, 3, 4}, 0},
			cs{"select", []int{}, 0}, cs{"select", []int{4, 2}, 1}, cs{"select", []int{2, 2, 2, 2}, 2}, cs{"select", []int{2, 2, 2, 2}, 1}, cs{"vector", []int{2, 3}, 0}, cs{"matrix", []int{2, 3, 2}, 0}, cs{"select", []int{2, 3}, 2})
	}
	dts := all
	layouts := []string{"C"}
	if prop == "C04" {
		dts = []string{"U8", "I32", "F64", "C128", "Str"}
		layouts = []string{"C", "F", "T", "S", "SS"}
		if tier == "thorough" {
			dts = all
			layouts = append(layouts, "M")
		}
	} else if tier == "thorough" {
		layouts = []string{"C", "F", "T", "S"}
	}
	for _, dt := range dts {
		for _, c := range cases {
			for _, la := range layouts {
				if len(c.shape) == 0 && la != "C" {
					continue
				}
				out = append(out, mkInst("native.VhNative"+dt, map[string]interface{}{"conv": c.conv, "shape": c.shape, "axis": c.axis, "base": la}, "conv", "shape", "axis", "base"))
			}
		}
	}
	return out
}
