package main

// Instance matrices per property.

import (
	"fmt"
	"strings"
)

var allDtypes = []string{"bool", "int", "int8", "int16", "int32", "int64", "uint", "uint8", "uint16", "uint32", "uint64", "uintptr", "float32", "float64", "complex64", "complex128", "string"}
var numDtypes = []string{"int", "int8", "int16", "int32", "int64", "uint", "uint8", "uint16", "uint32", "uint64", "float32", "float64", "complex64", "complex128"}
var ordDtypes = []string{"int", "int8", "int16", "int32", "int64", "uint", "uint8", "uint16", "uint32", "uint64", "float32", "float64"}
var intDtypes = []string{"int", "int8", "int16", "int32", "int64", "uint", "uint8", "uint16", "uint32", "uint64"}
var fltDtypes = []string{"float32", "float64"}
var cpxDtypes = []string{"complex64", "complex128"}

var quickShapes = [][]int{{}, {3}, {1, 3}, {3, 1}, {2, 3}, {2, 1, 2}, {2, 2, 2}}

func thoroughShapes() [][]int {
	var out [][]int
	out = append(out, []int{})
	for a := 1; a <= 3; a++ {
		out = append(out, []int{a})
		for b := 1; b <= 3; b++ {
			out = append(out, []int{a, b})
			for c := 1; c <= 3; c++ {
				out = append(out, []int{a, b, c})
			}
		}
	}
	for m := 0; m < 16; m++ {
		out = append(out, []int{1 + m&1, 1 + (m>>1)&1, 1 + (m>>2)&1, 1 + (m>>3)&1})
	}
	return out
}

func shapeStr(s []int) string {
	p := make([]string, len(s))
	for i, d := range s {
		p[i] = fmt.Sprint(d)
	}
	return "(" + strings.Join(p, ",") + ")"
}

func mkInst(h string, cfg map[string]interface{}, keys ...string) Instance {
	var parts []string
	for _, k := range keys {
		v := cfg[k]
		if s, ok := v.([]int); ok {
			parts = append(parts, shapeStr(s))
		} else {
			parts = append(parts, fmt.Sprint(v))
		}
	}
	return Instance{Harness: h, Cfg: cfg, Name: h + "/" + strings.Join(parts, "/")}
}

func init() {
	props["C01"] = &propDef{
		ID:       "C01",
		Anchored: []string{"Ltoi", ").At", ").SetAt", "CalcStrides", ").Get", ").Set", "WithBacking", "WithShape", "AsFortran", ").fix", ").sanity", "calcStrides"},
		Bounds: map[string]interface{}{"coordinates": "every component symbolic over the full int64 range", "elements": "symbolic, full range of the dtype (FP theory for floats)",
			"shapes": "instantiated: quick = (),(3),(1,3),(3,1),(2,3),(2,1,2),(2,2,2); thorough = all rank<=3 dims<=3 and rank 4 dims<=2", "symbolic_dims_harness": "rank<=3 (quick) / <=4 (thorough), every dim symbolic in 1..5",
			"arity": "rank-1, rank, rank+1", "layouts": "C, T (default reversal), S (interior unit-step window on axis 0), TS", "construction": "row-major, AsFortran(nil) over raw backing, AsFortran(backing)"},
		Assume: []string{"user-registered dtypes and non-StdEng engines are outside the claim"},
		Instances: func(tier string, seed int64) []Instance {
			var out []Instance
			shapes := quickShapes
			dts := []string{"bool", "int", "int8", "uint16", "float32", "float64", "complex128", "string"}
			if tier == "thorough" {
				shapes = thoroughShapes()
				dts = allDtypes
			}
			for si, sh := range shapes {
				for di, dt := range dts {
					for _, variant := range []string{"row", "fraw", "fconv"} {
						for _, lay := range []string{"C", "T", "S", "TS"} {
							if (lay == "S") && (len(sh) == 0 || sh[0] < 2) {
								continue
							}
							if lay == "TS" && (len(sh) == 0 || sh[len(sh)-1] < 2) {
								continue
							}
							if lay == "T" && len(sh) < 2 {
								continue
							}
							if tier == "quick" {
								// pairwise-style thinning: all dtypes on row/C, rotating subset elsewhere
								keep := (variant == "row" && lay == "C") || (si+di)%4 == 0
								// every element-size class goes through the converting constructor on a non-square shape
								if variant == "fconv" && (lay == "C" || lay == "T") && len(sh) == 2 && sh[0] == 2 && sh[1] == 3 {
									keep = true
								}
								if !keep {
									continue
								}
							}
							for _, ad := range []int{0, -1, 1} {
								if ad != 0 && !(lay == "C" && (tier == "thorough" || variant == "row")) {
									continue
								}
								if ad == -1 && len(sh) == 0 {
									continue
								}
								for _, h := range []string{"vhC01At", "vhC01SetAt"} {
									out = append(out, mkInst(h, map[string]interface{}{"dtype": dt, "shape": sh, "variant": variant, "layout": lay, "arity_delta": ad}, "dtype", "shape", "variant", "layout", "arity_delta"))
								}
							}
						}
					}
				}
			}
			maxRank := 3
			if tier == "thorough" {
				maxRank = 4
			}
			for r := 1; r <= maxRank; r++ {
				for _, o := range []string{"row", "col"} {
					out = append(out, mkInst("vhC01Strides", map[string]interface{}{"rank": r, "order": o, "maxdim": 5}, "rank", "order"))
				}
			}
			return out
		},
	}
}
