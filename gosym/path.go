package main

// Path exploration: forking by re-execution with decision prefixes, assumptions, obligations.

import (
	"strconv"
	"fmt"
	"go/token"
	"os"
	"sort"
	"strings"
)

type decision struct {
	B bool
	V int64 // concretisation value (for concretize decisions)
}

type Path struct {
	prefix   []decision
	pos      int
	taken    []decision
	pc       []*Term
	known    map[int]bool // term id -> truth value implied by pc (syntactic)
	nondets  []*Term
	ufApps   []*Term // applications of harness-level uninterpreted functions (vUF1)
	ndNames  []string // harness-level names
	ndSet    map[string]bool
	forks    [][]decision
	reached  map[string]bool
	observe  []string
	strlits  map[string]*Term
	model    map[string]uint64 // a model of pc (nil: none known)
	evalc    *evalCtx
	subst    map[string]*Term // variables fixed by the path condition
	simpMemo map[int]*Term
	simpVer  int
}

type Obligation struct {
	ID       string
	Verdict  string // discharged | violated | inconclusive | known-finding
	Trivial  bool
	Model    map[string]string
	PathNo   int
	Ms       float64
	Query    string
	KF       string
	InRegion bool
}

// runHooks collects what a run (all paths of one instance) produced.
type runHooks struct {
	obls          []Obligation
	paths         int
	dropped       int // paths ended by infeasible assumptions
	endedByAssert int
	kfCount       map[string]int
	aborted       map[string]int
	reached       map[string]bool
	uncaught      []Obligation
	unknownBr     int
	maxPaths      int
	pathNo        int
	kfOpen        map[string]bool
	concrete      map[string]string // concrete-mode nondet values (validation)
	observeLog    []string
	kfUndecided   bool // a query inside a known-finding region came back unknown
	c18notes      map[string]int    // C18: what was written where (diagnostics)
	c18reads      map[string]bool   // C18: global state read outside any mutex
	c18writes     map[string]string // C18: global state written -> lock context
}

func (ex *Exec) assume(c *Term) {
	c = ex.simp(c)
	if c.IsConst() {
		if !c.cBool() {
			panic(pathEnd{"assumption false"})
		}
		return
	}
	p := ex.path
	if v, ok := p.known[c.id]; ok {
		if !v {
			panic(pathEnd{"assumption contradicts path"})
		}
		return
	}
	ex.addPC(c)
	if ex.hooks.concrete == nil && ex.modelHolds(c) != 1 {
		// the model no longer covers the path condition: get a new one (also detects infeasible assumptions early)
		vd, raw := ex.sol.Check(nil, ex.nondetVars())
		switch vd {
		case Unsat:
			panic(pathEnd{"assumption infeasible"})
		case Sat:
			ex.setModel(raw, ex.nondetVars())
		default:
			ex.path.model = nil
		}
	}
}

func (ex *Exec) addPC(c *Term) {
	p := ex.path
	if p.model != nil && ex.modelHolds(c) != 1 {
		p.model = nil // the remembered model does not cover the new conjunct
	}
	p.pc = append(p.pc, c)
	ex.noteKnown(c, true)
	ex.learnEq(c)
	ex.sol.Assert(c)
}

func (ex *Exec) noteKnown(c *Term, v bool) {
	p := ex.path
	p.known[c.id] = v
	p.known[ex.ts.Not(c).id] = !v
	// conjunctions that are true make their parts true; disjunctions that are false make parts false
	if v && c.Op == OBAnd {
		ex.noteKnown(c.Args[0], true)
		ex.noteKnown(c.Args[1], true)
	}
	if !v && c.Op == OBOr {
		ex.noteKnown(c.Args[0], false)
		ex.noteKnown(c.Args[1], false)
	}
	if c.Op == OBNot {
		if _, ok := p.known[c.Args[0].id]; !ok {
			ex.noteKnown(c.Args[0], !v)
		}
	}
}

// branch decides a symbolic condition on the current path, forking the other side when feasible.
func (ex *Exec) branch(c *Term, pos token.Pos, fr *frame) bool {
	if c.IsConst() {
		return c.cBool()
	}
	c = ex.simp(c)
	if c.IsConst() {
		return c.cBool()
	}
	p := ex.path
	if v, ok := p.known[c.id]; ok {
		if os.Getenv("GOSYM_BRDEBUG") != "" {
			fmt.Fprintf(os.Stderr, "BRANCH known=%v term#%d op=%d at %s\n", v, c.id, c.Op, ex.loc(pos))
		}
		return v
	}
	if ex.ifcDepth > 0 {
		panic(ifcBail{"fork inside an if-converted region"})
	}
	ts := ex.ts
	if p.pos < len(p.prefix) {
		d := p.prefix[p.pos]
		p.pos++
		p.taken = append(p.taken, d)
		if d.B {
			ex.addPC(c)
		} else {
			ex.addPC(ts.Not(c))
		}
		return d.B
	}
	if ex.hooks.concrete != nil {
		panic(abortPath{"symbolic branch in concrete mode"})
	}
	// model-guided: the side the current model satisfies is feasible without a query
	mh := ex.modelHolds(c)
	var vt, vf Verdict
	var rawT map[string]string
	vars := ex.nondetVars()
	switch mh {
	case 1:
		vt = Sat
		vf, _ = ex.sol.Check(ts.Not(c), nil)
	case 0:
		vf = Sat
		vt, rawT = ex.sol.Check(c, vars)
	default:
		vt, rawT = ex.sol.Check(c, vars)
		if vt == Unsat {
			vf = Sat
		} else {
			vf, _ = ex.sol.Check(ts.Not(c), nil)
		}
	}
	if vt == Unknown {
		ex.hooks.unknownBr++
	}
	if vf == Unknown {
		ex.hooks.unknownBr++
	}
	if vt == Unsat {
		// the other side must hold on this path (model unchanged: it satisfies not c)
		p.taken = append(p.taken, decision{B: false})
		p.pos++
		ex.addPC(ts.Not(c))
		return false
	}
	if vf != Unsat {
		alt := append(append([]decision(nil), p.taken...), decision{B: false})
		p.forks = append(p.forks, alt)
	}
	p.taken = append(p.taken, decision{B: true})
	p.pos++
	ex.addPC(c)
	if mh != 1 {
		if rawT != nil {
			ex.setModel(rawT, vars)
		} else {
			p.model = nil
		}
	}
	return true
}

// concretize enumerates the feasible values of t (one path per value).
func (ex *Exec) concretize(t *Term, lo, hi int64, what string, pos token.Pos, fr *frame) int64 {
	if v, ok := ex.constInt(t); ok {
		return v
	}
	if ex.ifcDepth > 0 {
		panic(ifcBail{"concretisation inside an if-converted region"})
	}
	t = ex.simp(t)
	p := ex.path
	ts := ex.ts
	w := int(t.Sort.W)
	for n := 0; ; n++ {
		if n > 64 {
			panic(abortPath{"concretize: too many values for " + what})
		}
		if p.pos < len(p.prefix) {
			d := p.prefix[p.pos]
			p.pos++
			p.taken = append(p.taken, d)
			c := ts.Eq(t, ts.BV(w, uint64(d.V)))
			if d.B {
				ex.addPC(c)
				return d.V
			}
			ex.addPC(ts.Not(c))
			continue
		}
		if ex.hooks.concrete != nil {
			panic(abortPath{"concretize in concrete mode"})
		}
		vd, model := ex.sol.Check(nil, []*Term{t})
		if vd == Unsat {
			panic(pathEnd{"concretize: path infeasible"})
		}
		if vd == Unknown {
			panic(abortPath{"concretize: solver unknown for " + what})
		}
		var val int64
		found := false
		for _, mv := range model {
			if b, ok := modelBits(mv, t.Sort); ok {
				val = sext(b, w)
				found = true
			}
		}
		if !found {
			panic(abortPath{"concretize: cannot read model"})
		}
		c := ts.Eq(t, ts.BV(w, uint64(val)))
		vo, _ := ex.sol.Check(ts.Not(c), nil)
		if vo != Unsat {
			alt := append(append([]decision(nil), p.taken...), decision{B: false, V: val})
			p.forks = append(p.forks, alt)
		}
		p.taken = append(p.taken, decision{B: true, V: val})
		p.pos++
		ex.addPC(c)
		return val
	}
}

// simplifyUnderPC returns a constant if t can only take one value on this path.
func (ex *Exec) simplifyUnderPC(t *Term) *Term {
	if t.IsConst() || ex.hooks.concrete != nil {
		return t
	}
	vd, model := ex.sol.Check(nil, []*Term{t})
	if vd != Sat {
		return t
	}
	for _, mv := range model {
		if b, ok := modelBits(mv, t.Sort); ok {
			c := ex.ts.Eq(t, ex.ts.BV(int(t.Sort.W), b))
			if vo, _ := ex.sol.Check(ex.ts.Not(c), nil); vo == Unsat {
				return ex.ts.BV(int(t.Sort.W), b)
			}
		}
	}
	return t
}

// nondetVars: the terms whose model values make up a counterexample: the harness's nondeterministic inputs, plus the
// applications of the harness's uninterpreted user functions (and their arguments), so that the native replay can use the
// very interpretation the solver chose instead of an arbitrary stand-in.
func (ex *Exec) nondetVars() []*Term {
	p := ex.path
	if len(p.ufApps) == 0 {
		return p.nondets
	}
	out := append([]*Term{}, p.nondets...)
	for _, u := range p.ufApps {
		out = append(out, u)
		if !u.Args[0].IsConst() {
			out = append(out, u.Args[0])
		}
	}
	return out
}

// assertObl checks an obligation on the current path.
func (ex *Exec) assertObl(c *Term, id string, kf string, region *Term) {
	if kf == "" {
		ex.assertOblN(c, id, nil, nil)
		return
	}
	ex.assertOblN(c, id, []string{kf}, []*Term{region})
}

// assertOblN: an obligation with any number of known-finding regions (predicates over the harness inputs).
func (ex *Exec) assertOblN(c *Term, id string, kfs []string, regions []*Term) {
	h := ex.hooks
	ts := ex.ts
	c = ex.simp(c)
	for i := range regions {
		regions[i] = ex.simp(regions[i])
	}
	ob := Obligation{ID: id, PathNo: h.pathNo}
	for i, kf := range kfs {
		if !h.kfOpen[kf] {
			continue
		}
		// (1) inside the region of an open finding the violation is looked for (and later replayed)
		inq := ts.And(regions[i], ts.Not(c))
		if h.kfCount == nil {
			h.kfCount = map[string]int{}
		}
		// the finding only needs to be re-confirmed a couple of times per instance, not on every path
		if (!inq.IsConst() || inq.cBool()) && h.kfCount[kf] < 2 {
			vd, model := ex.sol.Check(inq, ex.nondetVars())
			if vd == Sat {
				h.kfCount[kf]++
				h.obls = append(h.obls, Obligation{ID: id, PathNo: h.pathNo, KF: kf, InRegion: true, Verdict: "known-finding", Model: ex.completeModel(model)})
			} else if vd == Unknown {
				// undecided inside the region: the region audit must not count this instance as free of the failure
				h.kfUndecided = true
			}
		}
		// (2) outside the regions the property is asserted
		c = ts.Or(regions[i], c)
		if !(regions[i].IsConst() && !regions[i].cBool()) {
			ob.KF = kf // (the instance is, at least partly, inside the finding's region)
		}
	}
	neg := ts.Not(c)
	ob.Trivial = neg.IsConst()
	t0 := ex.sol.Time
	var vd Verdict
	var model map[string]string
	if ex.hooks.concrete != nil {
		if !neg.IsConst() {
			panic(abortPath{"symbolic assertion in concrete mode"})
		}
		if neg.cBool() {
			vd = Sat
		}
	} else {
		vd, model = ex.sol.Check(neg, ex.nondetVars())
	}
	ob.Ms = float64((ex.sol.Time - t0).Microseconds()) / 1000
	if !ob.Trivial && len(ex.sol.lastQ) < 400 {
		ob.Query = ex.sol.lastQ
	}
	switch vd {
	case Unsat:
		ob.Verdict = "discharged"
	case Sat:
		ob.Verdict = "violated"
		ob.Model = ex.completeModel(model)
	default:
		ob.Verdict = "inconclusive"
	}
	h.obls = append(h.obls, ob)
	if vd == Sat && ex.hooks.concrete != nil {
		return // concrete mode: record and go on, like the native harness does
	}
	if vd == Sat && ex.oblNoAssume {
		return // event obligations (C18): the access happened; record it and go on
	}
	if vd == Sat {
		// continue the path under the assumption that the assertion holds (find independent violations)
		if c.IsConst() {
			panic(pathEnd{"assertion failed on whole path"})
		}
		if v, _ := ex.sol.Check(c, nil); v == Unsat {
			panic(pathEnd{"assertion fails on whole path"})
		}
		ex.addPC(c)
	} else if !c.IsConst() {
		// a proved assertion may be used as a lemma afterwards
		ex.noteKnown(c, true)
	}
}

// completeModel turns solver value text into a harness-level model name -> literal.
func (ex *Exec) completeModel(m map[string]string) map[string]string {
	out := map[string]string{}
	p := ex.path
	for i, t := range p.nondets {
		raw, ok := m[t.Name]
		if t.Sort.K == SStr {
			if !ok {
				raw = "unconstrained_" + t.Name
			}
			out[p.ndNames[i]] = "s_" + sanitize(raw)
			continue
		}
		var bits uint64
		if ok {
			bits, ok = modelBits(raw, t.Sort)
		}
		if !ok {
			bits = 0
		}
		out[p.ndNames[i]] = fmt.Sprintf("%s:%d", sortTag(t.Sort), bits)
	}
	// interpretation of the harness's uninterpreted functions at the points the path applied them
	val := func(t *Term) (uint64, bool) {
		if t.IsConst() {
			return t.Bits, true
		}
		name := t.Name
		if t.Op != OVar {
			name = "t" + strconv.Itoa(t.id)
		}
		raw, ok := m[name]
		if !ok {
			return 0, false
		}
		return modelBits(raw, t.Sort)
	}
	for _, u := range p.ufApps {
		a, ok1 := val(u.Args[0])
		r, ok2 := val(u)
		if ok1 && ok2 {
			out[fmt.Sprintf("uf|%s|%s:%d", u.Name, sortTag(u.Args[0].Sort), a)] = fmt.Sprintf("%s:%d", sortTag(u.Sort), r)
		}
	}
	return out
}

func sortTag(s Sort) string {
	switch s.K {
	case SBool:
		return "b"
	case SBV:
		return fmt.Sprintf("u%d", s.W)
	case SFP32:
		return "f32"
	case SFP64:
		return "f64"
	case SInt:
		return "ring"
	}
	return "?"
}

func modelString(m map[string]string) string {
	keys := make([]string, 0, len(m))
	for k := range m {
		keys = append(keys, k)
	}
	sort.Strings(keys)
	var sb strings.Builder
	for _, k := range keys {
		fmt.Fprintf(&sb, "%s=%s ", k, m[k])
	}
	return sb.String()
}

func (h *runHooks) noteC18(s string) {
	if h.c18notes == nil {
		h.c18notes = map[string]int{}
	}
	h.c18notes[s]++
}
