package main

// I/O boundary models used by C14: encoding/binary (little-endian fixed-size values), fmt formatting of concrete values
// (including fmt.Formatter implementations executed symbolically over a model of fmt.State), regexp/strings/strconv on
// concrete text (native call-through), and encoding/gob as a typed FIFO carried through the byte stream.
// Each model is part of the claim (listed in the evidence as an intrinsic).

import (
	"math"
	"fmt"
	"go/token"
	"go/types"
	"regexp"
	"strconv"
	"strings"
)

func (ex *Exec) callMethod(fr *frame, recv Iface, name string, args ...V) V {
	if recv.T == nil {
		ex.throw("invalid memory address or nil pointer dereference (method " + name + " on nil interface)")
	}
	if bi := ex.dynIntrinsic(recv, name); bi != nil {
		return bi.f(ex, fr, append([]V{bi.recv}, args...))
	}
	ms := ex.prog.MethodSets.MethodSet(recv.T)
	for i := 0; i < ms.Len(); i++ {
		sel := ms.At(i)
		if sel.Obj().Name() == name {
			fn := ex.prog.MethodValue(sel)
			if fn == nil {
				break
			}
			return ex.callFn(fr, fn, append([]V{recv.V}, args...), nil)
		}
	}
	panic(abortPath{fmt.Sprintf("method %s not found on %v", name, recv.T)})
}

var byteT = types.Typ[types.Uint8]

func (ex *Exec) goBytesToSlice(bs []byte) Slice {
	b := ex.newBuf(byteT, len(bs))
	for i, c := range bs {
		b.cells[i] = ex.ts.BV(8, uint64(c))
	}
	return ex.mkSlice(b, len(bs))
}

func (ex *Exec) termsToByteSlice(t []*Term) Slice {
	b := ex.newBuf(byteT, len(t))
	for i, c := range t {
		b.cells[i] = c
	}
	return ex.mkSlice(b, len(t))
}

func (ex *Exec) sliceByteTerms(s Slice, what string) []*Term {
	if s.B == nil {
		return nil
	}
	n := int(ex.cint(s.Len, what+" length"))
	out := make([]*Term, n)
	for i := 0; i < n; i++ {
		out[i] = ex.load(ex.elemPtr(s.B, s.Off, ex.c64(int64(i)), byteT), byteT).(*Term)
	}
	return out
}

func (ex *Exec) sliceGoBytes(s Slice, what string) []byte {
	ts := ex.sliceByteTerms(s, what)
	out := make([]byte, len(ts))
	for i, t := range ts {
		if !t.IsConst() {
			panic(abortPath{"symbolic byte in " + what})
		}
		out[i] = byte(t.Bits)
	}
	return out
}

// ---------- encoding/binary ----------

// binFixedSize returns the encoded size of a value of type t, or -1 when encoding/binary rejects the type.
func binFixedSize(t types.Type) int {
	switch u := t.Underlying().(type) {
	case *types.Basic:
		switch u.Kind() {
		case types.Bool, types.Int8, types.Uint8:
			return 1
		case types.Int16, types.Uint16:
			return 2
		case types.Int32, types.Uint32, types.Float32:
			return 4
		case types.Int64, types.Uint64, types.Float64, types.Complex64:
			return 8
		case types.Complex128:
			return 16
		}
		return -1 // int, uint, uintptr, string, unsafe.Pointer
	case *types.Array:
		e := binFixedSize(u.Elem())
		if e < 0 {
			return -1
		}
		return e * int(u.Len())
	}
	return -1
}

func (ex *Exec) binEncodeScalar(t types.Type, v V) []*Term {
	ts := ex.ts
	nk := numKind(t)
	le := func(x *Term, w int) []*Term {
		var bits *Term
		if x.Sort.K == SBV {
			bits = x
		} else {
			bits = ts.FToBV(x, w*8)
		}
		out := make([]*Term, w)
		for i := 0; i < w; i++ {
			out[i] = ts.Extract(bits, i*8+7, i*8)
		}
		return out
	}
	switch {
	case nk.boolean:
		return []*Term{ts.Ite(v.(*Term), ts.BV(8, 1), ts.BV(8, 0))}
	case nk.cplx:
		c := v.(Cplx)
		return append(le(c.Re, nk.w/2), le(c.Im, nk.w/2)...)
	default:
		return le(v.(*Term), nk.w)
	}
}

func (ex *Exec) binDecodeScalar(t types.Type, bs []*Term) V {
	ts := ex.ts
	nk := numKind(t)
	join := func(b []*Term) *Term {
		x := b[len(b)-1]
		for i := len(b) - 2; i >= 0; i-- {
			x = ts.Concat(x, b[i])
		}
		return x
	}
	switch {
	case nk.boolean:
		return ts.Not(ts.Eq(bs[0], ts.BV(8, 0)))
	case nk.cplx:
		h := nk.w / 2
		return Cplx{Re: ts.BVToF(join(bs[:h]), ex.floatSort(h)), Im: ts.BVToF(join(bs[h:]), ex.floatSort(h))}
	case nk.float:
		return ts.BVToF(join(bs), ex.floatSort(nk.w))
	default:
		return join(bs)
	}
}

func init() {
	registerIOIntrinsics = func(ex *Exec, I map[string]intrinsic) {
		ts := ex.ts
		I["encoding/binary.Write"] = func(ex *Exec, fr *frame, a []V) V {
			w := a[0].(Iface)
			d := a[2].(Iface)
			if d.T == nil {
				return ex.mkError("binary.Write: some values are not fixed-sized in type <nil>")
			}
			var out []*Term
			enc := func(t types.Type, v V) bool {
				if s, ok := t.Underlying().(*types.Slice); ok {
					es := binFixedSize(s.Elem())
					if es < 0 {
						return false
					}
					sl := v.(Slice)
					n := 0
					if sl.B != nil {
						n = int(ex.cint(sl.Len, "binary.Write slice length"))
					}
					for i := 0; i < n; i++ {
						out = append(out, ex.binEncodeScalar(s.Elem(), ex.load(ex.elemPtr(sl.B, sl.Off, ex.c64(int64(i)), s.Elem()), s.Elem()))...)
					}
					return true
				}
				if binFixedSize(t) < 0 {
					return false
				}
				if arr, ok := t.Underlying().(*types.Array); ok {
					av := v.(ArrV)
					for i := 0; i < int(arr.Len()); i++ {
						out = append(out, ex.binEncodeScalar(arr.Elem(), ex.load(ex.elemPtr(av.B, ex.c64(0), ex.c64(int64(i)), arr.Elem()), arr.Elem()))...)
					}
					return true
				}
				out = append(out, ex.binEncodeScalar(t, v)...)
				return true
			}
			t, v := d.T, d.V
			if p, ok := t.Underlying().(*types.Pointer); ok {
				t = p.Elem()
				v = ex.load(v.(Ptr), t)
			}
			if !enc(t, v) {
				return ex.mkError("binary.Write: some values are not fixed-sized in type " + d.T.String())
			}
			r := ex.callMethod(fr, w, "Write", ex.termsToByteSlice(out)).(Tuple)
			return r[1]
		}
		I["encoding/binary.Read"] = func(ex *Exec, fr *frame, a []V) V {
			r := a[0].(Iface)
			d := a[2].(Iface)
			if d.T == nil {
				return ex.mkError("binary.Read: invalid type <nil>")
			}
			// destinations: *T, []T (T fixed-size)
			var et types.Type
			var count int
			var sl Slice
			var ptr Ptr
			isSlice := false
			switch u := d.T.Underlying().(type) {
			case *types.Pointer:
				et, count, ptr = u.Elem(), 1, d.V.(Ptr)
			case *types.Slice:
				et, isSlice, sl = u.Elem(), true, d.V.(Slice)
				if sl.B != nil {
					count = int(ex.cint(sl.Len, "binary.Read slice length"))
				}
			default:
				return ex.mkError("binary.Read: invalid type " + d.T.String())
			}
			es := binFixedSize(et)
			if es < 0 {
				return ex.mkError("binary.Read: invalid type " + d.T.String())
			}
			total := es * count
			buf := ex.newBuf(byteT, total)
			got := 0
			for got < total {
				part := Slice{B: buf, Off: ex.c64(int64(got)), Len: ex.c64(int64(total - got)), Cap: ex.c64(int64(total - got))}
				res := ex.callMethod(fr, r, "Read", part).(Tuple)
				n := int(ex.cint(res[0], "Read count"))
				got += n
				if e, ok := res[1].(Iface); ok && e.T != nil {
					if got >= total {
						break
					}
					if got == 0 {
						return res[1] // io.EOF
					}
					return ex.mkError("unexpected EOF")
				}
				if n == 0 {
					return ex.mkError("binary.Read: reader made no progress")
				}
			}
			cells := make([]*Term, total)
			for i := range cells {
				cells[i] = buf.cells[i].(*Term)
			}
			dec := func(t types.Type, bs []*Term) V {
				if arr, ok := t.Underlying().(*types.Array); ok {
					ab := ex.newBuf(arr.Elem(), int(arr.Len()))
					e := binFixedSize(arr.Elem())
					for i := 0; i < int(arr.Len()); i++ {
						ex.store(ex.elemPtr(ab, ex.c64(0), ex.c64(int64(i)), arr.Elem()), arr.Elem(), ex.binDecodeScalar(arr.Elem(), bs[i*e:(i+1)*e]), nil)
					}
					return ArrV{ab}
				}
				return ex.binDecodeScalar(t, bs)
			}
			if isSlice {
				for i := 0; i < count; i++ {
					ex.store(ex.elemPtr(sl.B, sl.Off, ex.c64(int64(i)), et), et, dec(et, cells[i*es:(i+1)*es]), nil)
				}
			} else {
				ex.store(ptr, et, dec(et, cells), nil)
			}
			return Iface{}
		}

		// ---------- fmt ----------
		I["fmt.Sprintf"] = func(ex *Exec, fr *frame, a []V) V {
			if sv, ok := ex.symbolicFormat(a[0], a[1]); ok {
				return sv
			}
			return StrV{S: ex.formatSafe(fr, a[0], a[1])}
		}
		I["fmt.Fprintf"] = func(ex *Exec, fr *frame, a []V) V {
			s := ex.format(fr, ex.str(a[1]), a[2])
			return ex.callMethod(fr, a[0].(Iface), "Write", ex.goBytesToSlice([]byte(s)))
		}

		// ---------- regexp / strings / strconv on concrete text ----------
		I["(*regexp.Regexp).FindSubmatch"] = func(ex *Exec, fr *frame, a []V) V {
			re := ex.nativeOf(a[0]).(*regexp.Regexp)
			m := re.FindSubmatch(ex.sliceGoBytes(a[1].(Slice), "regexp input"))
			if m == nil {
				return Slice{}
			}
			bt := types.NewSlice(byteT)
			ob := ex.newBuf(bt, len(m))
			for i, g := range m {
				var v V = Slice{}
				if g != nil {
					v = ex.goBytesToSlice(g)
				}
				ob.cells[i] = v
			}
			return ex.mkSlice(ob, len(m))
		}
		strSlice := func(ex *Exec, parts []string) V {
			st := types.Typ[types.String]
			ob := ex.newBuf(st, len(parts))
			for i, p := range parts {
				ob.cells[i] = StrV{S: p}
			}
			return ex.mkSlice(ob, len(parts))
		}
		I["strings.Split"] = func(ex *Exec, fr *frame, a []V) V { return strSlice(ex, strings.Split(ex.str(a[0]), ex.str(a[1]))) }
		I["strings.Trim"] = func(ex *Exec, fr *frame, a []V) V { return StrV{S: strings.Trim(ex.str(a[0]), ex.str(a[1]))} }
		I["strings.TrimSpace"] = func(ex *Exec, fr *frame, a []V) V { return StrV{S: strings.TrimSpace(ex.str(a[0]))} }
		I["strings.Repeat"] = func(ex *Exec, fr *frame, a []V) V {
			n := ex.cint(a[1], "strings.Repeat count")
			if n < 0 {
				ex.throw("strings: negative Repeat count")
			}
			return StrV{S: strings.Repeat(ex.str(a[0]), int(n))}
		}
		I["strconv.Atoi"] = func(ex *Exec, fr *frame, a []V) V {
			n, err := strconv.Atoi(ex.str(a[0]))
			if err != nil {
				return Tuple{ex.c64(0), ex.mkError(err.Error())}
			}
			return Tuple{ex.c64(int64(n)), Iface{}}
		}
		I["strconv.Itoa"] = func(ex *Exec, fr *frame, a []V) V {
			return StrV{S: strconv.Itoa(int(ex.cint(a[0], "strconv.Itoa")))}
		}
		_ = ts
		_ = token.NoPos
	}
}

var registerIOIntrinsics func(ex *Exec, I map[string]intrinsic)

func (ex *Exec) nativeOf(v V) interface{} {
	switch x := v.(type) {
	case NativeV:
		return x.X
	case Ptr:
		if x.S != nil {
			return ex.nativeOf(*x.S)
		}
	}
	panic(abortPath{fmt.Sprintf("expected native object, got %T", v)})
}

// formatSafe formats an error message; symbolic operands are rendered as placeholders (messages are never compared).
func (ex *Exec) formatSafe(fr *frame, f V, args V) (s string) {
	fs, ok := f.(StrV)
	if !ok || fs.T != nil {
		return "<symbolic format>"
	}
	defer func() {
		if r := recover(); r != nil {
			if _, isAbort := r.(abortPath); isAbort {
				s = fs.S
				return
			}
			panic(r)
		}
	}()
	return ex.formatLenient(fr, fs.S, args, true)
}

func (ex *Exec) format(fr *frame, f string, args V) string { return ex.formatLenient(fr, f, args, false) }

// fmtState is the model of fmt.State handed to Formatter implementations.
type fmtState struct{ buf []byte }

func (ex *Exec) formatLenient(fr *frame, f string, args V, lenient bool) string {
	var as []V
	if sl, ok := args.(Slice); ok && sl.B != nil {
		n := int(ex.cint(sl.Len, "fmt args"))
		it := types.NewInterfaceType(nil, nil)
		for i := 0; i < n; i++ {
			as = append(as, ex.load(ex.elemPtr(sl.B, sl.Off, ex.c64(int64(i)), it), it))
		}
	}
	var sb strings.Builder
	ai := 0
	for i := 0; i < len(f); i++ {
		c := f[i]
		if c != '%' {
			sb.WriteByte(c)
			continue
		}
		j := i + 1
		for j < len(f) && strings.IndexByte("+-# 0123456789.", f[j]) >= 0 {
			j++
		}
		if j >= len(f) {
			sb.WriteString("%!(NOVERB)")
			break
		}
		verb := f[j]
		spec := f[i : j+1]
		i = j
		if verb == '%' {
			sb.WriteByte('%')
			continue
		}
		if ai >= len(as) {
			sb.WriteString("%!" + string(verb) + "(MISSING)")
			continue
		}
		arg := as[ai]
		ai++
		sb.WriteString(ex.formatArg(fr, spec, rune(verb), arg, lenient))
	}
	return sb.String()
}

func (ex *Exec) formatArg(fr *frame, spec string, verb rune, arg V, lenient bool) string {
	x, ok := arg.(Iface)
	if !ok || x.T == nil {
		return "<nil>"
	}
	// fmt.Formatter implementations run symbolically over the fmt.State model
	ms := ex.prog.MethodSets.MethodSet(x.T)
	for i := 0; i < ms.Len(); i++ {
		sel := ms.At(i)
		if sel.Obj().Name() == "Format" && sel.Type().(*types.Signature).Params().Len() == 2 {
			if fn := ex.prog.MethodValue(sel); fn != nil {
				st := &fmtState{}
				p := new(V)
				*p = NativeV{X: st}
				ex.callFn(fr, fn, []V{x.V, Iface{T: ex.ld.fmtStateType, V: Ptr{S: p}}, ex.ts.BV(32, uint64(verb))}, nil)
				return string(st.buf)
			}
		}
	}
	switch v := x.V.(type) {
	case StrV:
		if v.T == nil {
			switch verb {
			case 'q':
				return strconv.Quote(v.S)
			default:
				return fmt.Sprintf(spec[:len(spec)-1]+string(verb), v.S)
			}
		}
	case *Term:
		if v.IsConst() && v.Sort.K == SBV {
			nk := numKind(x.T)
			if nk.ok && !nk.float && !nk.boolean {
				if nk.signed {
					return fmt.Sprintf(spec, sext(v.Bits, int(v.Sort.W)))
				}
				return fmt.Sprintf(spec, v.Bits)
			}
		}
		if v.IsConst() && v.Sort.K == SBool {
			return fmt.Sprintf(spec, v.Bits != 0)
		}
		if v.IsConst() && v.Sort.K == SFP32 {
			return fmt.Sprintf(spec, math.Float32frombits(uint32(v.Bits)))
		}
		if v.IsConst() && v.Sort.K == SFP64 {
			return fmt.Sprintf(spec, math.Float64frombits(v.Bits))
		}
		if v.IsConst() && v.Sort.K == SInt {
			return fmt.Sprintf(spec, float64(int64(v.Bits)))
		}
	case Cplx:
		if v.Re.IsConst() && v.Im.IsConst() {
			if v.Re.Sort.K == SFP32 {
				return fmt.Sprintf(spec, complex(math.Float32frombits(uint32(v.Re.Bits)), math.Float32frombits(uint32(v.Im.Bits))))
			}
			if v.Re.Sort.K == SFP64 {
				return fmt.Sprintf(spec, complex(math.Float64frombits(v.Re.Bits), math.Float64frombits(v.Im.Bits)))
			}
		}
	}
	// error values and Stringers: use the message / String() when concrete
	if ex.ld.errorStringPtr != nil && types.Identical(x.T, ex.ld.errorStringPtr) {
		if p, ok := x.V.(Ptr); ok && p.S != nil {
			if st, ok := (*p.S).(Struct); ok && len(st) > 0 {
				if s, ok := st[0].(StrV); ok && s.T == nil {
					return s.S
				}
			}
		}
	}
	for i := 0; i < ms.Len(); i++ {
		sel := ms.At(i)
		if sel.Obj().Name() == "String" && sel.Type().(*types.Signature).Params().Len() == 0 {
			if fn := ex.prog.MethodValue(sel); fn != nil && fn.Blocks != nil {
				if r, ok := ex.callFn(fr, fn, []V{x.V}, nil).(StrV); ok && r.T == nil {
					return r.S
				}
			}
		}
	}
	if lenient {
		return "<" + x.T.String() + ">"
	}
	panic(abortPath{"fmt: formatting of a symbolic or unsupported " + x.T.String()})
}

func (ex *Exec) fmtStateMethod(method string, p Ptr, a []V) V {
	st := ex.nativeOf(p).(*fmtState)
	switch method {
	case "Write":
		bs := ex.sliceGoBytes(a[0].(Slice), "fmt.State.Write")
		st.buf = append(st.buf, bs...)
		return Tuple{ex.c64(int64(len(bs))), Iface{}}
	case "Flag":
		return ex.ts.fls
	case "Width", "Precision":
		return Tuple{ex.c64(0), ex.ts.fls}
	}
	panic(abortPath{"fmt.State method " + method})
}

// ---------- encoding/gob: typed FIFO carried through the byte stream ----------
//
// Encode(v) snapshots v (deep copy) into a per-path table and writes a 9-byte token (0xB0 + little-endian index) to the
// encoder's writer; Decode(&x) reads a token from the decoder's reader and assigns a copy of the recorded value (wrapped
// in its dynamic type when x is an interface). Assumption: encoding/gob is lossless for the value types the library sends
// ([]int, []bool, byte-sized enums, slices of the element types behind interface{}); what is decided is which fields
// GobEncode sends, in which order, and how GobDecode rebuilds the tensor from them.

type gobItem struct {
	t types.Type
	v V
}

type gobCodec struct{ rw Iface }

func (ex *Exec) deepCopy(v V, t types.Type) V {
	switch x := v.(type) {
	case Slice:
		if x.B == nil {
			return Slice{}
		}
		st, ok := t.Underlying().(*types.Slice)
		if !ok {
			panic(abortPath{"gob: slice value of non-slice type " + t.String()})
		}
		n := int(ex.cint(x.Len, "gob slice length"))
		nb := ex.newBuf(st.Elem(), n)
		for i := 0; i < n; i++ {
			e := ex.load(ex.elemPtr(x.B, x.Off, ex.c64(int64(i)), st.Elem()), st.Elem())
			ex.store(ex.elemPtr(nb, ex.c64(0), ex.c64(int64(i)), st.Elem()), st.Elem(), ex.deepCopy(e, st.Elem()), nil)
		}
		return ex.mkSlice(nb, n)
	case Iface:
		if x.T == nil {
			return x
		}
		return Iface{T: x.T, V: ex.deepCopy(x.V, x.T)}
	case *Term, StrV, Cplx:
		return v
	}
	panic(abortPath{fmt.Sprintf("gob: value of kind %T (%s) not modelled", v, t)})
}

func init() {
	prev := registerIOIntrinsics
	registerIOIntrinsics = func(ex *Exec, I map[string]intrinsic) {
		prev(ex, I)
		mk := func(ex *Exec, rw V) V {
			p := new(V)
			*p = NativeV{X: &gobCodec{rw: rw.(Iface)}}
			return Ptr{S: p}
		}
		noop := func(ex *Exec, fr *frame, a []V) V { return nil }
		for _, p := range []string{"github.com/golang/protobuf/proto", "github.com/gogo/protobuf/proto"} {
			I[p+".RegisterType"] = noop
			I[p+".RegisterEnum"] = noop
			I[p+".RegisterFile"] = noop
		}
		I["encoding/gob.NewEncoder"] = func(ex *Exec, fr *frame, a []V) V { return mk(ex, a[0]) }
		I["encoding/gob.NewDecoder"] = func(ex *Exec, fr *frame, a []V) V { return mk(ex, a[0]) }
		I["(*encoding/gob.Encoder).Encode"] = func(ex *Exec, fr *frame, a []V) V {
			c := ex.nativeOf(a[0]).(*gobCodec)
			x := a[1].(Iface)
			if x.T == nil {
				return ex.mkError("gob: cannot encode nil value")
			}
			t, v := x.T, x.V
			for {
				p, ok := t.Underlying().(*types.Pointer)
				if !ok {
					break
				}
				if v.(Ptr).IsNil() {
					return ex.mkError("gob: encodeReflectValue: nil element")
				}
				t = p.Elem()
				v = ex.load(v.(Ptr), t)
			}
			if _, isI := t.Underlying().(*types.Interface); isI {
				iv := v.(Iface)
				if iv.T == nil {
					return ex.mkError("gob: cannot encode nil pointer of type " + t.String())
				}
				t, v = iv.T, iv.V
			}
			ex.gobTab = append(ex.gobTab, gobItem{t: t, v: ex.deepCopy(v, t)})
			tok := make([]byte, 9)
			tok[0] = 0xB0
			k := len(ex.gobTab) - 1
			for i := 0; i < 8; i++ {
				tok[1+i] = byte(k >> (8 * i))
			}
			r := ex.callMethod(fr, c.rw, "Write", ex.goBytesToSlice(tok)).(Tuple)
			return r[1]
		}
		I["(*encoding/gob.Decoder).Decode"] = func(ex *Exec, fr *frame, a []V) V {
			c := ex.nativeOf(a[0]).(*gobCodec)
			x := a[1].(Iface)
			if x.T == nil {
				return ex.mkError("gob: attempt to decode into a nil value")
			}
			pt, ok := x.T.Underlying().(*types.Pointer)
			if !ok {
				return ex.mkError("gob: attempt to decode into a non-pointer")
			}
			buf := ex.newBuf(byteT, 9)
			got := 0
			for got < 9 {
				part := Slice{B: buf, Off: ex.c64(int64(got)), Len: ex.c64(int64(9 - got)), Cap: ex.c64(int64(9 - got))}
				res := ex.callMethod(fr, c.rw, "Read", part).(Tuple)
				n := int(ex.cint(res[0], "Read count"))
				got += n
				if e, ok := res[1].(Iface); ok && e.T != nil && got < 9 {
					return res[1]
				}
				if n == 0 && got < 9 {
					return ex.mkError("EOF")
				}
			}
			bs := ex.sliceGoBytes(ex.mkSlice(buf, 9), "gob token")
			if bs[0] != 0xB0 {
				return ex.mkError("gob: bad data")
			}
			k := 0
			for i := 0; i < 8; i++ {
				k |= int(bs[1+i]) << (8 * i)
			}
			if k >= len(ex.gobTab) {
				return ex.mkError("gob: bad data (token)")
			}
			it := ex.gobTab[k]
			tt := pt.Elem()
			if _, isI := tt.Underlying().(*types.Interface); isI {
				ex.store(x.V.(Ptr), tt, Iface{T: it.t, V: ex.deepCopy(it.v, it.t)}, nil)
				return Iface{}
			}
			if !types.Identical(tt.Underlying(), it.t.Underlying()) {
				return ex.mkError("gob: type mismatch: decoding " + it.t.String() + " into " + tt.String())
			}
			ex.store(x.V.(Ptr), tt, ex.deepCopy(it.v, it.t), nil)
			return Iface{}
		}
	}
}


// ---------- text round trip of numbers (CSV): fmt "%v" of a symbolic number is an uninterpreted, injective string
// fmtv:<type>(x); strconv.Parse* of such a string returns x (assumption: strconv round-trips every value of the type,
// NaN payloads excepted - the harness compares values, not NaN payloads). Concrete values are formatted and parsed natively.

func (ex *Exec) symbolicFormat(f V, args V) (StrV, bool) {
	fs, ok := f.(StrV)
	if !ok || fs.T != nil || fs.S != "%v" {
		return StrV{}, false
	}
	sl, ok := args.(Slice)
	if !ok || sl.B == nil || ex.cint(sl.Len, "fmt args") != 1 {
		return StrV{}, false
	}
	it := types.NewInterfaceType(nil, nil)
	x, ok := ex.load(ex.elemPtr(sl.B, sl.Off, ex.c64(0), it), it).(Iface)
	if !ok || x.T == nil {
		return StrV{}, false
	}
	nk := numKind(x.T)
	switch v := x.V.(type) {
	case *Term:
		if nk.ok && !v.IsConst() {
			return StrV{T: ex.ts.UF("fmtv:"+x.T.Underlying().String(), sortStr, v)}, true
		}
	case Cplx:
		if !v.Re.IsConst() || !v.Im.IsConst() {
			return StrV{T: ex.ts.UF("fmtv:"+x.T.Underlying().String(), sortStr, v.Re, v.Im)}, true
		}
	case StrV:
		if v.T != nil {
			return v, true
		}
	}
	return StrV{}, false
}

func fmtvArg(s V, kinds ...string) (*Term, string, bool) {
	sv, ok := s.(StrV)
	if !ok || sv.T == nil || sv.T.Op != OUF || !strings.HasPrefix(sv.T.Name, "fmtv:") || len(sv.T.Args) != 1 {
		return nil, "", false
	}
	k := strings.TrimPrefix(sv.T.Name, "fmtv:")
	for _, want := range kinds {
		if strings.HasPrefix(k, want) {
			return sv.T.Args[0], k, true
		}
	}
	return nil, k, false
}

func init() {
	prev := registerIOIntrinsics
	registerIOIntrinsics = func(ex *Exec, I map[string]intrinsic) {
		prev(ex, I)
		ts := ex.ts
		errSyntax := func(ex *Exec, fn, s string) V { return ex.mkError("strconv." + fn + ": parsing " + strconv.Quote(s) + ": invalid syntax") }
		parseInt := func(signed bool) intrinsic {
			name := "ParseUint"
			if signed {
				name = "ParseInt"
			}
			return func(ex *Exec, fr *frame, a []V) V {
				base := int(ex.cint(a[1], "strconv base"))
				bits := int(ex.cint(a[2], "strconv bitSize"))
				if bits == 0 {
					bits = 64
				}
				if sv, ok := a[0].(StrV); ok && sv.T == nil {
					if signed {
						n, err := strconv.ParseInt(sv.S, base, bits)
						if err != nil {
							return Tuple{ex.c64(n), ex.mkError(err.Error())}
						}
						return Tuple{ex.c64(n), Iface{}}
					}
					n, err := strconv.ParseUint(sv.S, base, bits)
					if err != nil {
						return Tuple{ts.BV(64, n), ex.mkError(err.Error())}
					}
					return Tuple{ts.BV(64, n), Iface{}}
				}
				x, k, ok := fmtvArg(a[0], "int", "uint")
				if !ok || base != 10 {
					panic(abortPath{"strconv." + name + " of a symbolic string that is not the image of an integer"})
				}
				srcSigned := strings.HasPrefix(k, "int")
				w := int(x.Sort.W)
				var wide *Term
				if srcSigned {
					wide = ts.SExt(x, 64)
				} else {
					wide = ts.ZExt(x, 64)
				}
				// range / sign errors exactly as strconv reports them
				var okc *Term
				switch {
				case signed && srcSigned:
					okc = ts.tru
					if w > bits {
						lo, hi := ts.BV(64, uint64(-(int64(1) << (bits - 1)))), ts.BV(64, uint64(int64(1)<<(bits-1)-1))
						okc = ts.And(ts.BvCmp(OSLe, lo, wide), ts.BvCmp(OSLe, wide, hi))
					}
				case signed && !srcSigned:
					okc = ts.tru
					if w >= bits {
						okc = ts.BvCmp(OULe, wide, ts.BV(64, uint64(int64(1)<<(bits-1)-1)))
					}
				case !signed && srcSigned:
					okc = ts.BvCmp(OSLe, ts.BV(64, 0), wide) // a minus sign is a syntax error for ParseUint
					if w > bits && bits < 64 {
						okc = ts.And(okc, ts.BvCmp(OULe, wide, ts.BV(64, uint64(1)<<bits-1)))
					}
				default:
					okc = ts.tru
					if w > bits && bits < 64 {
						okc = ts.BvCmp(OULe, wide, ts.BV(64, uint64(1)<<bits-1))
					}
				}
				if ex.branch(okc, token.NoPos, fr) {
					return Tuple{wide, Iface{}}
				}
				return Tuple{wide, ex.mkError("strconv." + name + ": value out of range")}
			}
		}
		I["strconv.ParseInt"] = parseInt(true)
		I["strconv.ParseUint"] = parseInt(false)
		I["strconv.ParseFloat"] = func(ex *Exec, fr *frame, a []V) V {
			bits := int(ex.cint(a[1], "strconv bitSize"))
			f64 := ex.floatSort(8)
			if sv, ok := a[0].(StrV); ok && sv.T == nil {
				x, err := strconv.ParseFloat(sv.S, bits)
				var t *Term
				if ex.ring {
					if x != float64(int64(x)) {
						panic(abortPath{"ring mode: non-integer literal"})
					}
					t = ts.IntC(int64(x))
				} else {
					t = ts.mk(OConst, f64, floatBits(x), "")
				}
				if err != nil {
					return Tuple{t, ex.mkError(err.Error())}
				}
				return Tuple{t, Iface{}}
			}
			x, k, ok := fmtvArg(a[0], "float")
			if !ok {
				if _, k2, isNum := fmtvArg(a[0], "int", "uint"); isNum || k2 != "" {
					panic(abortPath{"strconv.ParseFloat of the text of a non-float value"})
				}
				panic(abortPath{"strconv.ParseFloat of a symbolic string that is not the image of a float"})
			}
			if k == "float32" {
				if bits != 32 && bits != 64 {
					return Tuple{ts.Zero(f64), errSyntax(ex, "ParseFloat", "?")}
				}
				return Tuple{ts.FToF(x, f64), Iface{}} // exact widening
			}
			if bits == 32 {
				// nearest float32, returned as float64
				return Tuple{ts.FToF(ts.FToF(x, ex.floatSort(4)), f64), Iface{}}
			}
			return Tuple{x, Iface{}}
		}

		// ---------- encoding/csv as a record FIFO through the byte stream ----------
		type csvCodec struct{ rw Iface }
		strT := types.Typ[types.String]
		mkc := func(ex *Exec, rw V) V {
			p := new(V)
			*p = NativeV{X: &csvCodec{rw: rw.(Iface)}}
			return Ptr{S: p}
		}
		I["encoding/csv.NewWriter"] = func(ex *Exec, fr *frame, a []V) V { return mkc(ex, a[0]) }
		I["encoding/csv.NewReader"] = func(ex *Exec, fr *frame, a []V) V { return mkc(ex, a[0]) }
		I["(*encoding/csv.Writer).Flush"] = func(ex *Exec, fr *frame, a []V) V { return nil }
		I["(*encoding/csv.Writer).Error"] = func(ex *Exec, fr *frame, a []V) V { return Iface{} }
		I["(*encoding/csv.Writer).Write"] = func(ex *Exec, fr *frame, a []V) V {
			c := ex.nativeOf(a[0]).(*csvCodec)
			rec := a[1].(Slice)
			n := 0
			if rec.B != nil {
				n = int(ex.cint(rec.Len, "csv record length"))
			}
			fields := make([]V, n)
			for i := 0; i < n; i++ {
				fields[i] = ex.load(ex.elemPtr(rec.B, rec.Off, ex.c64(int64(i)), strT), strT)
			}
			ex.csvTab = append(ex.csvTab, fields)
			tok := make([]byte, 9)
			tok[0] = 0xC5
			k := len(ex.csvTab) - 1
			for i := 0; i < 8; i++ {
				tok[1+i] = byte(k >> (8 * i))
			}
			r := ex.callMethod(fr, c.rw, "Write", ex.goBytesToSlice(tok)).(Tuple)
			return r[1]
		}
		I["(*encoding/csv.Reader).Read"] = func(ex *Exec, fr *frame, a []V) V {
			c := ex.nativeOf(a[0]).(*csvCodec)
			buf := ex.newBuf(byteT, 9)
			got := 0
			eof := func() V {
				iop := ex.ld.pkgs["io"]
				return Tuple{Slice{}, *ex.global(iop.Var("EOF"))}
			}
			for got < 9 {
				part := Slice{B: buf, Off: ex.c64(int64(got)), Len: ex.c64(int64(9 - got)), Cap: ex.c64(int64(9 - got))}
				res := ex.callMethod(fr, c.rw, "Read", part).(Tuple)
				n := int(ex.cint(res[0], "Read count"))
				got += n
				if e, ok := res[1].(Iface); ok && e.T != nil && got < 9 {
					return eof()
				}
				if n == 0 && got < 9 {
					return eof()
				}
			}
			bs := ex.sliceGoBytes(ex.mkSlice(buf, 9), "csv token")
			k := 0
			for i := 0; i < 8; i++ {
				k |= int(bs[1+i]) << (8 * i)
			}
			if bs[0] != 0xC5 || k >= len(ex.csvTab) {
				return Tuple{Slice{}, ex.mkError("csv: bad data")}
			}
			fields := ex.csvTab[k]
			ob := ex.newBuf(strT, len(fields))
			copy(ob.cells, fields)
			return Tuple{ex.mkSlice(ob, len(fields)), Iface{}}
		}
	}
}

func floatBits(x float64) uint64 { return mathFloat64bits(x) }

func mathFloat64bits(x float64) uint64 { return math.Float64bits(x) }

// ---------- gonum mat.Dense (C04: ToMat64 / FromMat64) ----------
// A *mat.Dense is modelled as (rows, cols, data slice) with row-major data of stride cols, as mat.NewDense documents.

type matModel struct {
	r, c int
	data Slice
}

func init() {
	prev := registerIOIntrinsics
	registerIOIntrinsics = func(ex *Exec, I map[string]intrinsic) {
		prev(ex, I)
		M := "gonum.org/v1/gonum/mat."
		f64 := types.Typ[types.Float64]
		I[M+"NewDense"] = func(ex *Exec, fr *frame, a []V) V {
			r, c := int(ex.cint(a[0], "mat rows")), int(ex.cint(a[1], "mat cols"))
			if r <= 0 || c <= 0 {
				ex.throw("mat: zero length in matrix dimension")
			}
			d, _ := a[2].(Slice)
			if d.B == nil {
				d = ex.mkSlice(ex.newBuf(f64, r*c), r*c)
			} else if int(ex.cint(d.Len, "mat data length")) != r*c {
				ex.throw("mat: dimension mismatch")
			}
			p := new(V)
			*p = NativeV{X: &matModel{r: r, c: c, data: d}}
			return Ptr{S: p}
		}
		I["(*"+M+"Dense).Dims"] = func(ex *Exec, fr *frame, a []V) V {
			m := ex.nativeOf(a[0]).(*matModel)
			return Tuple{ex.c64(int64(m.r)), ex.c64(int64(m.c))}
		}
		I["(*"+M+"Dense).At"] = func(ex *Exec, fr *frame, a []V) V {
			m := ex.nativeOf(a[0]).(*matModel)
			i, j := int(ex.cint(a[1], "mat row")), int(ex.cint(a[2], "mat col"))
			if i < 0 || i >= m.r {
				ex.throw("mat: row index out of range")
			}
			if j < 0 || j >= m.c {
				ex.throw("mat: column index out of range")
			}
			return ex.load(ex.elemPtr(m.data.B, m.data.Off, ex.c64(int64(i*m.c+j)), f64), f64)
		}
		I["(*"+M+"Dense).RawMatrix"] = func(ex *Exec, fr *frame, a []V) V {
			m := ex.nativeOf(a[0]).(*matModel)
			// blas64.General{Rows, Cols int; Data []float64; Stride int}
			return Struct{ex.c64(int64(m.r)), ex.c64(int64(m.c)), m.data, ex.c64(int64(m.c))}
		}
	}
}
